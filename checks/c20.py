"""C20 — container lifetimes: arrays are released exactly once, no leaks (reference counts).

Engine E7 as an ownership typestate (lib/lafem_rules.Interp): every function of every Container-derived
class (and SparseLayout) that touches the pointer vectors `_elements` / `_indices`, the `_foreign_memory`
flag or the MemoryPool reference-count primitives is abstractly interpreted on all paths of its resolved
statement tree; plus decision rules on the MemoryPool primitives themselves (E13).  Nothing is executed.
"""
import re

import featlib
from featlib import Check, walk, render, is_call, rel
import lafem_rules as L

LAFEM = featlib.repo_path("kernel/lafem/")
POOLF = featlib.repo_path("kernel/util/memory_pool")
FILES = LAFEM + "|" + POOLF + "|/verif/tu/c20_"

RULES = {
    "C20.release-before-overwrite": (
        "every clear()/assign()/operator=/slot assignment of the pointer vectors _elements/_indices of a container "
        "that may own arrays happens in a state where nothing is owned (after the release_memory loop over that same "
        "vector on every path, or in a fresh object). Broken -> for any history that re-assigns a live container "
        "(convert/move/operator=(layout) on a non-empty object) the old arrays are never released: pool not empty at shutdown.", 35),
    "C20.release-guard": (
        "every release_memory loop runs over a vector whose pointers carry this object's references and, in Container "
        "and every class with a foreign-memory constructor (writers of _foreign_memory=true), only under !_foreign_memory. "
        "Broken -> destroying/clearing/moving into a range vector (DenseVector(v,size,offset)) releases the parent's array "
        "(abort 'address not found' or premature free), or an array is released twice.", 21),
    "C20.increase-once": (
        "every increase_memory loop runs over pointers that were copied from another container and not yet counted. "
        "Broken -> reference counted twice (array never freed) or a dangling pointer is counted.", 35),
    "C20.pointer-origin": (
        "a pointer enters _elements/_indices only as a fresh MemoryPool::allocate_memory result pushed onto owned/empty "
        "vectors, or as a foreign/shared pointer pushed onto an empty or not-yet-counted vector.", 66),
    "C20.exit-state": (
        "at every normal exit of every lifetime function each container object left behind (this, moved-from parameters, "
        "locals about to be destroyed) is consistent with its _foreign_memory flag: owned pointers <-> flag false, "
        "uncounted/foreign pointers <-> flag true, copied pointers were followed on all paths by the increase_memory loop. "
        "Broken (e.g. increase loop dropped in clone(Shallow)/assign, flag not copied in move, flag not reset in clear) -> "
        "destroying source and copy in either order frees an array that is still referenced / double release.", 250),
    "C20.destructor-releases": (
        "the destructors that own the release loops (~Container, ~SparseLayout) leave no owned array on any path.", 2),
    "C20.loop-range": (
        "every release/increase loop is bounded by the size of the very vector whose slots it passes to MemoryPool "
        "(copy-paste of the _elements bound into the _indices loop releases too few/too many arrays for CSR: 1 vs 2).", 52),
    "C20.valid-at-call": (
        "whenever a lifetime method (clear, move, assign, clone, convert, ...) is invoked on a container, or a container is "
        "handed over by non-const/rvalue reference, its pointer vectors are in a consistent state (not released-but-"
        "still-stored, not copied-but-uncounted).", 45),
    "C20.size-pairing": (
        "every array pushed into _elements/_indices is paired, in order, with a push of the same extent into "
        "_elements_size/_indices_size (allocate_memory<T>(E) <-> E; X.elements<P>() <-> X.size<P>()). Broken -> Deep/Weak "
        "clone, cross-type convert and serialisation copy the wrong number of entries (heap overrun or truncated copy).", 80),
    "C20.size-vector-length": (
        "at every normal exit _elements_size/_indices_size has exactly as many entries as _elements/_indices (lengths tracked "
        "symbolically through clear/assign/move/push_back and counting loops): a clear/assign/move of one vector must be matched on "
        "its partner before the next push. Broken -> slot i of the size vector describes another array: format/clone/copy/serialize "
        "run over a wrong extent (heap overflow when a matrix is re-assigned a layout with fewer non-zeros).", 200),
    "C20.index-array-write": (
        "DESIGN clause 5: a Container-family function stores through an array held in _indices (directly, through a non-const accessor "
        "returning _indices.at(K) such as col_ind()/row_ptr()/indices(), through a local pointer initialised from either, or by passing it to a "
        "callee parameter with a mutable pointee) only if that array was allocated in this very function (typestate OWN{alloc} / slot just "
        "re-allocated). Index arrays are shared by reference count with Layout/Weak/Shallow clones, layout() objects and matrices built from "
        "them. Broken -> permuting / sorting / refilling one container silently changes the layout of its weak clones (their values no longer "
        "belong to the stored positions).", 30),
    "C20.clone-cross-type": (
        "every clone overload of every container class - the templated Container::clone(const Container<DT2,IT2>&, mode), T::clone(const T<DT2,IT2>&, mode) "
        "of the derived classes and the value-returning T::clone(mode) const - is evaluated symbolically per clone mode and per (data type same/different) x "
        "(index type same/different) instantiation: calls are composed from the extracted sharing table of Container::assign, the extracted aliasing table "
        "of the same-type Container::clone and move; any other member that receives the source (T::convert(other), helpers) is followed into its body. "
        "Whenever the enum documentation promises freshly allocated arrays (data arrays for Layout, Weak, Deep, Allocate; index arrays for Deep, Allocate) "
        "the result must not alias the source. Broken (a cross-type clone that delegates to convert/assign, which share the arrays of the unchanged type; "
        "adopting the conversion temporary) -> a deep/weak clone across index types aliases the source's values.", 400),
    "C20.extent-agreement": (
        "writer/reader agreement of recorded array extents: two constructors of one class that establish the same _scalar_index "
        "(same base-class size argument, same pushed scalars) describe the same logical container, and every generic reader "
        "(Container::clone/assign/format/_copy_content/serialize) derives element counts from _scalar_index and _elements_size only - so "
        "they must record the same extent for array k of _elements/_indices, compared as polynomials in the scalar slots after inlining the "
        "class's own accessors (size<pod>() = slot0 * BlockSize). Broken (one constructor records blocks instead of scalars) -> clones / "
        "conversions of such an object get arrays that are too short for the element count all accessors use.", 10),
    "C20.pool-release": (
        "MemoryPool::release_memory looks the address up, frees and erases the entry exactly when the counter is 1 and "
        "decrements it by one otherwise.", 4),
    "C20.pool-increase": (
        "MemoryPool::increase_memory increments the counter of the looked-up address by exactly one and touches nothing else.", 2),
    "C20.pool-allocate": (
        "MemoryPool::allocate_memory registers every non-null pointer it returns with counter 1 before returning it.", 4),
    "C20.pool-finalize": (
        "MemoryPool::finalize terminates with an error exactly when the pool is non-empty; Runtime::finalize reaches it on every normal path.", 2),
    "C20.share-postcondition": (
        "a sharing operation (same-type convert / assign and everything built on them: at some normal exit *this holds counted "
        "references to arrays copied from a parameter object, _foreign_memory == false) establishes that ownership on every normal "
        "exit: a path that returns earlier (an 'already sharing' shortcut decided on sizes / pointer equality) must itself guarantee "
        "_foreign_memory == false - pointer equality does not imply a held reference: a ranged view at offset 0 spanning its whole owner "
        "has the same pointer and size without owning anything. Broken -> view.convert(owner) leaves the view un-counted; it dangles "
        "when the owner is destroyed although convert() promises a co-owner.", 10),
    "C20.alias-stale-pointer": (
        "a member f(const T& x) of T may be called with x == *this unless it refuses that itself (a `this == &x` test): raw pointers "
        "fetched from x's arrays (x.val(), x.col_ind(), x.row_ptr(), x.elements(), ...) or x's array accessors must not be read on any "
        "CFG path after *this released / replaced its arrays (clear(), move(), assign / convert / clone into *this, a release loop) - with "
        "&x == this those pointers refer to the arrays just freed. Broken (this->clear() moved in front of the loops that still read x) -> "
        "m.transpose(m) reads freed memory.", 4),
    "C20.range-bound": (
        "ranging: every function that stores a pointer `base + offset` derived from another container's array into its own "
        "_elements/_indices (a view: DenseVector(dv, size, offset), DenseVectorBlocked(dv, size, offset)) with recorded extent E is "
        "dominated by always-on assertions whose conjunction entails offset + E <= extent of the parent array (decided arithmetically: the "
        "goal must be a non-negative combination of the asserted linear inequalities over unsigned quantities, after expressing blocked "
        "quantities in scalars). Two separate bounds `offset < n` and `size <= n` do not entail it. Broken -> a view reaching beyond the "
        "parent's allocation is handed out; format/copy/axpy on it read and write outside the allocation.", 2),
    "C20.pool-unknown-address": (
        "MemoryPool::increase_memory / release_memory (and allocated_size) look the address up in the pool; for an address that is not "
        "registered (lookup == _pool.end()) no path may reach a normal exit: every path through the not-found side of the lookup test ends "
        "in a noreturn call (XABORTM). That abort is the only enforcement of the documented precondition of the adopting constructors and "
        "conversions ('the array must be allocated by FEAT's own memory pool') and the only detector of a second release. Broken (silent "
        "return) -> a container adopting an interior pointer of a ranged slice never becomes a co-owner: dangling array after the real "
        "owner is gone, double releases unnoticed.", 3),
    "C20.pool-null-consistency": (
        "allocate_memory(0) hands out nullptr as the array of a zero-length container slot, so release_memory and "
        "increase_memory must both accept nullptr as a no-op. Broken -> sharing (Shallow/Layout/Weak clone, same-type "
        "convert, layout()) a container with a zero-length array aborts.", 2),
}


def declare(ck):
    for r, (doc, mi) in RULES.items():
        ck.rule(r, doc, min_instances=mi)


# -------------------------------------------------------------------------------------------------
# MemoryPool primitives
# -------------------------------------------------------------------------------------------------

class NoEval(Exception):
    pass


def ieval(e, subst):
    """evaluate a small integer/boolean expression; subst(node) -> value or None"""
    e = L.unwrap(e)
    v = subst(e)
    if v is not None:
        return v
    k = e.get("k")
    if k == "Int":
        return int(e["v"])
    if k == "Bool":
        return bool(e["v"])
    if k == "Un" and e.get("op") == "!":
        return not ieval(e["e"], subst)
    if k in ("Construct", "TempObj") and len(e.get("a", [])) == 1:
        return ieval(e["a"][0], subst)
    if k == "Bin":
        a, b = ieval(e["lhs"], subst), ieval(e["rhs"], subst)
        op = e["op"]
        return {"==": a == b, "!=": a != b, "<": a < b, "<=": a <= b, ">": a > b, ">=": a >= b,
                "&&": bool(a) and bool(b), "||": bool(a) or bool(b), "+": a + b, "-": a - b, "*": a * b}[op] if op in (
            "==", "!=", "<", "<=", ">", ">=", "&&", "||", "+", "-", "*") else (_ for _ in ()).throw(NoEval(op))
    raise NoEval(render(e))


_COUNTER_ALIASES = set()
_INFO_COPIES = set()       # non-reference locals of type MemoryInfo / Index that hold a *copy* of a pool entry (or of its counter)


def set_counter_aliases(fn, entry_only=True):
    """reference locals bound to a MemoryInfo::counter (auto & c = it->second.counter).  With entry_only (release / increase:
    the counter that matters is the one stored in the pool) value copies `MemoryInfo info = it->second;` / `Index c = it->second.counter;`
    are recorded as copies: updating them does not update the pool entry."""
    _COUNTER_ALIASES.clear()
    _INFO_COPIES.clear()
    for n in fn.nodes():
        if n.get("k") == "Var" and n.get("ref") and n.get("init") is not None:
            i = L.unwrap(n["init"])
            if i.get("k") == "Member" and i.get("qn", "").endswith("MemoryInfo::counter"):
                _COUNTER_ALIASES.add(n["d"])
        elif n.get("k") == "Var" and not n.get("ref") and entry_only and "*" not in (fn.type(n.get("t")) or ""):
            t = fn.type(n.get("t")) or ""
            if "MemoryInfo" in t and "iterator" not in t and "map" not in t and "pair" not in t:
                _INFO_COPIES.add(n["d"])


def is_counter(n):
    if n.get("k") == "Ref" and n.get("d") in _COUNTER_ALIASES:
        return True
    if n.get("k") == "Member" and n.get("qn", "").endswith("MemoryInfo::counter"):
        b = L.unwrap(n.get("b") or {})
        if b.get("k") == "Ref" and b.get("d") in _INFO_COPIES:
            return False          # the counter of a local copy, not of the pool entry
        return True
    return False


def counter_delta(stmt):
    """+1 / -1 / other for a statement that modifies MemoryInfo::counter; None if it does not"""
    if stmt.get("k") == "Assign" and is_counter(L.unwrap(stmt["lhs"])):
        op = stmt.get("op")
        if op == "=":
            try:
                return ieval(stmt["rhs"], lambda x: 100 if is_counter(x) else None) - 100
            except (NoEval, TypeError):
                return "?"
        if op in ("+=", "-="):
            try:
                d = ieval(stmt["rhs"], lambda x: None)
            except (NoEval, TypeError):
                return "?"
            return d if op == "+=" else -d
        return "?"
    if stmt.get("k") == "Un" and stmt.get("op") in ("++", "--") and is_counter(L.unwrap(stmt["e"])):
        return 1 if stmt["op"] == "++" else -1
    return None


def counter_mods(n):
    out = []
    for x in walk(n):
        d = counter_delta(x)
        if d is not None:
            out.append((d, x))
    return out


def frees(n):
    return [x for x in walk(n) if x.get("k") == "Call" and re.search(r"(^|::)(free|cuda_free)$", str(x.get("callee", "")))]


def opaque_calls(n, names):
    """calls (other than free / erase / stream output) that receive one of the named variables: they may do the work"""
    out = []
    for x in walk(n or {}):
        if is_call(x) and x not in frees(n) and not (x.get("k") == "MCall" and x.get("n") in ("erase", "find", "end", "begin", "size", "empty")) \
                and not (x.get("k") == "OpCall") and x.get("callee") not in ("FEAT::assertion",) and not str(x.get("callee", "")).startswith("std::") \
                and not (x.get("k") in ("Construct", "TempObj") and ("MemoryInfo" in str(x.get("ccls", "")) or str(x.get("ccls", "")).startswith("std::"))):
            if any(y.get("k") == "Ref" and y.get("n") in names for a in (x.get("a") or []) for y in walk(a)):
                out.append(x)
    return out


def erases(n):
    return [x for x in walk(n) if x.get("k") == "MCall" and x.get("n") == "erase" and render(x.get("obj")).endswith("_pool")]


def _is_pool_find(e, keyname=None, keydecl=None):
    """e is `_pool.find(<key>)` (through value-initialising wrappers)"""
    e = L.unwrap(e)
    while e.get("k") in ("Construct", "TempObj") and len(e.get("a", [])) == 1:
        e = L.unwrap(e["a"][0])
    if e.get("k") == "MCall" and e.get("n") == "find" and render(e.get("obj")).endswith("_pool") and len(e.get("a", [])) == 1:
        k0 = L.unwrap(e["a"][0])
        while k0.get("k") in ("Construct", "TempObj") and len(k0.get("a", [])) == 1:
            k0 = L.unwrap(k0["a"][0])
        return (keyname is None or k0.get("n") == keyname) and (keydecl is None or k0.get("d") == keydecl)
    return False


def _end_compare(c, itd):
    """'!=' / '==' if c compares the iterator itd with _pool.end(), else None"""
    c = L.unwrap(c)
    if c.get("k") in ("OpCall", "Bin") and c.get("op") in ("!=", "=="):
        ops = c.get("a") or [c.get("lhs"), c.get("rhs")]
        txt = [render(L.unwrap(x)) for x in ops]
        ds = [L.unwrap(x).get("d") for x in ops]
        if itd in ds and any(t.endswith("_pool.end()") or t.endswith("_pool.cend()") for t in txt):
            return c["op"]
    return None


def lookup_helper(fn, call):
    """a lookup behind a helper: `static bool _find_chunk(void* address, Iterator& it) { it = _pool.find(address); return it != _pool.end(); }`
    -> (index of the address parameter, index of the iterator parameter, value returned when the address was found) or None"""
    if call.get("k") not in ("Call", "MCall") or call.get("cdecl") is None:
        return None
    memo = fn.facts.__dict__.setdefault("_c20_lookup_helpers", {})
    if call["cdecl"] in memo:
        return memo[call["cdecl"]]
    res = None
    g = next((f for f in fn.facts.functions if f.d.get("decl") == call["cdecl"] and f.body is not None), None)
    if g is not None and len(g.params) == 2 and not g.d.get("virtual"):
        stm = g.body.get("s", []) if g.body.get("k") == "Block" else [g.body]
        stm = [x for x in stm if x.get("k") != "Null_"]
        for ai, ii in ((0, 1), (1, 0)):
            ad, idd = g.params[ai]["d"], g.params[ii]["d"]
            assigned = False
            for x in stm[:-1]:
                lhs = rhs = None
                if x.get("k") == "OpCall" and x.get("op") == "=" and len(x.get("a") or []) == 2:
                    lhs, rhs = x["a"]
                elif x.get("k") == "Assign" and x.get("op") == "=":
                    lhs, rhs = x["lhs"], x["rhs"]
                if lhs is not None and L.unwrap(lhs).get("d") == idd and _is_pool_find(rhs, keydecl=ad):
                    assigned = True
                elif x.get("k") != "Decl":
                    assigned = False
                    break
            if assigned and stm and stm[-1].get("k") == "Return" and stm[-1].get("e") is not None:
                e = L.unwrap(stm[-1]["e"])
                neg = False
                while e.get("k") == "Un" and e.get("op") == "!":
                    e = L.unwrap(e["e"])
                    neg = not neg
                op = _end_compare(e, idd)
                if op is not None:
                    res = (ai, ii, (op == "!=") != neg)
                    break
    memo[call["cdecl"]] = res
    return res


def lookup_of(fn, param):
    """the local iterator that holds the result of _pool.find(<param>) - initialised with it, or filled by a lookup helper
    that receives <param> and the iterator by reference -> decl id or None"""
    for n in fn.nodes():
        if n.get("k") == "Var" and n.get("init") is not None and _is_pool_find(n["init"], keyname=param):
            return n["d"]
    # `const PoolIterator it(_find_chunk(address))` with `static PoolIterator _find_chunk(void* a) { return _pool.find(a); }`
    for n in fn.nodes():
        if n.get("k") == "Var" and n.get("init") is not None:
            i = L.unwrap(n["init"])
            while i.get("k") in ("Construct", "TempObj") and len(i.get("a", [])) == 1:
                i = L.unwrap(i["a"][0])
            if i.get("k") in ("Call", "MCall") and i.get("cdecl") is not None and len(i.get("a") or []) == 1 and L.unwrap(i["a"][0]).get("n") == param:
                g = next((f for f in fn.facts.functions if f.d.get("decl") == i["cdecl"] and f.body is not None), None)
                if g is not None and len(g.params) == 1 and not g.d.get("virtual"):
                    stm = [x for x in (g.body.get("s", []) if g.body.get("k") == "Block" else [g.body]) if x.get("k") != "Null_"]
                    if len(stm) == 1 and stm[0].get("k") == "Return" and stm[0].get("e") is not None and _is_pool_find(stm[0]["e"], keydecl=g.params[0]["d"]):
                        return n["d"]
    for n in fn.nodes():
        if n.get("k") in ("Call", "MCall"):
            h = lookup_helper(fn, n)
            a = n.get("a") or []
            if h is not None and len(a) == 2 and L.unwrap(a[h[0]]).get("n") == param and L.unwrap(a[h[1]]).get("k") == "Ref" and L.unwrap(a[h[1]]).get("dk") == "local":
                return L.unwrap(a[h[1]])["d"]
    return None


def found_when(fn, itd, c, depth=0):
    """truth value the condition c has when the looked-up address was found; None if c is not (only) the lookup test.
    Spellings: it != _pool.end(), it == _pool.end(), the call of a lookup helper that filled the iterator, a bool local
    initialised with either, each possibly negated"""
    c = L.unwrap(c)
    neg = False
    while c.get("k") == "Un" and c.get("op") == "!":
        c = L.unwrap(c["e"])
        neg = not neg
    while c.get("k") in ("Construct", "TempObj") and len(c.get("a", [])) == 1:
        c = L.unwrap(c["a"][0])
    op = _end_compare(c, itd)
    if op is not None:
        return (op == "!=") != neg
    if c.get("k") in ("Call", "MCall"):
        h = lookup_helper(fn, c)
        a = c.get("a") or []
        if h is not None and len(a) == 2 and L.unwrap(a[h[1]]).get("d") == itd:
            return h[2] != neg
    if c.get("k") == "Ref" and c.get("dk") == "local" and depth < 3:
        init = fn_local_init(fn, c.get("d"))
        assigned = any((x.get("k") == "Assign" and L.unwrap(x["lhs"]).get("d") == c.get("d")) or
                       (x.get("k") == "Un" and x.get("op") in ("++", "--", "&") and L.unwrap(x["e"]).get("d") == c.get("d")) for x in fn.nodes())
        if init is not None and not assigned:
            v = found_when(fn, itd, init, depth + 1)
            return None if v is None else (v != neg)
    return None


def lookup_tests(fn, itd):
    """[(If node, found_when)]: branches whose whole condition is the lookup test"""
    out = []
    for n in fn.nodes():
        if n.get("k") == "If":
            v = found_when(fn, itd, n["c"])
            if v is not None:
                out.append((n, v))
    return out


def found_branch(fn, itd):
    """the statement executed when the lookup succeeded: the found side of the lookup test, or - for the guard-clause form
    `if(not found) abort/return;` - the rest of the enclosing block"""
    for n, fw in lookup_tests(fn, itd):
        br = n.get("then") if fw else n.get("else")
        if br is not None:
            return br
        miss = n.get("else") if fw else n.get("then")
        leaves = miss is not None and any((is_call(x) and x.get("noreturn")) or x.get("k") in ("Return", "Throw") for x in walk(miss))
        if leaves:
            for blk in fn.nodes():
                if blk.get("k") == "Block" and any(x is n for x in blk.get("s", [])):
                    i = [x is n for x in blk["s"]].index(True)
                    return {"k": "Block", "s": blk["s"][i + 1:], "l": n.get("l")}
    return None


def null_outcome(fn, param):
    """what the function does when <param> is nullptr: 'noop' (reaches a normal exit without touching the pool),
    'abort' (assertion / abort on that path), 'effects', or 'unknown' (a condition the check cannot evaluate)"""
    def nulltest(c):
        """truth value of c when param == nullptr, None if c does not depend on param only"""
        c = L.unwrap(c)
        k = c.get("k")
        if k == "Ref" and c.get("n") == param:
            return False
        if k == "Un" and c.get("op") == "!":
            v = nulltest(c["e"])
            return None if v is None else (not v)
        if k == "Bin" and c.get("op") in ("==", "!="):
            a, b = L.unwrap(c["lhs"]), L.unwrap(c["rhs"])
            for x, y in ((a, b), (b, a)):
                if x.get("k") == "Ref" and x.get("n") == param and (y.get("k") == "Null" or (y.get("k") == "Int" and y.get("v") == "0")):
                    return c["op"] == "=="
            return None
        if k == "Bin" and c.get("op") in ("&&", "||"):
            a, b = nulltest(c["lhs"]), nulltest(c["rhs"])
            if c["op"] == "&&":
                return False if (a is False or b is False) else (True if a and b else None)
            return True if (a is True or b is True) else (False if a is False and b is False else None)
        return None

    def run(n):
        """-> outcome or None (fell through)"""
        if n is None:
            return None
        k = n.get("k")
        if k == "Block":
            for s_ in n.get("s", []):
                r = run(s_)
                if r is not None:
                    return r
            return None
        if k == "If":
            v = nulltest(n["c"])
            if v is None:
                a, b = run(n.get("then")), run(n.get("else")) if n.get("else") is not None else None
                if a == b:
                    return a
                if counter_mods(n) or frees(n) or erases(n) or any(is_call(x) and x.get("noreturn") for x in walk(n)) or any(x.get("k") == "Return" for x in walk(n)):
                    return "unknown"
                return None
            return run(n["then"]) if v else (run(n["else"]) if n.get("else") is not None else None)
        if k == "Return":
            return "noop"
        if is_call(n) and n.get("callee") == "FEAT::assertion" and n.get("a"):
            v = nulltest(n["a"][0])
            if v is False:
                return "abort"
            return None
        if is_call(n) and n.get("noreturn"):
            return "abort"
        if k in ("For", "While", "Do", "ForRange", "Switch", "Try"):
            return "unknown"
        if counter_mods(n) or frees(n) or erases(n):
            return "effects"
        for x in walk(n):
            if is_call(x) and x.get("noreturn"):
                return "abort"
            if is_call(x) and x.get("k") == "MCall" and x.get("n") == "find":
                continue
        return None
    r = run(fn.body)
    # after a failed lookup of nullptr the functions abort ("address not found"): falling off the lookup means effects on a found entry,
    # which cannot happen for nullptr; a plain fall-through of the whole body is a no-op
    return "noop" if r is None else r


def null_early_out(fn, param):
    """True iff the function starts with `if(<param> == nullptr) return;` style no-op for nullptr:
    a branch on param==nullptr whose null side returns without touching the pool"""
    for n in fn.nodes():
        if n.get("k") == "If":
            c = L.unwrap(n["c"])
            if c.get("k") == "Bin" and c.get("op") in ("==", "!="):
                sides = [L.unwrap(c["lhs"]), L.unwrap(c["rhs"])]
                if any(s.get("k") == "Null" for s in sides) and any(s.get("k") == "Ref" and s.get("n") == param for s in sides):
                    br = n.get("then") if c["op"] == "==" else n.get("else")
                    if br is None:
                        continue
                    rets = [x for x in walk(br) if x.get("k") == "Return"]
                    eff = counter_mods(br) + frees(br) + erases(br) + [x for x in walk(br) if is_call(x) and x.get("noreturn")]
                    if rets and not eff:
                        return True
    return False


def asserts_nonnull(fn, param):
    for c in fn.calls(name="assertion"):
        if c.get("a"):
            e = L.unwrap(c["a"][0])
            if e.get("k") == "Bin" and e.get("op") == "!=" and {L.unwrap(e["lhs"]).get("k"), L.unwrap(e["rhs"]).get("k")} >= {"Null"} \
                    and param in (L.unwrap(e["lhs"]).get("n"), L.unwrap(e["rhs"]).get("n")):
                return c
    return None


def pool_rules(ck, facts, runtime_facts, extra_facts=()):
    def one(name):
        fs = [f for f in facts.functions if f.qn == "FEAT::MemoryPool::" + name]
        for fx in extra_facts:
            # members defined out of line (kernel/util/memory_pool.cpp)
            if not fs:
                fs = [f for f in fx.functions if f.qn == "FEAT::MemoryPool::" + name and f.body is not None]
        if not fs:
            ck.incomplete("C20.pool-" + name.split("_")[0], "MemoryPool::%s not found in the parsed TU" % name)
        return fs

    # ---- release_memory
    for fn in one("release_memory")[:1]:
        set_counter_aliases(fn)
        p = fn.params[0]["n"] if fn.params else "address"
        itd = lookup_of(fn, p)
        fb = found_branch(fn, itd) if itd is not None else None
        if fb is not None:
            ck.ob("C20.pool-release", "MemoryPool::release_memory/lookup", True,
                  "reference count is looked up by _pool.find(%s) and used only when found" % p, fn.file, fn.line)
        if fb is None:
            ck.incomplete("C20.pool-release", "MemoryPool::release_memory: lookup structure not recognised")
        else:
            cif = [n for n in walk(fb) if n.get("k") == "If" and any(is_counter(x) for x in walk(n["c"]))]
            if len(cif) != 1:
                ck.incomplete("C20.pool-release", "MemoryPool::release_memory: expected exactly one branch on the counter, found %d" % len(cif))
            else:
                n = cif[0]
                # `if(--counter == 0)` / `if(counter-- == 1)`: the update is part of the test; the test sees the new value for
                # prefix / compound forms and the old one for the postfix form
                cmods = counter_mods(n["c"])
                cond_mod = cmods[0] if len(cmods) == 1 and isinstance(cmods[0][0], int) else None
                if cmods and (cond_mod is None or sum(1 for x in walk(n["c"]) if is_counter(x)) != 1):
                    ck.incomplete("C20.pool-release", "counter condition %s updates the counter in a way the check does not model" % render(n["c"]))
                    continue

                def csub(x, v):
                    if cond_mod is not None and x is cond_mod[1]:
                        return v if (x.get("k") == "Un" and x.get("post")) else v + cond_mod[0]
                    return v if is_counter(x) else None
                try:
                    tt = [bool(ieval(n["c"], lambda x, v=v: csub(x, v))) for v in (1, 2, 3, 7)]
                except (NoEval, TypeError) as e:
                    tt = None
                    ck.incomplete("C20.pool-release", "counter condition %s not evaluable (%s)" % (render(n["c"]), e))
                if tt is not None and tt not in ([True, False, False, False], [False, True, True, True]):
                    ck.ob("C20.pool-release", "MemoryPool::release_memory/last-reference-test", False,
                          "the branch condition %s is %s for counter = 1,2,3,7 (value before this call); it must single out counter == 1 (the last reference)" % (render(n["c"]), tt),
                          fn.file, n.get("l"))
                    continue
                if tt is not None:
                    def rest_after(ifn, taken):
                        """statements executed after `taken` left the function: the siblings following the if"""
                        leaves = taken is not None and any(x.get("k") in ("Return", "Throw") or (is_call(x) and x.get("noreturn")) for x in walk(taken))
                        if not leaves:
                            return None
                        for blk in [fb] + [x for x in walk(fb) if x.get("k") == "Block"]:
                            if blk.get("k") == "Block" and any(x is ifn for x in blk.get("s", [])):
                                i = [x is ifn for x in blk["s"]].index(True)
                                return {"k": "Block", "s": blk["s"][i + 1:], "l": ifn.get("l")}
                        return None
                    last, more = (n.get("then"), n.get("else")) if tt[0] else (n.get("else"), n.get("then"))
                    if last is None:
                        last = rest_after(n, more)
                    if more is None:
                        more = rest_after(n, last)
                    if more is None and cond_mod is not None and last is not None:
                        more = {"k": "Block", "s": [], "l": n.get("l")}       # the decrement already happened in the test
                    if last is None or more is None:
                        ck.incomplete("C20.pool-release", "MemoryPool::release_memory: the two sides of the counter test (%s) are not both recognisable" % render(n["c"]))
                        continue
                    ok = tt in ([True, False, False, False], [False, True, True, True])
                    ck.ob("C20.pool-release", "MemoryPool::release_memory/last-reference-test", ok,
                          "the branch condition %s is %s for counter = 1,2,3,7; it must single out counter == 1 (the last reference)" % (render(n["c"]), tt),
                          fn.file, n.get("l"))
                    fr = frees(last) if last is not None else []
                    er = erases(last) if last is not None else []
                    opq = opaque_calls(last, {p, "it"}) + opaque_calls(more, {p, "it"})
                    if opq and (len(fr) != 1 or len(er) != 1 or len(counter_mods(more or {})) + (1 if cond_mod else 0) != 1):
                        ck.incomplete("C20.pool-release", "MemoryPool::release_memory hands %s / the map iterator to %s, which the check does not model" % (p, opq[0].get("callee")))
                        continue
                    ok_free = len(fr) == 1 and L.unwrap(fr[0]["a"][0]).get("n") == p and len(er) == 1 and not counter_mods(last or {})
                    ck.ob("C20.pool-release", "MemoryPool::release_memory/free-and-erase", ok_free,
                          "last-reference branch: %d free(%s) calls, %d _pool.erase calls, %d counter updates (expected 1,1,0)" % (len(fr), p, len(er), len(counter_mods(last or {}))),
                          fn.file, n.get("l"))
                    cm = (counter_mods(more) if more is not None else []) + ([cond_mod] if cond_mod else [])
                    ok_dec = len(cm) == 1 and cm[0][0] == -1 and not frees(more) and not erases(more)
                    ck.ob("C20.pool-release", "MemoryPool::release_memory/decrement", ok_dec,
                          "other-references branch: counter updates %s, %d free calls, %d erase calls (expected one -1, 0, 0)" % ([c[0] for c in cm], len(frees(more or {})), len(erases(more or {}))),
                          fn.file, n.get("l"))
                    stray = [x for x in frees(fn.body) + erases(fn.body) if all(x is not y for y in fr + er)]
                    stray_c = [x for x in counter_mods(fn.body) if all(x[1] is not y[1] for y in cm)]
                    ck.ob("C20.pool-release", "MemoryPool::release_memory/no-other-effect", not stray and not stray_c,
                          "free/erase/counter updates outside the two branches: %d" % (len(stray) + len(stray_c)), fn.file, fn.line)

    # ---- increase_memory
    for fn in one("increase_memory")[:1]:
        set_counter_aliases(fn)
        p = fn.params[0]["n"] if fn.params else "address"
        itd = lookup_of(fn, p)
        fb = found_branch(fn, itd) if itd is not None else None
        cm = counter_mods(fn.body)
        if fb is None or (not cm and opaque_calls(fn.body, {p, "it"})):
            ck.incomplete("C20.pool-increase", "MemoryPool::increase_memory: lookup / counter update not recognised (%s)" % ("no `it = _pool.find(%s)` structure" % p if fb is None else "the work is done by %s" % opaque_calls(fn.body, {p, "it"})[0].get("callee")))
            continue
        ok = fb is not None and len(cm) == 1 and cm[0][0] == 1 and any(cm[0][1] is x for x in walk(fb))
        ck.ob("C20.pool-increase", "MemoryPool::increase_memory/increment", ok,
              "counter updates %s (expected exactly one +1, on the entry found by _pool.find(%s))" % ([c[0] for c in cm], p), fn.file, fn.line)
        ok2 = not frees(fn.body) and not erases(fn.body)
        ck.ob("C20.pool-increase", "MemoryPool::increase_memory/no-other-effect", ok2, "%d free, %d erase calls (expected none)" % (len(frees(fn.body)), len(erases(fn.body))), fn.file, fn.line)

    # ---- allocate_memory (one obligation pair per instantiation)
    may_return_null = False
    fields = memory_info_fields()
    for fn in one("allocate_memory"):
        set_counter_aliases(fn, entry_only=False)
        rets = [n for n in fn.nodes() if n.get("k") == "Return" and n.get("e") is not None]
        regs = pool_registrations(fn)
        tkey = "MemoryPool::allocate_memory"
        if fn.cfg is None or not regs:
            ck.incomplete("C20.pool-allocate", "%s: no statement that enters a (pointer, MemoryInfo) pair into _pool recognised "
                          "(insert / emplace / try_emplace / insert_or_assign / _pool[p] = info), or no CFG" % fn.full)
            continue
        if fields is None:
            ck.incomplete("C20.pool-allocate", "struct MemoryInfo { counter; size; } not found in kernel/util/memory_pool.hpp")
            continue
        def _is_null_lit(e_):
            e_ = L.unwrap(e_)
            while e_.get("k") in ("Construct", "TempObj") and len(e_.get("a", [])) == 1:
                e_ = L.unwrap(e_["a"][0])
            return e_.get("k") == "Null" or (e_.get("k") == "Int" and e_.get("v") == "0")
        null_rets = [r for r in rets if _is_null_lit(r["e"])]
        if null_rets:
            may_return_null = True          # `return nullptr;` spelled out
        rets = [r for r in rets if not _is_null_lit(r["e"])]
        retvars = {L.unwrap(r["e"]).get("d") for r in rets}
        rv = next(iter(retvars)) if len(retvars) == 1 else None
        if rv is None:
            ck.incomplete("C20.pool-allocate", "%s: the non-null returns do not all return one local pointer variable (%s)" % (fn.full, sorted(render(r["e"])[:30] for r in rets)))
            continue
        problems, bad_cnt, shown = [], [], []
        for node, key_e, info_e in regs:
            k0 = L.unwrap(key_e)
            if rv is None or k0.get("d") != rv:
                bad_cnt.append("the key %s registered at line %s is not the returned pointer" % (render(k0)[:40], node.get("l")))
                continue
            vals, why = registered_counter(fn, info_e, node, fields)
            if vals is None:
                problems.append(why)
                continue
            shown.extend(vals)
            if any(v == "?" for v in vals) and not any(v != 1 and v != "?" for v in vals):
                problems.append("the counter value of the entry registered at line %s is not a constant the check can evaluate (%s)" % (node.get("l"), vals))
                continue
            if any(v != 1 for v in vals):
                bad_cnt.append("the entry registered at line %s carries counter %s" % (node.get("l"), vals))
        if problems and not bad_cnt:
            ck.incomplete("C20.pool-allocate", "%s: %s" % (fn.full, problems[0]))
            continue
        ck.ob("C20.pool-allocate", tkey + "/counter-starts-at-1", not bad_cnt,
              "the pool entry registered for the returned pointer carries counter %s (expected 1, set before the registration)%s" % (
                  sorted(set(map(str, shown))), "" if not bad_cnt else ": " + "; ".join(bad_cnt)),
              fn.file, regs[0][0].get("l"))
        # every return either is preceded on all paths by a registration or returns the never-assigned null initial value
        assigns = [n for n in fn.nodes() if n.get("k") == "Assign" and L.unwrap(n["lhs"]).get("d") == rv]
        init = fn_local_init(fn, rv)
        reg_ids = {id(r[0]) for r in regs}
        bad = []
        for r in rets:
            wr = fn.cfg.block_of(r["i"])
            if wr is not None and fn.cfg.must_pass(lambda s_: id(s_) in reg_ids, target_blocks=[wr[0]])[0]:
                continue
            if init is not None and L.unwrap(init).get("k") == "Null" and not any(fn.cfg.stmt_dominates(a["i"], r["i"]) or reaches(fn, a, r) for a in assigns):
                may_return_null = True
                continue
            bad.append(r.get("l"))
        ck.ob("C20.pool-allocate", tkey + "/registered-before-return", not bad,
              "returns at lines %s hand out a pointer that was not registered in the pool" % bad if bad else "every non-null return is preceded on all paths by the registration in _pool", fn.file, fn.line)

    # ---- the chunk handed out covers the requested number of elements, in the arithmetic of the declared integer types
    for fn in one("allocate_memory"):
        res = alloc_bytes_table(fn)
        tkey = "MemoryPool::allocate_memory"
        if isinstance(res, str):
            ck.incomplete("C20.pool-allocate", "%s: size arithmetic not evaluable (%s)" % (fn.full, res))
            continue
        bad = [(n_, b_, sz) for n_, b_, sz in res if b_ < n_ * sz]
        ck.ob("C20.pool-allocate", tkey + "/bytes-cover-count", not bad,
              "for count = %s the allocated chunk has at least count * sizeof(T) bytes (padding and byte count evaluated with the widths of the declared types)" % [r[0] for r in res] if not bad else
              "for count = %d elements of %d bytes the allocation request is %d bytes (< %d): the padding / size arithmetic is not done in Index width "
              "(e.g. a 32-bit literal under ~ or in a mask is zero-extended and clears the upper bits) - the container keeps its size while the array is shorter" % (
                  bad[0][0], bad[0][2], bad[0][1], bad[0][0] * bad[0][2]), fn.file, fn.line)

    # ---- unknown addresses are refused
    for name in ("increase_memory", "release_memory", "allocated_size"):
        fs = [f for f in facts.functions if f.qn == "FEAT::MemoryPool::" + name]
        for fx in extra_facts:
            if not fs:
                fs = [f for f in fx.functions if f.qn == "FEAT::MemoryPool::" + name and f.body is not None]
        if not fs:
            if name != "allocated_size":
                ck.incomplete("C20.pool-unknown-address", "MemoryPool::%s not found in the parsed TU" % name)
            continue
        fn = fs[0]
        p = fn.params[0]["n"] if fn.params else "address"
        itd = lookup_of(fn, p)
        tests = lookup_tests(fn, itd) if itd is not None else []
        if itd is None or not tests or fn.cfg is None:
            ck.incomplete("C20.pool-unknown-address", "MemoryPool::%s: no `it = _pool.find(%s)` followed by a test against _pool.end() recognised" % (name, p))
            continue
        exits = set(fn.cfg.normal_exit_preds())
        bad, undecided = [], []
        for n, found_when in tests:
            blk = [b for b in fn.cfg.blocks.values() if b.get("cond") == n["c"].get("i")]
            if len(blk) != 1 or len(fn.cfg.succ.get(blk[0]["id"], [])) != 2:
                undecided.append(n.get("l"))
                continue
            succ = fn.cfg.succ[blk[0]["id"]]
            nf = succ[1] if found_when else succ[0]          # succ[0] is the true edge
            reach = fn.cfg.reachable(nf)
            # the entry found later on this path would be another lookup; a path back to the test itself (loop) is not expected
            if nf == fn.cfg.exit or reach & exits:
                bad.append(n.get("l"))
        if undecided and not bad:
            ck.incomplete("C20.pool-unknown-address", "MemoryPool::%s: the lookup test at line %s is part of a compound condition the check does not split" % (name, undecided[0]))
            continue
        ck.ob("C20.pool-unknown-address", "MemoryPool::%s/not-found-refuses" % name, not bad,
              "every path through the not-found side of the lookup test (line %s) ends in a noreturn call" % tests[0][0].get("l") if not bad else
              "the not-found side of the lookup test at line %s reaches a normal exit: %s(%s) of an address the pool does not know returns silently instead of aborting - "
              "adopting an interior pointer (ranged slice) or releasing twice goes unnoticed" % (bad[0], name, p), fn.file, tests[0][0].get("l"))

    # ---- nullptr agreement
    rel_fn = (one("release_memory") or [None])[0]
    inc_fn = (one("increase_memory") or [None])[0]
    if rel_fn is not None and inc_fn is not None:
        for fn, what in ((rel_fn, "release_memory"), (inc_fn, "increase_memory")):
            p = fn.params[0]["n"] if fn.params else "address"
            outcome = null_outcome(fn, p)
            if outcome in ("unknown", "effects") and may_return_null:
                ck.incomplete("C20.pool-null-consistency", "MemoryPool::%s: behaviour for a nullptr argument not derivable (%s)" % (what, outcome))
                continue
            tolerant = outcome == "noop"
            a = asserts_nonnull(fn, p)
            ok = tolerant or not may_return_null
            det = "allocate_memory returns nullptr for count == 0 (%s); %s(nullptr) %s" % (
                "yes" if may_return_null else "no", what,
                "is a no-op" if tolerant else ("fails XASSERT(%s != nullptr)" % p if a is not None else "falls through to the 'address not found' abort"))
            if not ok:
                det += ". Concrete input: SparseMatrixCSR<double,Index> a(3,5,0); a.clone(CloneMode::Shallow) (or a.layout(), or b.convert(a)) stores allocate_memory(0) == nullptr in _elements[0]/_indices[0] and then runs the increase_memory loop over it -> abort."
            ck.ob("C20.pool-null-consistency", "MemoryPool::%s/nullptr" % what, ok, det, fn.file, (a or {}).get("l", fn.line))

    # ---- finalize
    for fn in one("finalize")[:1]:
        ifs = [n for n in walk(fn.body) if n.get("k") == "If" and any(x.get("k") == "MCall" and x.get("n") in ("size", "empty") and render(x.get("obj")).endswith("_pool") for x in walk(n["c"]))]
        st = finalize_status_form(fn, ifs)
        if st is not None:
            # the leak test is handed to the caller instead of terminating here: every caller path must turn it into a failure
            ok_tt, what = st
            ck.ob("C20.pool-finalize", "MemoryPool::finalize/non-empty-pool-is-an-error", ok_tt,
                  "MemoryPool::finalize does not terminate the process itself but returns %s%s" % (
                      what, "" if ok_tt else ": the returned value does not distinguish an empty pool from a non-empty one"), fn.file, fn.line)
            if ok_tt:
                pools = [facts] + ([runtime_facts] if runtime_facts is not None else []) + list(extra_facts)
                for (caller, call, why) in unconsumed_status(pools, "FEAT::MemoryPool::finalize"):
                    ck.ob("C20.pool-finalize", "%s/leak-status-consumed" % L.short(caller.qn), False,
                          "%s (%s:%s) %s: a non-empty pool at shutdown (leaked arrays, reference counts that never reach zero) no longer makes the process fail on this path" % (
                              L.short(caller.qn), rel(caller.file), call.get("l"), why), caller.file, call.get("l"))
                ck.ob("C20.pool-finalize", "MemoryPool::finalize/leak-status-propagation", True, "call chains of the returned leak status examined", fn.file, fn.line)
        elif len(ifs) != 1:
            ck.incomplete("C20.pool-finalize", "MemoryPool::finalize: expected one test of _pool.size()/empty(), found %d" % len(ifs))
        else:
            n = ifs[0]

            def sub(x, v):
                if x.get("k") == "MCall" and render(x.get("obj")).endswith("_pool"):
                    if x.get("n") == "size":
                        return v
                    if x.get("n") == "empty":
                        return v == 0
                return None
            try:
                tt = [bool(ieval(n["c"], lambda x, v=v: sub(x, v))) for v in (0, 1, 2, 9)]
            except (NoEval, TypeError) as e:
                tt = None
                ck.incomplete("C20.pool-finalize", "finalize condition not evaluable: %s" % e)
            if tt is not None:
                br = n.get("then") if tt[1] else n.get("else")
                if br is None:
                    # `if(_pool.empty()) return;` followed by the error exit: the non-empty side is the rest of the block
                    other = n.get("else") if tt[1] else n.get("then")
                    leaves = other is not None and any(x.get("k") in ("Return", "Throw") or (is_call(x) and x.get("noreturn")) for x in walk(other))
                    if leaves:
                        for blk in [fn.body] + [x for x in walk(fn.body) if x.get("k") == "Block"]:
                            if blk.get("k") == "Block" and any(x is n for x in blk.get("s", [])):
                                i_ = [x is n for x in blk["s"]].index(True)
                                br = {"k": "Block", "s": blk["s"][i_ + 1:], "l": n.get("l")}
                                break
                    if br is None:
                        ck.incomplete("C20.pool-finalize", "MemoryPool::finalize: the side of `%s` taken for a non-empty pool is not recognisable" % render(n["c"]))
                        continue
                stops = [x for x in walk(br or {}) if (is_call(x) and (x.get("noreturn") or x.get("callee") in ("exit", "std::exit", "abort", "std::abort", "FEAT::abortion"))) or x.get("k") == "Throw"]
                others = [x for x in walk(br or {}) if is_call(x) and x.get("k") in ("Call", "MCall") and not str(x.get("callee", "")).startswith("std::")
                          and not (x.get("k") == "MCall" and render(x.get("obj")).endswith("_pool"))]
                if not stops and others and tt in ([False, True, True, True], [True, False, False, False]):
                    ck.incomplete("C20.pool-finalize", "MemoryPool::finalize: the non-empty branch calls %s, which is not known to terminate" % others[0].get("callee"))
                    continue
                ok = tt in ([False, True, True, True], [True, False, False, False]) and bool(stops)
                ck.ob("C20.pool-finalize", "MemoryPool::finalize/non-empty-pool-is-an-error", ok,
                      "condition %s is %s for pool sizes 0,1,2,9; the non-empty side has %d terminating calls (exit/abort)" % (render(n["c"]), tt, len(stops)), fn.file, n.get("l"))
    if runtime_facts is not None:
        rf = [f for f in runtime_facts.functions if f.qn == "FEAT::Runtime::finalize"]
        if not rf or rf[0].cfg is None:
            ck.incomplete("C20.pool-finalize", "Runtime::finalize not found in kernel/runtime.cpp")
        else:
            fn = rf[0]
            by_decl = {f.d.get("decl"): f for f in runtime_facts.functions if f.body is not None}
            memo = {}

            def reaches_pool_finalize(stmt, depth=0):
                """the statement calls MemoryPool::finalize, or a function of this TU every normal path of which does"""
                if not is_call(stmt):
                    return False
                if stmt.get("callee") == "FEAT::MemoryPool::finalize":
                    return True
                g = by_decl.get(stmt.get("cdecl"))
                if g is None or g.cfg is None or depth > 3:
                    return False
                if id(g) not in memo:
                    memo[id(g)] = False
                    memo[id(g)] = g.cfg.must_pass(lambda s_: reaches_pool_finalize(s_, depth + 1))[0]
                return memo[id(g)]
            ok, bad = fn.cfg.must_pass(reaches_pool_finalize)
            ck.ob("C20.pool-finalize", "Runtime::finalize/calls-MemoryPool::finalize", ok,
                  "every normal path through Runtime::finalize calls MemoryPool::finalize" if ok else
                  "a normal exit of Runtime::finalize is reachable without MemoryPool::finalize (blocks %s)" % bad, fn.file, fn.line)


def _int_type(t):
    """(bits, signed) of a C++ integer type string on the LP64 target, None for anything else"""
    t = re.sub(r"\bconst\b|\bvolatile\b", "", t or "").strip()
    t = {"FEAT::Index": "unsigned long", "Index": "unsigned long", "std::size_t": "unsigned long", "size_t": "unsigned long",
         "std::uint64_t": "unsigned long", "std::uint32_t": "unsigned int", "std::int64_t": "long", "std::int32_t": "int"}.get(t, t)
    if t in ("bool",):
        return 1, False
    m = re.match(r"^(unsigned |signed )?(char|short|int|long long|long)?( int)?$", t)
    if not m or not (m.group(1) or m.group(2)):
        return None
    bits = {"char": 8, "short": 16, "int": 32, "long": 64, "long long": 64, None: 32}[m.group(2)]
    return bits, not (m.group(1) or "").startswith("unsigned")


def _wrap(v, ty):
    if ty is None or isinstance(v, bool):
        return v
    bits, signed = ty
    if bits == 1:
        return 1 if v else 0
    v &= (1 << bits) - 1
    if signed and v >= 1 << (bits - 1):
        v -= 1 << bits
    return v


def alloc_bytes_table(fn):
    """[(count, bytes requested from malloc, sizeof(T))] for sample counts incl. values beyond 2^32, evaluating the statements
    of allocate_memory in order with every sub-expression wrapped to the width of its own declared type; or a string (why not)"""
    if not fn.params:
        return "no count parameter"
    cd = fn.params[0]["d"]
    samples = [1, 2, 3, 4, 5, 7, 8, 1023, (1 << 32) - 1, 1 << 32, (1 << 32) + 1, (1 << 33) + 5, (1 << 40) + 2]

    class Found(Exception):
        pass

    def run_one(n0):
        env = {cd: n0}
        sizeofs = []

        def ev(e):
            e0 = e
            e = L.unwrap(e)
            k = e.get("k")
            ty = _int_type(fn.ntype(e)) if e.get("t") is not None else None
            if k == "Int":
                return _wrap(int(e["v"]), ty)
            if k == "Bool":
                return 1 if e["v"] else 0
            if k == "SizeOf" and e.get("v") is not None:
                sizeofs.append(int(e["v"]))
                return int(e["v"])
            if k in ("Construct", "TempObj") and len(e.get("a", [])) == 1:
                return _wrap(ev(e["a"][0]), ty)
            if k == "Ref":
                if e.get("d") in env:
                    return env[e["d"]]
                if e.get("v") is not None:
                    return int(e["v"])
                raise NoEval(render(e))
            if k == "Un" and e.get("op") in ("~", "-", "!", "+"):
                v = ev(e["e"])
                return _wrap({"~": ~v, "-": -v, "!": int(not v), "+": v}[e["op"]], ty)
            if k == "Cond":
                return ev(e["then"]) if ev(e["c"]) else ev(e["else"])
            if k == "Bin":
                op = e["op"]
                if op == "&&":
                    return int(bool(ev(e["lhs"])) and bool(ev(e["rhs"])))
                if op == "||":
                    return int(bool(ev(e["lhs"])) or bool(ev(e["rhs"])))
                a, b = ev(e["lhs"]), ev(e["rhs"])
                # the operands are converted to the type of the operation: an unsigned result type reinterprets negative values
                if ty is not None and not ty[1]:
                    a, b = _wrap(a, ty), _wrap(b, ty)
                if op in ("/", "%") and b == 0:
                    raise NoEval("division by zero")
                tab = {"+": lambda: a + b, "-": lambda: a - b, "*": lambda: a * b, "/": lambda: abs(a) // abs(b) * (1 if (a < 0) == (b < 0) else -1),
                       "%": lambda: a - b * (abs(a) // abs(b) * (1 if (a < 0) == (b < 0) else -1)), "&": lambda: a & b, "|": lambda: a | b, "^": lambda: a ^ b,
                       "<<": lambda: a << b, ">>": lambda: a >> b, "==": lambda: int(a == b), "!=": lambda: int(a != b), "<": lambda: int(a < b),
                       "<=": lambda: int(a <= b), ">": lambda: int(a > b), ">=": lambda: int(a >= b)}
                if op not in tab:
                    raise NoEval(op)
                if op in ("==", "!=", "<", "<=", ">", ">="):
                    # comparison in the common type of the operands
                    lt, rt = _int_type(fn.ntype(L.unwrap(e["lhs"]))), _int_type(fn.ntype(L.unwrap(e["rhs"])))
                    ct = max([x for x in (lt, rt) if x], key=lambda x: (x[0], not x[1]), default=None)
                    if ct is not None and not ct[1]:
                        a, b = _wrap(a, ct), _wrap(b, ct)
                return _wrap(tab[op](), ty)
            raise NoEval(render(e)[:40])

        def scan_alloc(expr):
            for x in walk(expr):
                if x.get("k") == "Call" and re.search(r"(^|::)(malloc|cuda_malloc_managed|aligned_alloc|calloc)$", str(x.get("callee", ""))) and x.get("a"):
                    raise Found(ev(x["a"][-1]) if not str(x.get("callee", "")).endswith("calloc") else ev(x["a"][0]) * ev(x["a"][1]))

        def run(n):
            if n is None:
                return True
            k = n.get("k")
            if k == "Block":
                for s_ in n.get("s", []):
                    if not run(s_):
                        return False
                return True
            if k == "Decl":
                for v in n.get("vars", []):
                    if v.get("init") is not None:
                        scan_alloc(v["init"])
                        ty = _int_type(fn.type(v.get("t")))
                        if ty is not None:
                            env[v["d"]] = _wrap(ev(v["init"]), ty)
                return True
            if k == "If":
                return run(n["then"]) if ev(n["c"]) else (run(n["else"]) if n.get("else") is not None else True)
            if k == "Return":
                return False
            if k == "Assign":
                scan_alloc(n["rhs"])
                lhs = L.unwrap(n["lhs"])
                if lhs.get("k") == "Ref" and (lhs.get("d") in env or _int_type(fn.ntype(lhs)) is not None):
                    ty = _int_type(fn.ntype(lhs))
                    if ty is None:
                        return True
                    v = ev(n["rhs"])
                    op = n.get("op")
                    if op != "=":
                        cur = env[lhs["d"]]
                        v = {"+=": cur + v, "-=": cur - v, "*=": cur * v, "&=": cur & v, "|=": cur | v, "<<=": cur << v, ">>=": cur >> v}.get(op)
                        if v is None:
                            raise NoEval(op)
                    env[lhs["d"]] = _wrap(v, ty)
                return True
            if k == "Un" and n.get("op") in ("++", "--") and L.unwrap(n["e"]).get("d") in env:
                d = L.unwrap(n["e"])["d"]
                env[d] = _wrap(env[d] + (1 if n["op"] == "++" else -1), _int_type(fn.ntype(L.unwrap(n["e"]))))
                return True
            if is_call(n):
                scan_alloc(n)
                return not n.get("noreturn")
            if k in ("For", "While", "Do", "Switch"):
                raise NoEval("loop / switch in the size arithmetic")
            return True
        try:
            run(fn.body)
        except Found as f:
            return f.args[0], (sizeofs[-1] if sizeofs else None)
        return None, None

    out = []
    try:
        for n0 in samples:
            b, sz = run_one(n0)
            if b is None:
                return "no malloc-like call reached for count = %d" % n0
            if sz is None:
                return "no sizeof in the byte count"
            out.append((n0, b, sz))
    except (NoEval, KeyError, TypeError) as e:
        return str(e)
    return out


def finalize_status_form(fn, ifs):
    """MemoryPool::finalize that reports the leak test through its return value instead of terminating:
    -> (the returned value distinguishes empty / non-empty, description) or None if it is not of that form"""
    rets = [n for n in walk(fn.body) if n.get("k") == "Return" and n.get("e") is not None]
    if not rets:
        return None
    stops = [x for x in walk(fn.body) if (is_call(x) and (x.get("noreturn") or x.get("callee") in ("exit", "std::exit", "abort", "std::abort", "FEAT::abortion"))) or x.get("k") == "Throw"]
    if stops:
        return None

    def sub(x, v):
        if x.get("k") == "MCall" and render(x.get("obj")).endswith("_pool"):
            if x.get("n") == "size":
                return v
            if x.get("n") == "empty":
                return v == 0
        return None

    def value(v):
        """returned value for a pool of v chunks (straight-line / if tree evaluation)"""
        def run(n):
            k = n.get("k")
            if k == "Block":
                for s_ in n.get("s", []):
                    r = run(s_)
                    if r is not None:
                        return r
                return None
            if k == "If":
                c = ieval(n["c"], lambda x: sub(x, v))
                br = n.get("then") if c else n.get("else")
                return run(br) if br is not None else None
            if k == "Return":
                return ("v", ieval(n["e"], lambda x: sub(x, v)))
            return None
        return run(fn.body)
    try:
        vals = [value(v) for v in (0, 1, 2, 9)]
    except (NoEval, TypeError, KeyError):
        return None
    if any(x is None for x in vals):
        return None
    vals = [x[1] for x in vals]
    distinguishes = all(vals[0] != x for x in vals[1:])
    return distinguishes, "%s for pool sizes 0,1,2,9" % vals


def unconsumed_status(facts_list, callee_qn, depth=0, seen=None):
    """call sites of callee_qn (in the analysed TUs) whose returned status is dropped: [(caller, call node, why)].
    A status is consumed if it decides a branch with a terminating call (exit / abort / noreturn) or reaches the caller's own
    return value - in which case the callers of that caller are examined in turn."""
    seen = seen if seen is not None else set()
    if callee_qn in seen or depth > 3:
        return []
    seen.add(callee_qn)
    out = []
    done = set()
    for facts in facts_list:
        for g in facts.functions:
            if g.body is None or (g.qn, g.file, g.line) in done:
                continue
            calls = [c for c in g.nodes() if is_call(c) and c.get("callee") == callee_qn]
            if not calls:
                continue
            done.add((g.qn, g.file, g.line))
            par = L.parent_map(g)
            for c in calls:
                verdict = _status_use(g, par, c, 0)
                if verdict == "dropped":
                    out.append((g, c, "discards the status returned by %s" % L.short(callee_qn)))
                elif verdict == "tested-only":
                    out.append((g, c, "tests the status returned by %s but neither terminates nor returns it" % L.short(callee_qn)))
                elif verdict == "returned":
                    out.extend(unconsumed_status(facts_list, g.qn, depth + 1, seen))
    return out


def _terminates(n):
    return any((is_call(x) and (x.get("noreturn") or x.get("callee") in ("exit", "std::exit", "abort", "std::abort", "FEAT::abortion", "_exit", "std::quick_exit", "std::terminate"))) or x.get("k") == "Throw"
               for x in walk(n or {}))


def _status_use(g, par, node, depth):
    """'terminates' | 'returned' | 'tested-only' | 'dropped' for the value of an expression node inside g"""
    p = par.get(id(node))
    cur = node
    while p is not None and p.get("k") in ("Un", "Bin", "Cond", "Construct", "TempObj") or (p is not None and p.get("k") == "Cast" and "void" not in str(p.get("to", ""))):
        cur, p = p, par.get(id(p))
    if p is None:
        return "dropped"
    k = p.get("k")
    if k == "Cast":
        return "dropped"          # (void) f();
    if k == "Return":
        return "returned"
    if k == "If" and p.get("c") is cur:
        return "terminates" if (_terminates(p.get("then")) or _terminates(p.get("else"))) else (
            "returned" if any(x.get("k") == "Return" and x.get("e") is not None for x in walk(p)) and _returns_differ(p) else "tested-only")
    if k in ("While", "Do", "For") and p.get("c") is cur:
        return "tested-only"
    if k == "Var" and depth < 3:
        uses = [x for x in g.nodes() if x.get("k") == "Ref" and x.get("d") == p.get("d")]
        res = [_status_use(g, par, u, depth + 1) for u in uses]
        for want in ("terminates", "returned", "tested-only"):
            if want in res:
                return want
        return "dropped"
    if k == "Assign" and p.get("rhs") is cur and L.unwrap(p["lhs"]).get("k") == "Ref" and depth < 3:
        d = L.unwrap(p["lhs"]).get("d")
        uses = [x for x in g.nodes() if x.get("k") == "Ref" and x.get("d") == d and x is not L.unwrap(p["lhs"])]
        res = [_status_use(g, par, u, depth + 1) for u in uses]
        for want in ("terminates", "returned", "tested-only"):
            if want in res:
                return want
        return "dropped"
    if is_call(p) and cur in (p.get("a") or []):
        return "tested-only" if p.get("k") == "OpCall" else "dropped"
    return "dropped"


def _returns_differ(ifnode):
    vals = {render(x["e"]) for x in walk(ifnode) if x.get("k") == "Return" and x.get("e") is not None}
    return len(vals) >= 1


def is_pool(e):
    e = L.unwrap(e) if e is not None else None
    return e is not None and (str(e.get("qn", "")).endswith("MemoryPool::_pool") or render(e).endswith("_pool"))


def memory_info_fields():
    """field names of struct MemoryInfo in declaration order (for aggregate initialisation `MemoryInfo{1, bytes}`)"""
    try:
        txt = open(featlib.repo_path("kernel/util/memory_pool.hpp")).read()
    except OSError:
        return None
    m = re.search(r"struct\s+MemoryInfo\s*\{(.*?)\}", txt, re.S)
    if not m:
        return None
    body = re.sub(r"//[^\n]*|/\*.*?\*/", "", m.group(1), flags=re.S)
    out = []
    for decl in body.split(";"):
        decl = decl.strip()
        if not decl or "(" in decl:
            continue
        mm = re.match(r"^[\w:<>\s\*&]+?\b(\w+)\s*(?:=[^;]*|\{[^;]*\})?$", decl)
        if not mm:
            return None
        out.append(mm.group(1))
    return out if "counter" in out else None


def _pair_parts(fn, x, depth=0):
    """(key, info) if x builds a std::pair / value_type of the pool map"""
    x = L.unwrap(x)
    k = x.get("k")
    if k in ("Construct", "TempObj") and len(x.get("a", [])) == 2 and "pair" in str(x.get("ccls", "")):
        return x["a"][0], x["a"][1]
    if k in ("Construct", "TempObj") and len(x.get("a", [])) == 1 and "pair" in str(x.get("ccls", "")) and depth < 3:
        return _pair_parts(fn, x["a"][0], depth + 1)          # copy / converting construction of a pair
    if k == "Call" and str(x.get("callee", "")) in ("std::make_pair", "std::pair") and len(x.get("a", [])) == 2:
        return x["a"][0], x["a"][1]
    if k == "InitList" and len(x.get("a", [])) == 2:
        return x["a"][0], x["a"][1]
    if k == "Ref" and x.get("dk") == "local" and depth < 3:
        init = fn_local_init(fn, x.get("d"))
        if init is not None and not any(a.get("k") == "Assign" and L.unwrap(a["lhs"]).get("d") == x["d"] for a in fn.nodes()):
            return _pair_parts(fn, init, depth + 1)
    return None


def pool_registrations(fn):
    """[(statement, key expr, info expr)]: every statement that enters a (pointer, MemoryInfo) pair into MemoryPool::_pool -
    insert(pair) / insert(hint, pair) / emplace(k, v) / try_emplace(k, v) / insert_or_assign(k, v) / emplace_hint(h, k, v) /
    _pool[k] = v.  (std::map::insert/emplace/try_emplace leave an existing entry alone; for a pointer fresh from malloc there is none.)"""
    out = []
    for n in fn.nodes():
        k = n.get("k")
        if k == "MCall" and is_pool(n.get("obj")):
            m, a = n.get("n"), n.get("a") or []
            if m == "insert" and len(a) in (1, 2):
                pp = _pair_parts(fn, a[-1])
                if pp:
                    out.append((n, pp[0], pp[1]))
            elif m in ("emplace", "try_emplace", "insert_or_assign") and len(a) == 2:
                out.append((n, a[0], a[1]))
            elif m in ("emplace_hint",) and len(a) == 3:
                out.append((n, a[1], a[2]))
            elif m in ("emplace", "emplace_hint") and len(a) in (1, 2):
                pp = _pair_parts(fn, a[-1])
                if pp:
                    out.append((n, pp[0], pp[1]))
        elif (k == "OpCall" and n.get("op") == "=" and len(n.get("a") or []) == 2) or (k == "Assign" and n.get("op") == "="):
            lhs, rhs = (n["a"][0], n["a"][1]) if k == "OpCall" else (n["lhs"], n["rhs"])
            l0 = L.unwrap(lhs)
            if l0.get("k") == "OpCall" and l0.get("op") == "[]" and len(l0.get("a") or []) == 2 and is_pool(l0["a"][0]):
                out.append((n, l0["a"][1], rhs))
            elif l0.get("k") == "MCall" and l0.get("n") in ("operator[]", "at") and is_pool(l0.get("obj")) and l0.get("a"):
                out.append((n, l0["a"][0], rhs))
    return out


def _const_or_why(e):
    """value of a constant integer expression; 'nonconst:<text>' if it reads a parameter / variable (definitely not the
    constant 1 for every call); '?' if the check cannot evaluate it"""
    def sub(y):
        if y.get("k") == "Ref" and y.get("v") is not None and y.get("dk") in ("enum", "tparam", "smember", "global"):
            try:
                return int(y["v"])
            except ValueError:
                return None
        if y.get("k") == "SizeOf" and y.get("v") is not None:
            return int(y["v"])
        return None
    try:
        return ieval(e, sub)
    except (NoEval, TypeError, KeyError):
        if any(y.get("k") == "Ref" and y.get("dk") in ("param", "local") for y in walk(e)):
            return "nonconst:" + render(e)[:40]
        return "?"


def _agg_counter(e, fields):
    """counter value of an aggregate initialiser `MemoryInfo{c, s}` / `{c, s}`; None if e is not one"""
    e = L.unwrap(e)
    while e.get("k") in ("Construct", "TempObj") and len(e.get("a", [])) == 1 and "MemoryInfo" in str(e.get("ccls", "")):
        e = L.unwrap(e["a"][0])
    if e.get("k") == "InitList" or (e.get("k") in ("Construct", "TempObj") and "MemoryInfo" in str(e.get("ccls", "")) and len(e.get("a", [])) == len(fields)):
        a = e.get("a") or []
        i = fields.index("counter")
        if e.get("k") == "InitList" and len(a) == 0:
            return 0          # value-initialised
        if i < len(a):
            return _const_or_why(a[i])
        return 0
    return None


def registered_counter(fn, info_e, reg, fields):
    """-> (list of counter values the registered MemoryInfo may carry, None) or (None, why not derivable)"""
    e = L.unwrap(info_e)
    v = _agg_counter(e, fields)
    if v is not None:
        return [v], None
    if e.get("k") != "Ref" or e.get("dk") != "local":
        return None, "the MemoryInfo registered at line %s (%s) is neither a local nor an aggregate initialiser" % (reg.get("l"), render(e)[:60])
    d = e["d"]
    writes = []          # (value, node) of everything that sets <local>.counter
    init = fn_local_init(fn, d)
    iv = _agg_counter(init, fields) if init is not None else None
    for x in fn.nodes():
        if x.get("k") == "Assign" and is_counter(L.unwrap(x["lhs"])) and L.unwrap(L.unwrap(x["lhs"]).get("b") or {}).get("d") == d:
            dv = counter_delta_init(x) if x.get("op") == "=" else "?"
            writes.append((dv if dv is not None else "?", x))
        elif x.get("k") == "Un" and x.get("op") in ("++", "--") and is_counter(L.unwrap(x["e"])) and L.unwrap(L.unwrap(x["e"]).get("b") or {}).get("d") == d:
            writes.append(("?", x))
        elif (x.get("k") == "OpCall" and x.get("op") == "=" and len(x.get("a") or []) == 2 and L.unwrap(x["a"][0]).get("d") == d) or \
                (x.get("k") == "Assign" and x.get("op") == "=" and L.unwrap(x["lhs"]).get("k") == "Ref" and L.unwrap(x["lhs"]).get("d") == d):
            rhs = x["a"][1] if x.get("k") == "OpCall" else x["rhs"]
            av = _agg_counter(rhs, fields)
            writes.append((av if av is not None else "?", x))
        elif is_call(x) and x.get("k") in ("Call", "MCall") and any(L.unwrap(a).get("k") == "Ref" and L.unwrap(a).get("d") == d for a in (x.get("a") or [])) and x is not reg \
                and not any(x is r[0] for r in pool_registrations(fn)):
            pts = x.get("pt") or []
            for i, a in enumerate(x.get("a") or []):
                if L.unwrap(a).get("d") == d:
                    t = fn.type(pts[i]) if i < len(pts) else ""
                    if t.rstrip().endswith("&") and not t.startswith("const "):
                        return None, "the MemoryInfo local is handed to %s by mutable reference (line %s)" % (x.get("callee"), x.get("l"))
    before = [(v, x) for v, x in writes if fn.cfg.stmt_dominates(x["i"], reg["i"])]
    maybe = [(v, x) for v, x in writes if not fn.cfg.stmt_dominates(x["i"], reg["i"]) and reaches_node(fn, x, reg)]
    if not before and iv is None:
        if not writes:
            return None, "no `info.counter = <n>` assignment or aggregate initialiser found for the MemoryInfo registered at line %s" % reg.get("l")
        return [v for v, _ in maybe] + ["uninitialised on some path"], None
    # the value at the registration: the last dominating write, unless a non-dominating write may intervene
    vals = []
    if before:
        last = max(before, key=lambda vx: vx[1]["i"])
        vals.append(last[0])
        vals.extend(v for v, x in maybe if x["i"] > last[1]["i"])
    else:
        vals.append(iv)
        vals.extend(v for v, _ in maybe)
    return vals, None


def reaches_node(fn, a, b):
    wa, wb = fn.cfg.block_of(a["i"]), fn.cfg.block_of(b["i"])
    if wa is None or wb is None:
        return True
    if wa[0] == wb[0]:
        return wa[1] < wb[1]
    return wb[0] in fn.cfg.reachable(wa[0])


def counter_delta_init(x):
    """`mi.counter = <int>` on a local MemoryInfo -> value"""
    if x.get("k") == "Assign" and x.get("op") == "=" and is_counter(L.unwrap(x["lhs"])) and L.unwrap(x["lhs"].get("b") or {}).get("k") == "Ref":
        return _const_or_why(x["rhs"])
    return None


def fn_local_init(fn, d):
    for n in fn.nodes():
        if n.get("k") == "Var" and n.get("d") == d:
            return n.get("init")
    return None


def reaches(fn, a, r):
    """assignment a may execute before return r"""
    wa, wr = fn.cfg.block_of(a["i"]), fn.cfg.block_of(r["i"])
    if wa is None or wr is None:
        return True
    if wa[0] == wr[0]:
        return wa[1] < wr[1]
    return wr[0] in fn.cfg.reachable(wa[0])


# -------------------------------------------------------------------------------------------------
# containers
# -------------------------------------------------------------------------------------------------

def container_rules(ck, fam, prefix="C20."):
    summaries = {}
    nfun = 0
    seen_fail = set()
    for fn in fam.functions():
        if L.is_inlined_helper(fam, fn):
            continue
        cases = L.interpret_cases(fam, fn, summaries)
        shares = any(st.get(("flag", "this")) == "F" and any(isinstance(st.get(("this", kd)), L.VS) and "counted" in st[("this", kd)].origin for kd in ("elements", "indices"))
                     for _, it in cases for st, _l in it.exits) and any(len(it.exits) > 1 for _, it in cases)
        if not any(it.touched or it.unknown for _, it in cases) and not shares:
            continue
        nfun += 1
        key = L.fkey(fn)
        merged = {}
        for label, it in cases:
            all_obs = it.obligations + L.exit_obligations(it)        # exit obligations may add to it.unknown (tainted verdicts)
            for u in it.unknown:
                ck.incomplete(prefix + "exit-state", "%s (%s): %s" % (key, fn.loc, u))
            for (r, sub, ok, det, line) in all_obs:
                k = (r, sub, line)
                if label and not ok:
                    det = "[%s] %s" % (label, det)
                if k not in merged or (merged[k][0] and not ok):
                    merged[k] = (ok, det)
        # ownership postcondition: if some exit shares arrays of a parameter (counted, flag false), every exit must own
        for label, it in cases:
            if it.unknown or len(it.exits) < 1 or fn.d.get("ctor") or fn.d.get("dtor"):
                continue
            sharing = [(st, line) for st, line in it.exits if st.get(("flag", "this")) == "F" and any(
                isinstance(st.get(("this", kd)), L.VS) and st[("this", kd)].own == "OWN" and "counted" in st[("this", kd)].origin
                and any(o_.startswith("copy:") for o_ in st[("this", kd)].origin) for kd in ("elements", "indices"))]
            if not sharing:
                continue
            others = [(st, line) for st, line in it.exits if st.get(("flag", "this")) != "F"]
            okp = not others
            detp = "all %d normal exits leave *this owning its arrays (_foreign_memory == false)" % len(it.exits) if okp else (
                "%sthe exit at line %s shares the arrays of a parameter and takes references, but the exit at line %s returns with _foreign_memory %s and the arrays *this had on entry: "
                "if *this was a ranged view (same pointer and size as its owner, no reference held) it still is one - the early return must be conditioned on !_foreign_memory" % (
                    "[%s] " % label if label else "", sharing[0][1], others[0][1], "unchanged (possibly true)" if isinstance(others[0][0].get(("flag", "this")), tuple) else others[0][0].get(("flag", "this"))))
            kp = ("share-postcondition", "this", sharing[0][1])
            if kp not in merged or (merged[kp][0] and not okp):
                merged[kp] = (okp, detp)
        for (r, sub, line), (ok, det) in merged.items():
            if not ok:
                # the same source-level instance seen through several template instantiations: report once
                if (r, key, sub) in seen_fail:
                    continue
                seen_fail.add((r, key, sub))
            ck.ob(prefix + r, "%s/%s" % (key, sub), ok, det, fn.file, line, trivial=det.startswith("undecided"),
                  sample={"function": fn.full, "instance": sub, "detail": det} if r in ("exit-state", "release-guard", "increase-once", "size-vector-length") else None)
        obs, unknown = L.pair_pushes(fam, fn)
        for u in unknown:
            ck.incomplete(prefix + "size-pairing", "%s (%s): %s" % (key, fn.loc, u))
        for (sub, ok, det, line, trivial) in obs:
            ck.ob(prefix + "size-pairing", "%s/%s" % (key, sub), ok, det, fn.file, line, trivial=trivial,
                  sample={"function": fn.full, "pair": det})
    return nfun


def alias_stale_rules(ck, fam, seen_fail):
    memo = {}

    def may_release(g, depth=0):
        """does the member (or a member of this it calls) release / replace the arrays of its object?"""
        if g is None or g.body is None:
            return True
        if id(g) in memo:
            return memo[id(g)]
        memo[id(g)] = False
        res = False
        for x in g.nodes():
            if is_call(x) and str(x.get("callee", "")) == L.POOL + "release_memory":
                res = True
            elif x.get("k") == "MCall" and x.get("obj") is not None and L.vec_member(x["obj"]) and L.obj_id(L.vec_member(x["obj"])[1]) == "this" \
                    and x.get("n") in ("clear", "assign", "swap", "erase", "pop_back", "resize"):
                res = True
            elif x.get("k") == "OpCall" and x.get("op") == "=" and x.get("a") and L.vec_member(x["a"][0]) and L.obj_id(L.vec_member(x["a"][0])[1]) == "this":
                res = True
            elif x.get("k") == "MCall" and L.short(x.get("ccls", "")) in fam.classes and not x.get("cconst") and not x.get("cstatic") \
                    and (x.get("obj") is None or L.obj_id(x.get("obj")) == "this") and depth < 3:
                if may_release(fam.callee_fn(g, x), depth + 1):
                    res = True
            if res:
                break
        memo[id(g)] = res
        return res

    for fn in fam.functions():
        if fn.body is None or fn.cfg is None or fn.d.get("ctor") or fn.d.get("dtor") or fn.d.get("static"):
            continue
        mine = re.sub(r"\s+", " ", fn.cls).strip()
        xs = []
        for p_ in fn.params:
            t = re.sub(r"\s+", " ", fn.type(p_["t"])).strip()
            if t.startswith("const ") and t.endswith("&") and t[6:-1].strip() in (mine, mine.replace("FEAT::LAFEM::", "")):
                xs.append(p_)
        if not xs:
            continue
        L.Interp(fam, fn)          # installs the alias table for obj_id
        # invalidations of *this
        invs = []
        for n in fn.nodes():
            if n.get("k") == "MCall" and L.short(n.get("ccls", "")) in fam.classes and not n.get("cconst") and not n.get("cstatic") \
                    and (n.get("obj") is None or L.obj_id(n.get("obj")) == "this"):
                if may_release(fam.callee_fn(fn, n)):
                    invs.append((n, "%s()" % n.get("n")))
            elif is_call(n) and str(n.get("callee", "")) == L.POOL + "release_memory" and any(L.vec_member(y) and L.obj_id(L.vec_member(y)[1]) == "this" for y in walk(n)):
                invs.append((n, "release_memory(...)"))
        if not invs:
            continue
        for px in xs:
            xd = px["d"]
            guarded = any(n.get("k") == "Bin" and n.get("op") in ("==", "!=") and {L.unwrap(n["lhs"]).get("k"), L.unwrap(n["rhs"]).get("k")} == {"This", "Un"}
                          and any(y.get("k") == "Ref" and y.get("d") == xd for y in walk(n)) for n in fn.nodes())
            key = "%s/%s-aliases-this" % (L.fkey(fn), px["n"])
            if guarded:
                ck.ob("C20.alias-stale-pointer", key, True, "the function tests `this == &%s` itself" % px["n"], fn.file, fn.line, trivial=True)
                continue

            def is_x_array(e):
                e = L.unwrap(e)
                return e.get("k") == "MCall" and e.get("obj") is not None and L.unwrap(e["obj"]).get("k") == "Ref" and L.unwrap(e["obj"]).get("d") == xd \
                    and "*" in (fn.ntype(e) or "")
            # pointers derived from x's arrays
            ptrs = set()
            changed = True
            while changed:
                changed = False
                for n in fn.nodes():
                    tgt = src = None
                    if n.get("k") == "Var" and n.get("init") is not None and "*" in (fn.type(n.get("t")) or ""):
                        tgt, src = n["d"], n["init"]
                    elif n.get("k") == "Assign" and L.unwrap(n["lhs"]).get("k") == "Ref" and "*" in (fn.ntype(L.unwrap(n["lhs"])) or ""):
                        tgt, src = L.unwrap(n["lhs"])["d"], n["rhs"]
                    if tgt is not None and tgt not in ptrs and any(is_x_array(y) or (y.get("k") == "Ref" and y.get("d") in ptrs) for y in walk(src)):
                        ptrs.add(tgt)
                        changed = True
            reads = []
            for n in fn.nodes():
                if n.get("k") == "Index" or (n.get("k") == "Un" and n.get("op") == "*"):
                    b = L.unwrap(n["b"] if n.get("k") == "Index" else n["e"])
                    if (b.get("k") == "Ref" and b.get("d") in ptrs) or is_x_array(b) or any(y.get("k") == "Ref" and y.get("d") in ptrs for y in walk(b)):
                        reads.append((n, render(n)[:40]))
                elif is_call(n) and n.get("k") in ("Call", "MCall") and not (n.get("k") == "MCall" and is_x_array(n)):
                    for a_ in n.get("a") or []:
                        a0 = L.unwrap(a_)
                        if (a0.get("k") == "Ref" and a0.get("d") in ptrs) or is_x_array(a0):
                            reads.append((n, "%s(... %s ...)" % (L.short(str(n.get("callee", ""))), render(a0)[:30])))
            hazards = []
            for wn, wt in invs:
                ww = fn.cfg.block_of(wn.get("i"))
                if ww is None:
                    continue
                for rn, rt in reads:
                    rw = fn.cfg.block_of(rn.get("i"))
                    if rw is None:
                        # an expression inside a statement: take the enclosing statement known to the CFG
                        par = L.parent_map(fn)
                        q = par.get(id(rn))
                        while q is not None and fn.cfg.block_of(q.get("i")) is None:
                            q = par.get(id(q))
                        rw = fn.cfg.block_of(q.get("i")) if q is not None else None
                        if rw is None:
                            continue
                    if ww[0] == rw[0]:
                        after = rw[1] > ww[1] or ww[0] in {b_ for s_ in fn.cfg.succ.get(ww[0], []) for b_ in fn.cfg.reachable(s_)}
                    else:
                        after = rw[0] in fn.cfg.reachable(ww[0])
                    if after:
                        hazards.append((wt, wn.get("l"), rt, rn.get("l")))
            ok = not hazards
            det = ("no `this == &%s` guard; %d release/replace operations on *this, %d reads through %s's arrays: " % (px["n"], len(invs), len(reads), px["n"])) + (
                "every read precedes them on all paths" if ok else
                "%s (line %s) can execute after %s (line %s): with &%s == this it reads arrays that were just released" % (hazards[0][2], hazards[0][3], hazards[0][0], hazards[0][1], px["n"]))
            if not ok:
                if ("stale", key) in seen_fail:
                    continue
                seen_fail.add(("stale", key))
            ck.ob("C20.alias-stale-pointer", key, ok, det, fn.file, fn.line, trivial=not reads, sample={"function": fn.full, "detail": det})


def slot_extent_rules(ck, fam, seen_fail):
    """C20.extent-agreement, second part: all functions of one class that build the pointer vectors from scratch (constructors,
    convert / read_from / operator= after a clear) allocate array K of _elements/_indices with the same extent, as a polynomial in
    the class's own scalar slots (accessors of this inlined: _rows() + 1 -> slot1 + 1).  Every reader of the class (apply kernels,
    clone, serialize, operator()) sizes its accesses to array K from those slots, so a writer that deviates (row-pointer array
    with columns + 1 entries) produces an array the readers overrun."""
    groups = {}
    for fn in fam.functions():
        if fn.body is None:
            continue
        pushes = [n for n in fn.nodes() if n.get("k") == "MCall" and n.get("n") in L.PUSH and len(n.get("a") or []) == 1 and L.vec_member(n.get("obj"))
                  and L.obj_id(L.vec_member(n["obj"])[1]) == "this"]
        if not pushes:
            continue
        top = fn.body.get("s", []) if fn.body.get("k") == "Block" else [fn.body]
        top_ids = {id(x) for x in top}
        # the vectors must be empty when the first push happens: constructor, or a clear() of this / of the vector first
        starts_empty = bool(fn.d.get("ctor"))
        first = min(p_.get("i", 0) for p_ in pushes)
        for x in fn.nodes():
            if x.get("k") == "MCall" and x.get("n") == "clear" and x.get("i", 0) < first and id(x) in top_ids:
                if (L.short(x.get("ccls", "")) in fam.classes and (x.get("obj") is None or L.obj_id(x.get("obj")) == "this")):
                    starts_empty = True
        if not starts_empty:
            continue
        it = L.Interp(fam, fn)
        it.inline_accessors = True
        cnt = {}
        for pn in sorted(pushes, key=lambda n: n.get("i", 0)):
            kind = L.vec_member(pn["obj"])[0]
            j = cnt.get(kind, 0)
            cnt[kind] = j + 1
            if id(pn) not in top_ids:
                cnt[kind] = 10 ** 6          # pushes under conditions / in loops: positions after them are unknown
                continue
            if j >= 10 ** 6:
                continue
            org, e = it.classify_ptr(pn["a"][0])
            if org != "alloc" or not e.get("a"):
                continue
            pl = L.poly(it, e["a"][0])
            L._ALIAS.clear()
            L._ALIAS.update(it.aliases)
            if not all(re.match(r"^slot\d+$", a) for m in pl for a in m):
                continue          # extent in terms of parameters / other objects: not comparable across functions
            groups.setdefault((fn.cls, kind, j), {}).setdefault(L.fkey(fn), (fn, pn, pl))          # per instantiation (block sizes are constants of the extents)
    for (cls, kind, j), members in sorted(groups.items()):
        if len(members) < 2:
            continue
        forms = {}
        for fk, (fn, pn, pl) in members.items():
            forms.setdefault(L.pshow(pl), []).append(fk)
        major = max(forms.items(), key=lambda kv: len(kv[1]))
        for fk, (fn, pn, pl) in sorted(members.items()):
            key = "%s/this._%s[%d]/slots" % (fk, kind, j)
            if L.pshow(pl) == major[0]:
                ck.ob("C20.extent-agreement", key, True, "array %d of _%s allocated with %s entries, as in %d of the %d functions of %s that build it" % (
                    j, kind, L.pshow(pl), len(major[1]), len(members), L.short(cls)), fn.file, pn.get("l"))
                continue
            mp = members[major[1][0]][2]
            v = L.poly_verdict(pl, mp)
            det = "array %d of _%s allocated with %s entries; %d of the %d functions of %s that build this array (e.g. %s) allocate %s" % (
                j, kind, L.pshow(pl), len(major[1]), len(members), L.short(cls), major[1][0], major[0])
            if v != "ne" or len(major[1]) * 2 <= len(members):
                ck.ob("C20.extent-agreement", key, True, "undecided: " + det, fn.file, pn.get("l"), trivial=True)
                continue
            det += ": every reader of the class (kernels, clone, serialize, element access) sizes its accesses to this array from the scalar slots the majority uses - the deviating array is overrun / read past its end whenever the two quantities differ"
            if ("se", key) in seen_fail:
                continue
            seen_fail.add(("se", key))
            ck.ob("C20.extent-agreement", key, False, det, fn.file, pn.get("l"), sample={"function": fn.full, "detail": det})


def range_bound_rules(ck, fam, seen_fail):
    import itertools
    from fractions import Fraction

    for fn in fam.functions():
        if fn.body is None or fn.cfg is None:
            continue
        pushes = [n for n in fn.nodes() if n.get("k") == "MCall" and n.get("n") in L.PUSH and len(n.get("a") or []) == 1 and L.vec_member(n.get("obj"))
                  and L.obj_id(L.vec_member(n["obj"])[1]) == "this"]
        if not pushes:
            continue
        it = None
        for pn in pushes:
            if it is None:
                it = L.Interp(fam, fn)
                it.inline_accessors = True

            def resolve_ptr(e, depth=0):
                e = L.unwrap(e)
                while e is not None and e.get("k") in ("Construct", "TempObj") and len(e.get("a", [])) == 1:
                    e = L.unwrap(e["a"][0])
                if e is not None and e.get("k") == "Ref" and e.get("dk") == "local" and depth < 4:
                    defs = it.ptr_defs().get(e["d"], [])
                    if len(defs) == 1:
                        return resolve_ptr(defs[0], depth + 1)
                return e
            e = resolve_ptr(pn["a"][0])
            if e is None or e.get("k") != "Bin" or e.get("op") != "+":
                continue
            base, off = resolve_ptr(e["lhs"]), e["rhs"]
            if not (base is not None and base.get("k") == "MCall" and not base.get("a")):
                base, off = resolve_ptr(e["rhs"]), e["lhs"]
            if not (base is not None and base.get("k") == "MCall" and not base.get("a") and base.get("obj") is not None):
                continue
            parent = L.unwrap(base["obj"])
            if parent.get("k") != "Ref" or not fam.is_family_type(fn.ntype(parent)):
                continue
            kind = L.vec_member(pn["obj"])[0]
            key = "%s/this._%s/view-of-%s" % (L.fkey(fn), kind, parent["n"])

            def opoly(x, bind=None):
                """polynomial with the accessors of this inlined to slots and the accessors of the parent object inlined to <parent>.slots;
                bind: {parameter decl id: argument node} while reading an assertion inside a helper the function calls"""
                x = L.unwrap(x)
                def rec(y):
                    y = L.unwrap(y)
                    k = y.get("k")
                    if bind and k == "Ref" and y.get("dk") == "param" and y.get("d") in bind:
                        return opoly(bind[y["d"]])
                    if k in ("Construct", "TempObj") and len(y.get("a", [])) == 1:
                        return rec(y["a"][0])
                    if k == "Bin" and y.get("op") in ("+", "-", "*"):
                        a, b = rec(y["lhs"]), rec(y["rhs"])
                        if y["op"] == "*":
                            out = {}
                            for m1, c1 in a.items():
                                for m2, c2 in b.items():
                                    m = tuple(sorted(m1 + m2))
                                    out[m] = out.get(m, 0) + c1 * c2
                            return {m: c for m, c in out.items() if c}
                        out = dict(a)
                        for m, c in b.items():
                            out[m] = out.get(m, 0) + (c if y["op"] == "+" else -c)
                        return {m: c for m, c in out.items() if c}
                    if k == "Ref" and y.get("dk") == "local" and y.get("d") in it.localdefs and not it.reassigned(y["d"]) and L.INT_T.match(fn.ntype(y) or ""):
                        return rec(it.localdefs[y["d"]])
                    if k == "MCall" and not y.get("a") and y.get("obj") is not None and L.unwrap(y["obj"]).get("k") == "Ref" \
                            and L.unwrap(y["obj"]).get("d") == parent.get("d"):
                        callee = fam.callee_fn(fn, y)
                        rx = L.single_return_expr(callee) if callee is not None else None
                        if rx is not None:
                            with L._alias_scope():
                                it2 = L.Interp(fam, callee)
                            it2.inline_accessors = True
                            pp = L.poly(it2, rx)
                            L._ALIAS.clear()
                            L._ALIAS.update(it.aliases)
                            return {tuple(sorted(("%s.%s" % (parent["n"], a) if a.startswith("slot") else a) for a in m)): c for m, c in pp.items()}
                    return L.poly(it, y)
                return rec(x)

            # recorded extent: the like-positioned push into the size vector
            same_vec = [q for q in pushes if L.vec_member(q["obj"])[0] == kind]
            sizes = [n for n in fn.nodes() if n.get("k") == "MCall" and n.get("n") in L.PUSH and len(n.get("a") or []) == 1 and L.size_member(n.get("obj"))
                     and L.size_member(n["obj"])[0] == kind and L.obj_id(L.size_member(n["obj"])[1]) == "this"]
            if len(sizes) != len(same_vec):
                ck.incomplete("C20.range-bound", "%s: %d arrays but %d recorded extents pushed" % (key, len(same_vec), len(sizes)))
                continue
            ext = sizes[[q is pn for q in same_vec].index(True)]["a"][0]
            sv = L.ctor_slot_values(it, max(pn.get("i", 0), 10 ** 9)) if fn.d.get("ctor") else None
            def subst(p_):
                for k_, v_ in (sv or {}).items():
                    p_ = L.psubst(p_, k_, v_)
                return p_
            # parent extent: size<P>() of the parent for elements<P>() (same perspective)
            cf = base.get("cfull", "")
            m_ = re.search(r"<(.*)>$", cf)
            acc = base.get("n")
            if acc != "elements":
                ck.incomplete("C20.range-bound", "%s: view of %s.%s(): extent of that array not derivable" % (key, parent["n"], acc))
                continue
            persp = (m_.group(1) if m_ else "")
            # size<P>() of the parent's class (or of Container) in the perspective of the elements<P>() accessor
            pcls = L.short(fn.ntype(parent).replace("const ", "").replace("&", "").strip())
            cands = [c_ for c_ in fam.functions() if c_.name == "size" and not c_.params and L.short(c_.cls) in (pcls, "Container")
                     and ("Perspective::pod" in persp) == ("Perspective::pod" in c_.full)]
            cands.sort(key=lambda c_: L.short(c_.cls) != pcls)
            sizefn = cands[0] if cands else None
            rx = L.single_return_expr(sizefn) if sizefn is not None else None
            if rx is None:
                ck.incomplete("C20.range-bound", "%s: size accessor of the parent (%s perspective) not found" % (key, "pod" if "pod" in persp else "native"))
                continue
            with L._alias_scope():
                it2 = L.Interp(fam, sizefn)
            it2.inline_accessors = True
            pp = L.poly(it2, rx)
            L._ALIAS.clear()
            L._ALIAS.update(it.aliases)
            PARENT = {tuple(sorted(("%s.%s" % (parent["n"], a) if a.startswith("slot") else a) for a in m)): c for m, c in pp.items()}
            OFF, E = subst(opoly(off)), subst(opoly(ext))
            goal = L.psub(L.psub(PARENT, OFF), E)          # must be >= 0

            # asserted inequalities dominating the push:  list of polynomials known to be >= 0
            known, texts = [], []
            def add_cond(c, truth=True, bind=None):
                c = L.unwrap(c)
                if c.get("k") == "Un" and c.get("op") == "!":
                    return add_cond(c["e"], not truth, bind)
                if c.get("k") == "Bin" and ((c.get("op") == "&&" and truth) or (c.get("op") == "||" and not truth)):
                    add_cond(c["lhs"], truth, bind)
                    add_cond(c["rhs"], truth, bind)
                    return
                if c.get("k") == "Bin" and c.get("op") in ("<", "<=", ">", ">=", "=="):
                    op = c["op"]
                    if not truth:
                        if op == "==":
                            return
                        op = {"<": ">=", "<=": ">", ">": "<=", ">=": "<"}[op]
                    a, b = subst(opoly(c["lhs"], bind)), subst(opoly(c["rhs"], bind))
                    if op in (">", ">="):
                        a, b, op = b, a, {">": "<", ">=": "<="}[op]
                    d = L.psub(b, a)          # b - a >= 0 (or >= 1)
                    if op == "<":
                        d = dict(d)
                        d[()] = d.get((), 0) - 1
                        d = {m: v for m, v in d.items() if v}
                    known.append(d)
                    texts.append(render(c)[:60])
                    if op == "==":
                        known.append(L.psub(a, b))
            for c in fn.calls(name="assertion"):
                if c.get("callee") == "FEAT::assertion" and c.get("a") and fn.cfg.stmt_dominates(c["i"], pn["i"]):
                    add_cond(c["a"][0])
            # checks extracted into a helper (`_check_range(dv_in.size(), size_in, offset_in)`): its unconditional assertions, with the
            # parameters bound to the arguments; a dominating call the check cannot read makes a negative verdict undecidable
            unread_calls = []
            for c in fn.nodes():
                if c.get("k") in ("Call", "MCall") and c.get("callee") != "FEAT::assertion" and c.get("i") is not None and c.get("a") \
                        and fn.cfg.block_of(c["i"]) is not None and fn.cfg.stmt_dominates(c["i"], pn["i"]) and not str(c.get("callee", "")).startswith(("std::", "FEAT::MemoryPool::")):
                    g = it.any_callee(c)
                    if g is None or g.body is None:
                        if not c.get("cconst") and c.get("k") == "Call":
                            unread_calls.append(c)
                        continue
                    if len(g.params) != len(c["a"]) or L.short(g.cls) in fam.classes and g.d.get("ctor"):
                        continue
                    b2 = {p_["d"]: a_ for p_, a_ in zip(g.params, c["a"])}
                    top = g.body.get("s", []) if g.body.get("k") == "Block" else [g.body]
                    for t_ in top:
                        if is_call(t_) and t_.get("callee") == "FEAT::assertion" and t_.get("a"):
                            add_cond(t_["a"][0], True, b2)
                        elif t_.get("k") == "If" and any((is_call(x) and x.get("noreturn")) or x.get("k") == "Throw" for x in walk(t_.get("then") or {})) and t_.get("else") is None:
                            add_cond(t_["c"], False, b2)          # `if(bad) abort;` in the helper: the condition is false afterwards
            # guards of the form `if(cond) abort/throw/return` dominating the push are not read: remember that they exist
            other_guards = [n for n in fn.nodes() if n.get("k") == "If" and any((is_call(x) and x.get("noreturn")) or x.get("k") in ("Throw", "Return") for x in walk(n.get("then") or {}))
                            and n.get("i", 0) < pn.get("i", 0)]

            def entailed():
                """goal = sum(l_k * known_k) + (polynomial with non-negative coefficients): search small rational multipliers"""
                if all(v >= 0 for v in goal.values()):
                    return True
                ks = known[:5]
                for lam in itertools.product((0, 1, 2, Fraction(1, 2)), repeat=len(ks)):
                    rest = dict(goal)
                    for l_, kp in zip(lam, ks):
                        for m, v in kp.items():
                            rest[m] = rest.get(m, 0) - l_ * v
                    if all(v >= 0 for v in rest.values()):
                        return True
                return False
            ok = entailed()
            det = "view %s = %s.%s + %s with recorded extent %s; parent extent %s; asserted before: [%s]" % (
                render(pn["a"][0])[:40], parent["n"], "elements()", L.pshow(OFF), L.pshow(E), L.pshow(PARENT), "; ".join(texts) or "nothing")
            if not ok and unread_calls:
                ck.incomplete("C20.range-bound", "%s: bound not entailed by the assertions read, but %s is called before the view is stored and its body is not available" % (key, unread_calls[0].get("callee")))
                continue
            if not ok and other_guards:
                ck.incomplete("C20.range-bound", "%s: bound not entailed by the assertions, but the function has other guards (line %s) the check does not read" % (key, other_guards[0].get("l")))
                continue
            if not ok:
                det += ": these do not entail offset + extent <= parent extent (e.g. two separate bounds on offset and size admit offset + size > parent size): the view may reach beyond the parent's allocation"
                if ("range", key) in seen_fail:
                    continue
                seen_fail.add(("range", key))
            ck.ob("C20.range-bound", key, ok, det, fn.file, pn.get("l"), sample={"function": fn.full, "detail": det})


def extent_agreement_rules(ck, fam, seen_fail):
    groups = {}
    for fn in fam.functions():
        if not fn.d.get("ctor") or fn.body is None:
            continue
        it = L.Interp(fam, fn)
        it.inline_accessors = True
        base = None
        for i in fn.d.get("inits") or []:
            init = i.get("init") or {}
            if i.get("base") and str(init.get("ccls", "")).startswith("FEAT::LAFEM::Container<") and init.get("pn") == ["size_in"] and init.get("a"):
                base = L.poly(it, init["a"][0])
        if base is None:
            continue
        scal, sizes = [], []
        for n in fn.nodes():
            if n.get("k") == "MCall" and n.get("n") == "push_back" and n.get("obj", {}).get("k") == "Member" and n.get("a"):
                q = n["obj"].get("qn", "")
                if L.obj_id(n["obj"].get("b")) != "this":
                    continue
                if L.SCAL_RE.search(q):
                    scal.append(L.poly(it, n["a"][0]))
                m = L.SIZE_RE.search(q)
                if m:
                    sizes.append((m.group(1), n))
        if not sizes:
            continue

        def subst(p):
            p = L.psubst(p, "slot0", base)
            for k, sp in enumerate(scal):
                p = L.psubst(p, "slot%d" % (k + 1), sp)
            return p
        sig = (fn.cls, L.pshow(subst(base)), tuple(L.pshow(subst(x)) for x in scal))
        cnt = {}
        for kind, n in sizes:
            j = cnt.get(kind, 0)
            cnt[kind] = j + 1
            groups.setdefault((sig, kind, j), []).append((fn, n, subst(L.poly(it, n["a"][0]))))
    for (sig, kind, j), members in sorted(groups.items(), key=lambda kv: str(kv[0])):
        if len(members) < 2:
            continue
        forms = {}
        for fn, n, p in members:
            forms.setdefault(L.pshow(p), []).append((fn, n, p))
        major = max(forms.values(), key=len)
        for fn, n, p in members:
            key = "%s/this._%s_size[%d]" % (L.fkey(fn), kind, j)
            v = L.poly_verdict(p, major[0][2])
            det = "constructors of %s establishing _scalar_index = (%s%s) record the extent of array %d of _%s as %s (%d of %d constructors); this one records %s" % (
                L.short(fn.cls), sig[1], "".join(", " + x for x in sig[2]), j, kind, L.pshow(major[0][2]), len(major), len(members), L.pshow(p))
            if v == "unknown" or (v == "ne" and len(major) * 2 <= len(members)):
                ck.ob("C20.extent-agreement", key, True, "undecided: " + det, fn.file, n.get("l"), trivial=True)
                continue
            ok = v == "eq"
            if not ok:
                det += ": every reader sizes its work from _scalar_index, so objects built by the two constructors are indistinguishable to them, yet carry different recorded array lengths"
                if ("ea", key) in seen_fail:
                    continue
                seen_fail.add(("ea", key))
            ck.ob("C20.extent-agreement", key, ok, det, fn.file, n.get("l"), sample={"function": fn.full, "detail": det})


DRIVER = "tu/c20_containers.cpp"
ALT = ("-DC20_DT=float", "-DC20_IT=std::uint32_t", "-DC20_DT2=double", "-DC20_IT2=std::uint64_t")


def driver_errors(ck, facts):
    """front-end errors inside lifetime functions would hide their bodies from the rules"""
    for e in facts.errors_outside_repo():
        ck.incomplete("C20.exit-state", "driver %s no longer matches the API: %s:%s %s" % (rel(facts.tu), e["file"], e["line"], e["msg"][:160]))
    for e in facts.errors_in_repo():
        # known, unrelated to lifetimes: SparseMatrixBanded::ImageIterator::operator= assigns const members
        ck.note("front-end error (not in a lifetime function): %s:%s %s" % (rel(e["file"]), e["line"], e["msg"][:120]))


def run(tier):
    ck = Check("C20", tier)
    declare(ck)
    facts = featlib.extract(DRIVER, files=FILES)
    ck.tu(facts)
    driver_errors(ck, facts)
    all_facts = [facts]
    if tier == "thorough":
        f2 = featlib.extract(DRIVER, files=FILES, extra=ALT)
        ck.tu(f2)
        driver_errors(ck, f2)
        all_facts.append(f2)
        for t in ("kernel/lafem/dense_vector-test.cpp", "kernel/lafem/sparse_matrix_csr-test.cpp", "kernel/lafem/sparse_matrix_conversion-test.cpp",
                  "kernel/lafem/sparse_layout-test.cpp", "kernel/lafem/sparse_vector-test.cpp", "kernel/lafem/matrix_mirror_buffer-test.cpp"):
            import os
            p = featlib.repo_path(t)
            if os.path.exists(p):
                ft = featlib.extract(p, files=LAFEM + "|" + POOLF)
                ck.tu(ft)
                all_facts.append(ft)
    runtime = featlib.extract(featlib.repo_path("kernel/runtime.cpp"), files=featlib.repo_path("kernel/runtime"))
    ck.tu(runtime)

    nfun = 0
    ea_seen = set()
    rb_seen = set()
    for fx in all_facts:
        fam = L.Family([fx])
        if not {"DenseVector", "SparseMatrixCSR"} <= fam.classes and fx is facts:
            ck.incomplete("C20.exit-state", "Container-derived classes not recognised in the driver TU (found %s)" % sorted(fam.classes))
        if fx is facts:
            want = {"Container", "SparseLayout", "DenseVector", "DenseVectorBlocked", "SparseVector", "SparseVectorBlocked", "DenseMatrix",
                    "SparseMatrixCSR", "SparseMatrixBCSR", "SparseMatrixCSCR", "SparseMatrixBanded", "VectorMirror", "MatrixMirrorBuffer"}
            if not want <= fam.classes:
                ck.incomplete("C20.exit-state", "classes missing from the analysed family: %s" % sorted(want - fam.classes))
            if fam.capable != {"DenseVector", "DenseVectorBlocked"}:
                ck.note("classes with a foreign-memory writer: %s" % sorted(fam.capable))
        for msg in L.errors_in_family(fam, fx):
            ck.incomplete("C20.exit-state", msg)
        nfun += container_rules(ck, fam)
        extent_agreement_rules(ck, fam, ea_seen)
        range_bound_rules(ck, fam, rb_seen)
        slot_extent_rules(ck, fam, ea_seen)
        alias_stale_rules(ck, fam, rb_seen)
        if fx is facts:
            L.cross_clone_rules(ck, fam, set(), rule="C20.clone-cross-type")
    extra = []
    pcpp = featlib.repo_path("kernel/util/memory_pool.cpp")
    import os as _os
    if _os.path.exists(pcpp):
        pf = featlib.extract(pcpp, files=POOLF)
        ck.tu(pf)
        extra.append(pf)
    pool_rules(ck, facts, runtime, extra)

    ck.assume("a moved-from std::vector (move construction / move assignment with std::allocator) is empty; the explicit other._x.clear() calls are therefore not required by any rule")
    ck.assume("std::vector::assign/clear/push_back/operator= have their standard meaning; MemoryPool is the only owner of reference counts")
    ck.assume("objects of classes without a foreign-memory constructor have _foreign_memory == false (the only writers of `true` are found by scanning all class members; currently DenseVector and DenseVectorBlocked range constructors)")
    return ck.finish(
        "Ownership typestate (EMPTY/OWN/NOREF/UNCOUNTED/VALID[flag]) of _elements/_indices and the _foreign_memory flag, abstractly "
        "interpreted over all paths (branches, loops to a fixpoint, switch, early returns, noreturn aborts) of %d lifetime functions of Container, "
        "SparseLayout and the 11 Container-derived classes, instantiated by tu/c20_containers.cpp; callee effects by per-function summaries. "
        "Decided: release-before-overwrite, guarded release, single increase after copy, origin of stored pointers, exit consistency incl. flag, "
        "destructors, loop ranges, allocate/size pairing, equal length of every pointer vector and its size vector at every exit, and the MemoryPool counter protocol incl. nullptr agreement and finalize. "
        "Not decided: heap bounds of index-driven accesses, writes through shared index arrays (DESIGN clause 5), emptiness of the pool for a "
        "concrete program, MKL/CUDA allocation paths (not built)." % nfun)
