#!/usr/bin/env python3
"""tools/run_benign.py [--import <worktree> <Cxx>] [ids ...] [--own-only]
Independent behaviour-preserving refactorings (written by sub-agents that saw only the property text and a
scratch worktree) are stored as benign/<Cxx-bN>/{patch.diff,NOTES.md,meta.json}.  This tool applies each to a
scratch copy of /repo and runs every registered check (or only the owning one) against it.  A check answering
exit 1 on such a patch is a false alarm (unless triage shows that the patch does change behaviour); exit 2 means
the rule does not understand the refactored construct.  Verdicts are recorded in meta.json."""
import concurrent.futures, json, os, re, shutil, subprocess, sys, time
HERE = os.path.dirname(os.path.dirname(os.path.abspath(__file__)))
BEN = os.path.join(HERE, "benign")

def imp(wt, pid):
    src = os.path.join(wt, "benign")
    n = 0
    for d in sorted(os.listdir(src)) if os.path.isdir(src) else []:
        p = os.path.join(src, d, "patch.diff")
        if not os.path.exists(p) or os.path.getsize(p) == 0:
            continue
        bid = "%s-b%s" % (pid, d)
        dst = os.path.join(BEN, bid)
        k = 1
        while os.path.exists(dst):
            k += 1
            bid = "%s-b%s_%d" % (pid, d, k); dst = os.path.join(BEN, bid)
        os.makedirs(dst)
        shutil.copy(p, dst)
        notes = os.path.join(src, d, "NOTES.md")
        if os.path.exists(notes):
            shutil.copy(notes, dst)
        files = re.findall(r"^\+\+\+ b/(\S+)", open(p).read(), re.M)
        json.dump({"id": bid, "property": pid, "files": files, "imported": time.strftime("%Y-%m-%d %H:%M"),
                   "origin": "independent sub-agent given only the property text and its own worktree; asked for behaviour-preserving refactorings"},
                  open(os.path.join(dst, "meta.json"), "w"), indent=1)
        n += 1
    print("imported", n, "patches for", pid)

def run(bid, pid):
    patch = os.path.join(BEN, bid, "patch.diff")
    p = subprocess.run([sys.executable, os.path.join(HERE, "tools", "mutant_test.py"), pid, patch], capture_output=True, text=True)
    viol = [l.strip() for l in p.stdout.splitlines() if l.startswith("  rule=")]
    brk = [l.strip() for l in p.stdout.splitlines() if l.startswith("ANALYSIS-BROKEN") or l.startswith("PATCH-FAILED")]
    return bid, pid, p.returncode, viol, brk

def main():
    if "--import" in sys.argv:
        i = sys.argv.index("--import")
        imp(sys.argv[i + 1], sys.argv[i + 2]); return 0
    args = [a for a in sys.argv[1:] if not a.startswith("-")]
    own = "--own-only" in sys.argv
    man = json.load(open(os.path.join(HERE, "MANIFEST.json")))
    have = [c["property_id"] for c in man["checks"]]
    ids = args or sorted(os.listdir(BEN))
    jobs = []
    for bid in ids:
        meta = json.load(open(os.path.join(BEN, bid, "meta.json")))
        for pid in ([meta["property"]] if own else have):
            jobs.append((bid, pid))
    bad = 0
    with concurrent.futures.ThreadPoolExecutor(max_workers=int(os.environ.get("JOBS", "12"))) as ex:
        for bid, pid, rc, viol, brk in ex.map(lambda a: run(*a), jobs):
            mp = os.path.join(BEN, bid, "meta.json")
            meta = json.load(open(mp))
            meta.setdefault("checks", {})[pid] = {"exit": rc, "verdict": {0: "silent", 1: "ALARM", 2: "analysis-incomplete (exit 2)"}.get(rc, "error"),
                                                  "violations": viol[:4], "incomplete": brk[:3]}
            json.dump(meta, open(mp, "w"), indent=1)
            if rc != 0:
                bad += 1
                print("%-9s %-4s exit=%d %s" % (bid, pid, rc, (viol or brk or [""])[0][:220]))
    print("run_benign: %d runs, %d non-zero" % (len(jobs), bad))

if __name__ == "__main__":
    sys.exit(main())
