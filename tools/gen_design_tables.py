#!/usr/bin/env python3
"""Regenerates the machine-generated tables of DESIGN.md (between the AUTOGEN markers): fix commits,
known findings, seeded changes with the verdict of the owning check, registered checks."""
import json, os, re, subprocess
HERE = os.path.dirname(os.path.dirname(os.path.abspath(__file__)))

def main():
    k = json.load(open(os.path.join(HERE, "known_findings.json")))
    out = []
    out.append("### 10.A Registered checks (from MANIFEST.json and the committed evidence)\n")
    man = json.load(open(os.path.join(HERE, "MANIFEST.json")))
    out.append("| property | rules | obligations (last run, tier) | known findings | wall s |")
    out.append("|---|---|---|---|---|")
    for c in man["checks"]:
        try:
            e = json.load(open(os.path.join(HERE, c["evidence_file"])))
            cov = e["coverage"]
            out.append("| %s | %d | %d (%s) | %d | %.1f |" % (c["property_id"], len(cov.get("rules", {})), cov.get("obligations", 0), e["tier"], len(cov.get("known_findings_hit", [])), e["wall_s"]))
        except Exception:
            out.append("| %s | ? | ? | ? | ? |" % c["property_id"])
    out.append("\nNot claimed: " + (", ".join("%s (%s)" % (n["property_id"], n["reason"]) for n in man.get("not_applicable", [])) or "none") + "\n")
    out.append("### 10.B Genuine defects repaired in /repo (`fix:` commits; newest last)\n")
    log = subprocess.run(["git", "-C", "/repo", "log", "--reverse", "--format=%h %s"], capture_output=True, text=True).stdout.splitlines()
    fixes = [l for l in log if re.match(r"^[0-9a-f]+ fix:", l)]
    out.append("| # | commit | summary |")
    out.append("|---|---|---|")
    for i, l in enumerate(fixes, 1):
        h, s = l.split(" ", 1)
        out.append("| %d | %s | %s |" % (i, h, s[5:].replace("|", "/")))
    out.append("\n### 10.C Known findings (genuine defects recorded, not repaired)\n")
    out.append("| property | rule | keys | what |")
    out.append("|---|---|---|---|")
    groups = {}
    for f in k["findings"]:
        groups.setdefault((f["property"], f["rule"], f["what"][:90]), []).append(f)
    for (pid, rule, _), fs in groups.items():
        keys = [f["key"] for f in fs]
        ks = "`%s`" % keys[0] if len(keys) == 1 else "%d keys, e.g. `%s`" % (len(keys), keys[0])
        out.append("| %s | %s | %s | %s |" % (pid, rule, ks, fs[0]["what"][:300].replace("|", "/").replace("\n", " ")))
    out.append("\n### 10.D Independently seeded changes and the verdict of the owning check\n")
    out.append("Each change was produced by a sub-agent that saw only the property text and its own worktree, was confirmed by the coordinator (demo passes on the clean tree, fails with the patch; the named existing tests still build and pass with the patch) and is stored under `seeded/<id>/`.\n")
    out.append("| seed | what it needs to manifest (first lines of NOTES) | verdict | rule that fires |")
    out.append("|---|---|---|---|")
    sd = os.path.join(HERE, "seeded")
    for sid in sorted(os.listdir(sd)):
        mp = os.path.join(sd, sid, "meta.json")
        if not os.path.exists(mp):
            continue
        m = json.load(open(mp))
        pid = m["breaks_property"]
        c = m.get("checks", {}).get(pid)
        first = ""
        np_ = os.path.join(sd, sid, "NOTES.md")
        if os.path.exists(np_):
            txt = [l.strip() for l in open(np_).read().splitlines() if l.strip() and not l.startswith("#")]
            first = " ".join(txt[:2])[:220]
        v = c["verdict"] if c else "not run"
        r = ""
        if c and c.get("violations"):
            mm = re.match(r"rule=(\S+) instance=(.*?) at ", c["violations"][0])
            r = "%s `%s`" % (mm.group(1), mm.group(2)[:80]) if mm else c["violations"][0][:100]
        out.append("| %s | %s | %s | %s |" % (sid, first.replace("|", "/"), v, r.replace("|", "/")))
    out.append("\n### 10.E Rules as built, per property (name, statement, instances on the current tree; from the evidence of the last committed run)\n")
    for c in man["checks"]:
        try:
            e = json.load(open(os.path.join(HERE, c["evidence_file"])))
        except Exception:
            continue
        cov = e["coverage"]
        out.append("#### %s (%s tier run: %d obligations, %.1f s)\n" % (c["property_id"], e["tier"], cov.get("obligations", 0), e["wall_s"]))
        out.append("| rule | decides | instances (min) |")
        out.append("|---|---|---|")
        for r, d in cov.get("rules", {}).items():
            out.append("| %s | %s | %s (%s) |" % (r, d.get("doc", "").replace("|", "/").replace("\n", " ")[:600], d.get("instances"), d.get("min_instances")))
        asm = e.get("assumptions") or []
        if asm:
            out.append("\nAssumptions stated by the check: " + " · ".join(a.replace("|", "/")[:300] for a in asm[:12]) + "\n")
        out.append("Self-test: `selftest/%s/README.md` (mutants that must fire, benign variants that must stay silent).\n" % c["property_id"].lower())
    bd = os.path.join(HERE, "benign")
    if os.path.isdir(bd):
        out.append("### 10.F Independent behaviour-preserving refactorings and the verdict of every check\n")
        out.append("Each patch was written by a sub-agent that saw only the property text and its own worktree and was asked for a behaviour-preserving change (tests pass; mostly a differential driver with identical output). `tools/run_benign.py` runs all registered checks against it: `silent` = all exit 0; otherwise the checks that answered exit 1 (alarm) or exit 2 (construct not modelled) are named.\n")
        out.append("| patch | files | kind / what (first line of NOTES) | first verdict (before hardening) | verdict now, all checks |")
        out.append("|---|---|---|---|---|")
        tot = al = inc = fal = finc = 0
        for bid in sorted(os.listdir(bd)):
            mp = os.path.join(bd, bid, "meta.json")
            if not os.path.exists(mp):
                continue
            m = json.load(open(mp))
            first = ""
            np_ = os.path.join(bd, bid, "NOTES.md")
            if os.path.exists(np_):
                txt = [l.strip() for l in open(np_).read().splitlines() if l.strip() and not l.startswith("#")]
                first = " ".join(txt[:2])[:160]
            ch = m.get("checks", {})
            def rule_of(s):
                mm = re.search(r"rule=(\S+?)[: ]", s + " ")
                return mm.group(1) if mm else ""
            bad = ["%s exit %d (%s)" % (p, c["exit"], rule_of((c.get("violations") or c.get("incomplete") or [""])[0])) for p, c in sorted(ch.items()) if c["exit"] != 0]
            fz = m.get("first_nonzero", {})
            fbad = ["%s exit %d (%s)" % (p, c["exit"], rule_of(c.get("msg", ""))) for p, c in sorted(fz.items())]
            tot += 1
            a1 = any(c["exit"] == 1 for c in ch.values()); a2 = any(c["exit"] == 2 for c in ch.values())
            f1 = any(c["exit"] == 1 for c in fz.values()); f2 = any(c["exit"] == 2 for c in fz.values())
            al += a1; inc += (not a1) and a2; fal += f1; finc += (not f1) and f2
            v = "not run" if not ch else ("silent (%d checks)" % len(ch) if not bad else "; ".join(bad))
            if m.get("triage"):
                v += " — " + m["triage"]
            out.append("| %s | %s | %s | %s | %s |" % (bid, ", ".join(os.path.basename(f) for f in m.get("files", []))[:70], first.replace("|", "/"), ("; ".join(fbad) or "silent").replace("|", "/"), v.replace("|", "/")))
        out.append("\nTotals over %d patches (ids `-bN` = round 1, `-cN` = round 2, `-dN` = round 3, `-eN` = round 4): first verdict %d with an alarm (exit 1), %d more with only exit 2; now %d with an alarm, %d with only exit 2, %d silent under every check.\n" % (tot, fal, finc, al, inc, tot - al - inc))
    block = "\n".join(out) + "\n"
    p = os.path.join(HERE, "DESIGN.md")
    s = open(p).read()
    b, e = "<!-- AUTOGEN:BEGIN -->", "<!-- AUTOGEN:END -->"
    if b in s:
        s = s[:s.index(b) + len(b)] + "\n" + block + s[s.index(e):]
    else:
        s = s.rstrip() + "\n\n" + b + "\n" + block + e + "\n"
    open(p, "w").write(s)

if __name__ == "__main__":
    main()
