#!/usr/bin/env python3
"""tools/run_seeds.py [seed-id ...] [--all-checks] — applies each seeded change (seeded/<id>/patch.diff) to a scratch
copy of /repo and runs the owning property's check (or every registered check) against it; records
the outcome in seeded/<id>/meta.json under "checks"."""
import concurrent.futures, json, os, re, subprocess, sys
HERE = os.path.dirname(os.path.dirname(os.path.abspath(__file__)))

def run(sid, pid):
    patch = os.path.join(HERE, "seeded", sid, "patch.diff")
    p = subprocess.run([sys.executable, os.path.join(HERE, "tools", "mutant_test.py"), pid, patch], capture_output=True, text=True)
    viol = [l.strip() for l in p.stdout.splitlines() if l.startswith("  rule=")]
    brk = [l.strip() for l in p.stdout.splitlines() if l.startswith("ANALYSIS-BROKEN")]
    return sid, pid, p.returncode, viol, brk

def main():
    args = [a for a in sys.argv[1:] if not a.startswith("-")]
    allc = "--all-checks" in sys.argv
    man = json.load(open(os.path.join(HERE, "MANIFEST.json")))
    have = [c["property_id"] for c in man["checks"]]
    seeds = args or sorted(os.listdir(os.path.join(HERE, "seeded")))
    jobs = []
    for sid in seeds:
        meta = json.load(open(os.path.join(HERE, "seeded", sid, "meta.json")))
        pids = have if allc else [meta["breaks_property"]]
        for pid in pids:
            if os.path.exists(os.path.join(HERE, "checks", pid.lower() + ".py")):
                jobs.append((sid, pid))
    with concurrent.futures.ThreadPoolExecutor(max_workers=8) as ex:
        for sid, pid, rc, viol, brk in ex.map(lambda a: run(*a), jobs):
            mp = os.path.join(HERE, "seeded", sid, "meta.json")
            meta = json.load(open(mp))
            meta.setdefault("checks", {})[pid] = {"exit": rc, "verdict": {0: "missed", 1: "caught", 2: "analysis-incomplete (exit 2)"}.get(rc, "error"),
                                                  "violations": viol[:4], "incomplete": brk[:3]}
            json.dump(meta, open(mp, "w"), indent=1)
            print("%-7s %-4s exit=%d %s" % (sid, pid, rc, (viol or brk or [""])[0][:200]))

if __name__ == "__main__":
    main()
