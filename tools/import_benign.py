#!/usr/bin/env python3
"""tools/import_benign.py <worktree> <Cxx> <letter> <round> — import <wt>/benign/<n>/ as benign/<Cxx>-<letter><n>/"""
import os,shutil,json,re,time,sys
wt,pid,let,rnd=sys.argv[1:5]
src=os.path.join(wt,'benign'); n=0
for d in sorted(os.listdir(src)):
    p=os.path.join(src,d,'patch.diff')
    if not os.path.isfile(p) or os.path.getsize(p)==0: continue
    bid='%s-%s%s'%(pid,let,d); dst=os.path.join(os.path.dirname(os.path.dirname(os.path.abspath(__file__))),'benign',bid)
    if os.path.exists(dst): continue
    os.makedirs(dst); shutil.copy(p,dst)
    nn=os.path.join(src,d,'NOTES.md')
    if os.path.exists(nn): shutil.copy(nn,dst)
    files=re.findall(r"^\+\+\+ b/(\S+)",open(p).read(),re.M)
    json.dump({"id":bid,"property":pid,"round":int(rnd),"files":files,"imported":time.strftime("%Y-%m-%d %H:%M"),"origin":"independent sub-agent (round %s), given only the property text, a focus file list and its own worktree; asked for behaviour-preserving refactorings"%rnd},open(os.path.join(dst,'meta.json'),'w'),indent=1)
    n+=1
print(pid,'imported',n)
