#!/usr/bin/env python3
"""tools/gen_avoid.py <outdir> — regenerate the per-property AVOID lists handed to mutation sub-agents
(only the file names and a one-line description of the changes already produced; nothing about the checks)."""
import glob, json, os, re, sys
HERE = os.path.dirname(os.path.dirname(os.path.abspath(__file__)))
out = sys.argv[1]
by = {}
for d in sorted(glob.glob(os.path.join(HERE, "seeded", "*"))):
    sid = os.path.basename(d)
    pid = sid.split("-")[0]
    files = re.findall(r"^\+\+\+ b/(\S+)", open(os.path.join(d, "patch.diff")).read(), re.M)
    notes = open(os.path.join(d, "NOTES.md")).read() if os.path.exists(os.path.join(d, "NOTES.md")) else ""
    lines = [l.strip() for l in notes.splitlines() if l.strip() and not l.startswith("#")]
    pick = next((l for l in lines if re.search(r"chang|patch|edit|replac|remov|drop|swap", l, re.I)), lines[0] if lines else "")
    by.setdefault(pid, []).append("- %s: %s" % (", ".join(files), pick[:260]))
for pid, items in by.items():
    with open(os.path.join(out, "AVOID-%s.txt" % pid), "w") as f:
        f.write("Changes already produced for this property by other engineers (do NOT repeat these or trivial variants of them; pick different functions AND different mechanisms):\n")
        f.write("\n".join(items) + "\n")
print("wrote", len(by), "lists")
