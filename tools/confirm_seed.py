#!/usr/bin/env python3
"""tools/confirm_seed.py <worktree> <n> <seed-id> <property>  — coordinator-side confirmation of a seeded
change produced by an independent sub-agent: demo passes on the clean worktree, the patch applies,
the tests named in NOTES.md still build and pass with it, the demo fails with it.  On success the
seed is copied to /verif/seeded/<seed-id>/ with meta.json.  The worktree is left clean."""
import json, os, re, shutil, subprocess, sys, time
HERE = os.path.dirname(os.path.dirname(os.path.abspath(__file__)))

def sh(cmd, cwd=None, timeout=3600):
    p = subprocess.run(cmd, shell=True, cwd=cwd, capture_output=True, text=True, timeout=timeout)
    return p.returncode, (p.stdout + p.stderr)

def main():
    wt, n, sid, pid = sys.argv[1], sys.argv[2], sys.argv[3], sys.argv[4]
    sd = os.path.join(wt, "seeded", n)
    res = {"seed": sid, "property": pid, "steps": []}
    rc, out = sh("git status --porcelain --untracked-files=no", cwd=wt)
    if out.strip():
        print("worktree not clean:", out); return 2
    rc0, out0 = sh("sh %s/build.sh %s" % (sd, wt), cwd=sd)
    res["steps"].append({"step": "demo on unchanged tree", "exit": rc0, "tail": out0[-400:]})
    rc, out = sh("git apply %s/patch.diff" % sd, cwd=wt)
    if rc != 0:
        print("patch does not apply", out); return 2
    try:
        notes = open(os.path.join(sd, "NOTES.md")).read()
        tests = sorted(set(re.findall(r"\b([a-z0-9_]+(?:-[a-z0-9_]+)*-test)\b", notes)))
        rc, targets = sh("ninja -C %s/_build -t targets all" % wt)
        known = set(re.findall(r"^([\w.-]+): phony", targets, re.M))
        tests = [t for t in tests if t in known]
        extra_targets = os.environ.get("SEED_TARGETS", "").split()
        ctest_re = os.environ.get("SEED_CTEST")
        rcb, outb = sh("ninja -C %s/_build -j6 %s" % (wt, " ".join(tests + extra_targets)), timeout=7200) if (tests or extra_targets) else (0, "")
        res["steps"].append({"step": "build tests with patch", "tests": tests, "exit": rcb, "tail": outb[-300:]})
        rx = "|".join([re.escape(t) for t in tests] + ([ctest_re] if ctest_re else []))
        rct, outt = sh("ctest -R '^(%s)' --timeout 900 -j4" % rx, cwd=os.path.join(wt, "_build")) if rx else (0, "")
        tests = tests + extra_targets
        m = re.search(r"(\d+)% tests passed, (\d+) tests failed out of (\d+)", outt)
        res["steps"].append({"step": "run tests with patch", "exit": rct, "summary": m.group(0) if m else outt[-300:]})
        rc1, out1 = sh("sh %s/build.sh %s" % (sd, wt), cwd=sd)
        res["steps"].append({"step": "demo with patch", "exit": rc1, "tail": out1[-600:]})
    finally:
        sh("git apply -R %s/patch.diff" % sd, cwd=wt)
    ok = rc0 == 0 and rcb == 0 and rct == 0 and rc1 != 0 and tests
    res["confirmed"] = bool(ok)
    print(json.dumps(res, indent=1))
    if ok:
        dst = os.path.join(HERE, "seeded", sid)
        os.makedirs(dst, exist_ok=True)
        for f in os.listdir(sd):
            p = os.path.join(sd, f)
            if os.path.isfile(p) and os.path.getsize(p) < 2_000_000 and not f.startswith("demo_bin") and f not in ("demo", "a.out"):
                if os.access(p, os.X_OK) and not f.endswith(".sh"):
                    continue
                shutil.copy(p, dst)
        meta = {"seed": sid, "breaks_property": pid, "needs_to_manifest": None,
                "confirmed_by_coordinator": {"date": time.strftime("%Y-%m-%d %H:%M"), "worktree": wt, "steps": res["steps"]},
                "origin": "independent sub-agent given only the property text and its own worktree"}
        mm = re.search(r"(?is)(trigger|needs?|manifest)[^\n]*\n(.{0,600})", notes)
        meta["needs_to_manifest"] = (mm.group(0)[:700] if mm else notes[:700])
        json.dump(meta, open(os.path.join(dst, "meta.json"), "w"), indent=1)
    return 0 if ok else 1

if __name__ == "__main__":
    sys.exit(main())
