#!/usr/bin/env python3
"""Regenerates /verif/MANIFEST.json from the table below (single source of truth)."""
import json, os
HERE = os.path.dirname(os.path.dirname(os.path.abspath(__file__)))

CHECKS = {
 "C14": dict(
    technique="static constant propagation over the clang AST of the cubature drivers/factories + exact algebraic identities on the extracted tables",
    text="Every rule name x point count the cubature factories can create is enumerated completely; its weight/point table is extracted from the source by constant folding (no FEAT3 code is run) and checked for completeness, weight sum, exactness on all monomials up to the nominal degree, product structure, refine:* degree preservation, auto-degree mapping and refusal of out-of-range/unknown names. The property is a statement about constants in the source, so this is a complete decision for the enumerated rules.",
    note="Trusted: clang front end, featx fact extraction, the constant folder (lib/cfold.py), nominal degree laws listed in the evidence assumptions; decimal literals are trusted to 4 units of their last printed digit. Big product rules (n^3 > 1000) are folded only in the thorough tier.",
    design="§4 C14"),
}

NOT_APPLICABLE = {
}

def main():
    props = [json.loads(l) for l in open(os.path.join(HERE, "properties.jsonl"))]
    checks = []
    for p in props:
        pid = p["id"]
        if pid not in CHECKS:
            continue
        c = CHECKS[pid]
        checks.append({
            "property_id": pid,
            "quick_cmd": "./check %s --tier quick" % pid,
            "thorough_cmd": "./check %s --tier thorough" % pid,
            "evidence_file": "evidence/%s.json" % pid,
            "replay_cmd_template": "./check %s --replay {path}" % pid,
            "engine": "featx+rules",
            "level_claimed": {"category": c.get("category", "other"), "text": c["text"], "design_ref": c["design"]},
            "level_note": c["note"],
            "technique": c["technique"],
        })
    na = []
    for p in props:
        pid = p["id"]
        if pid in CHECKS:
            continue
        na.append({"property_id": pid, "reason": NOT_APPLICABLE.get(pid, "check not built yet in this round (static rules planned in DESIGN.md §4); nothing is claimed for this property")})
    man = {
        "version": 1,
        "setup_cmd": "make -C fe",
        "hooks": {
            "guard": "FEAT3_VERIF",
            "enable": "no hooks: the checks parse /repo's sources with clang and need no instrumentation",
            "baseline_off_cmd": "cmake --build /repo/_build -j16 && ctest --test-dir /repo/_build -j8 --timeout 900",
            "source_commits": [],
            "add_only": True,
        },
        "engines": [
            {"name": "featx", "path": "fe/featx.cpp", "serves_properties": sorted(CHECKS), "kind_free_text": "clang-14 frontend plugin: resolved typed statement trees + CFG of (instantiated) functions as JSON facts"},
            {"name": "rules", "path": "checks/", "serves_properties": sorted(CHECKS), "kind_free_text": "repository-specific static rules (Python) over the fact base: role agreement, index kinds, recursion schemes, path rules, table algebra"},
        ],
        "checks": checks,
        "not_applicable": na,
        "notes": "Static analysis only: every verdict is computed from /repo's current source via the clang front end. exit 0 held / 1 VIOLATION / 2 analysis broken (never on the pinned tree). known_findings.json lists repaired and unrepaired genuine defects.",
    }
    with open(os.path.join(HERE, "MANIFEST.json"), "w") as f:
        json.dump(man, f, indent=1)
        f.write("\n")

if __name__ == "__main__":
    main()
