#!/usr/bin/env python3
"""Regenerates /verif/MANIFEST.json from the table below (single source of truth)."""
import json, os
HERE = os.path.dirname(os.path.dirname(os.path.abspath(__file__)))

CHECKS = {
 "C05": dict(
    technique="stream-layout agreement by abstract interpretation of cursor variables in writer/reader pairs (header slots, segments, alignment steps, unit coherence), vocabulary agreement (FileMode sets, tags, magic numbers, banners, size line), index-kind/coverage rules on text readers, CFG guard rules for array-free containers, state-reset rule for the checkpoint reader - all over clang facts",
    text="Decides for all containers, shapes, type parameters and checkpoint contents the structural part of 'reads back what was written': _serialize/_deserialize agree slot by slot and segment by segment on all four compression branches with coherent cursor units, _serialized_size accounts for every byte, the reader allocates what is transferred; write_out/read_from handle the same FileModes with identical (tag, DT, IT); magic numbers and MatrixMarket banners/size lines written are the ones accepted; the CSR mtx reader builds row_ptr completely with row-kind subscripts; the counter split of text readers divides by the dimension the writer runs fastest; the checkpoint record layout, meta-container recursion, length words and block order agree on both sides; Pack case tables and loops are consistent; IO routines do not touch arrays of array-free/length-0 containers unguarded; state of an earlier checkpoint load cannot survive a later one.",
    note="Trusted: clang front end, featx facts, the cursor interpreter in checks/c05.py. Assumed: text files are as the writer produces them. Not decided: bit identity / printed precision of values, zlib/zfp internals (structural only), duplicate or malformed text entries, entry-line token order, DistFileIO/MPI.",
    design="§4 C05"),
 "C11": dict(
    technique="must-facts forward dataflow on the clang CFGs of all parser callbacks (guard-before-store, truncation, parse-result-used, token guards, mandatory attributes/children), writer-literal stream vs reader class tree vocabulary matching, cursor-form layout agreement of Graph serialise/deserialise incl. degenerate states, scanner stack/line-count rules",
    text="Decides for every input text the structural conditions of 'malformed input is rejected, valid output is accepted': in all MarkupParser subclasses every store indexed by the running counter is dominated by the counter/limit check that throws, every close() rejects truncation with the same limit, the limit is the extent of the indexed container, every String::parse result is tested with no normal exit from the failure edge, token accesses are below the checked size, stored indices are compared with their bound, parsed dims are range-checked before indexing, attributes are dereferenced only if guarded or mandatory, mandatory child blocks are demanded; the XML scanner never pops an empty stack and counts every line; every tag/attribute/value the writer emits is accepted by the reader with matching per-dimension index/target sets and one markup per line; Graph::serialize and Graph(buffer) agree also for empty graphs; PropertyMap write forms are classified by distinct reader branches.",
    note="Trusted: clang front end, featx facts, the dataflow in checks/c11.py; index-range rules are decided on a bounded model (0..5 per symbol) as stated in the evidence; mandatory children transcribed from mesh_format.dox (anchor sentences re-checked each run). Not decided: byte-for-byte write-read-write idempotence, printed precision, termination, the mesh type string, property-map values containing delimiters.",
    design="§4 C11"),
 "C13": dict(
    technique="static rules on the MPI-enabled parse (code the baseline build never compiles): instantiability, request/buffer typestate over the CFGs of the ticket classes, per-neighbour index coherence, commutativity-by-form of the completion handler and scatter kernels, type-0/type-1 discipline rules on Gate/Global classes",
    text="Decides for all process counts, partitionings and message arrival orders the structural conditions: all 82 curated members of the distributed layer type-check with MPI on; every posted request is completed (wait_all / wait_any loop left through its false edge) before its buffer dies and holders are never re-posted while pending; buffers and requests move together; within one neighbour iteration rank, mirror, buffers and request use the same index with the message length taken from the same buffer and gather before isend; the completion handler is exactly mirror[idx].scatter_axpy(target, recv_buf[idx]) and the scatter kernels only add, so handlers commute (arrival order cannot matter up to rounding); Global::Matrix::apply is local apply then sync_0 on every path; Gate::dot weights by the frequencies exactly once; frequencies are 1, +1 per mirror, inverted once; sync_0/sync_1/from_1_to_0 discipline and reductions use the right operation.",
    note="Trusted: clang front end (parse with -DFEAT_HAVE_MPI and the OpenMPI headers), featx facts, lib/dfl.py. Not decided: equality with the one-process run, global DOF counts, real message schedules and deadlock freedom, halo symmetry (C12), MatrixMirror kernels, Splitter data movement, the FEAT_MPI_THREAD_MULTIPLE variant.",
    design="§4 C13"),
 "C19": dict(
    technique="index-kind checker for CSR-style index code (lib/ikinds.py: symbolic extents, loop ranges, coverage, two-pass count/fill agreement, mask reset), decision tables of render/permutation dispatch, three-valued semantic evaluation of root selection, cursor-form serial layout",
    text="Decides for all graphs, permutations, render types and root options the structural part of 'meets its definition': every subscript and adjactor node lies in its extent kind; every output array is assigned on its whole extent; the count pass and fill pass of all 8 render functions are equal as event traces with offsets built by a full prefix sum and cursors restored; transposes swap domain/image on every exit; stored indices are image nodes of the result; the duplicate masks are tested/marked/reset over identical loop nests; each RenderType and permutation constructor type dispatches to the documented function; permutation apply/inverse/concat forms are dual; unsigned length arithmetic cannot underflow; the greedy colouring tests the mask filled from the node's own list; Cuthill-McKee enters and marks every node once and every root option finds a root whenever a node is left; sort_indices sorts exactly each adjacency segment; Graph serialise/deserialise agree.",
    note="Trusted: clang front end, featx facts, lib/ikinds.py; assumptions (node-to-node graphs for colouring/ordering, parameter docs for permutation sizes) listed in the evidence. Not decided: that a colouring is proper or an ordering bijective as values, the cycle tracing in calc_swap_from_perm, value-dependent totals, sorting stability.",
    design="§4 C19"),
 "C08": dict(
    technique="index-kind and triangularity rules on the sweep loops, sympy (non-commutative for blocks) normal forms of the row updates and of init_numeric+apply as linear operators, CFG must-pass rules (filter_cor follows, output defined, input const), freshness typestate for members derived from matrix values",
    text="Decides for all matrices, vectors, omega and init/apply histories: SOR/SSOR sweeps (CSR and BCSR) are triangular with the diagonal read at the stopping position and equal the textbook row update; SSOR is scaled once by omega(2-omega) and SOR not; Jacobi/Scale/Diagonal/Matrix/Polynomial apply equal their operator formulas symbolically; ILU solve loops and init order are right; every normal exit of apply is preceded by filter_cor on the output, the input is never written, the output is defined on every path; every member derived from matrix values is rewritten on every path through init_numeric, init_symbolic reads structure only; all documented factory overloads instantiate.",
    note="Trusted: clang front end, featx facts, lib/pcmodel.py, lib/pcsym.py, sympy. Not decided: bodies of the ILU factorisation, solve_ilt/dut, Schwarz/Uzawa/Vanka/AmaVanka, CUDA/MKL back ends, numerical equality with dense solves.",
    design="§4 C08"),
 "C09": dict(
    technique="regular-language equality between the event language of the cycle functions' CFGs and the documented cycle expressions, role resolution of level operands by member/parameter names, summary-based typestate (defect freshness, filter application, solution epochs) composed along the cycle CFGs symbolically in the level",
    text="Decides for any number of levels, any top/coarse range, every smoother-presence combination and both fixed/adaptive coarse-grid correction: the V/F/W cycle functions emit exactly the documented rest/coarse/prol/peak event language with the right level variable and flags and loop ranges; every level operation uses the vectors of the right level and role; the defect equals rhs - A sol (fresh) at every smoother input, restriction and step-length product; every defect is filter_def-ed and every prolongated correction filter_cor-ed before use, the coarse rhs is filtered with the coarse filter; level solutions are restarted exactly when their rhs is new; missing smoothers fall back as documented; the result is handed over on every normal exit and the input defect is const; adaptive step lengths use the documented inner products.",
    note="Trusted: clang front end, featx facts, lib/mgfacts.py, mgmodel.py, mgflow.py, the cycle expressions transcribed from multigrid.dox/function comments. Not decided: that the W-cycle counter walk visits peak levels in ruler order (data-dependent loop; freshness is proven for arbitrary peak orders instead), equality with a reference cycle as a linear map, convergence rates.",
    design="§4 C09"),
 "C10": dict(
    category="other",
    technique="symbolic extraction of the refinement templates / orientation tables from the clang facts (one symbolic iteration of the loop over coarse entities, constant loops unrolled) and a complete finite case analysis on the reference cell of each shape for every admissible orientation code",
    text="Refinement is cell-local and table-driven, so conformity of every refined mesh reduces to a finite case analysis on the reference cell: for all six shapes and all 20 index-refiner templates every output slot is assigned exactly once with offset + children*parent + child of the matching origin dimension; for every fine cell, local face and every orientation combination (1749 evaluated) the fine face entity referenced has exactly the vertices of that local face; interior facets are referenced twice, boundary facets once; no orphan entities; child orientation and volume add up on the reference cell; the Euler alternating sum per cell is preserved; entity counters/offsets agree; the congruency sampler returns code o exactly for permutation row o and the edge/face tables are induced correctly; new vertices are parent means; mesh-part target refiners use the same child numbering as the index refiners.",
    note="Trusted: clang front end, featx facts, lib/refine_tables.py (symbolic evaluator). Induction step only: 'coarse mesh consistent => fine mesh consistent'. Not decided: 3D-cell mesh parts (not implemented upstream), structured meshes, attribute refinement, BoundaryFactory/FacetNeighbors/IndexCalculator/MeshPermutation, chart adaptation, positivity on non-affine cells.",
    design="§4 C10"),
 "C12": dict(
    technique="index-kind checking (patch entity / base entity / rank / element spaces) and coverage/guard rules over the clang facts of the patch and partitioner code",
    text="Deliberately narrow: decides that the patch/halo factories never confuse patch, base-mesh, rank and element index spaces (lookups take base indices, target sets map patch to base, rank graphs are indexed by element), composite graph renders in extract_patch compose matching spaces, halo index lists are produced by a single ascending push (the precondition of the halo intersection), Parti2Lvl defines ptr on [0,ranks] and idx as the identity and sets success only after the count check, PartiIterative's sender/receiver broadcast identical counts. These are necessary conditions of 'each cell once / halos agree'; halo set equality between ranks and neighbour symmetry/completeness are runtime facts and are NOT decided.",
    note="Trusted: clang front end, featx facts, lib/ikinds.py, documented parameter roles (tsh, ish, ranks_at_elem, pim, tsf) listed as assumptions. Not decided: equality of the two halos of neighbouring ranks, neighbour symmetry/completeness, survival under refinement, std::map based splitters, genetic partitioner quality.",
    design="§4 C12"),
 "C17": dict(
    technique="concurrency discipline rules over the clang CFGs: guarded-by and lock-held-at-call, per-role fence event sequences matched by a happens-before graph, CFG dominance/post-dominance for the layered handshake, sympy range-partition identities, abstract dispatch contexts checked against the targets' own assertions",
    text="Decides for all schedules, worker counts and strategies the structural conditions of race-freedom/termination: ThreadFence state is only accessed under its mutex, wait re-tests its predicate, open sets state before notifying; combine() runs only with the shared mutex held; in the layered strategy the wait on the next thread's fence dominates scatter at the wait position and the own fence is opened only after scatter at the open position; every wait result is tested; the coloured master/worker protocols match per round (every wait has an open in the other role, no stale or erased open, acyclic); worker element ranges partition [0,size); every dispatch target's assertions hold in every (id, n, strategy) context reachable from the two construction sites; unsigned worker-count arithmetic cannot wrap; all threads are joined on every exit and fences are closed before threads start.",
    note="Trusted: clang front end, featx facts, sympy. Not decided: adjacency-freedom of colours/layers (runtime output of Coloring/_build_layers), >=2 layers per thread, equality with the serial result.",
    design="§4 C17"),
 "C18": dict(
    technique="role agreement and method-parity rules, a CFG typestate for 'restriction = transpose of the stored prolongation after its last modification', weight-vector protocol rules and index-kind rules on the GridTransfer child-cell loops",
    text="Decides for all meshes, elements and vectors: LAFEM::Transfer prol/rest/trunc apply the same-kind matrix with (result, input) in the right order and Global::Transfer delegates with parity, buffers and sync; at every transfer construction site (4 asm entry points, Stokes variants, composites, tutorial) the stored restriction is the transpose of the stored prolongation taken after its last modification on every path; weights are assembled, synchronised, inverted exactly once, then applied; in GridTransfer the fine cell comes from CoarseFineCellMapping(coarse, child) with the right permutation lookups, local matrices are M^-1 N in that order, scattered with (fine rows, coarse columns), one weight scatter per projection.",
    note="Trusted: clang front end, featx facts, lib/dfl.py. Not decided: exactness on the coarse space, T P = I, numerical agreement of assembled and matrix-free routes, intermesh transfers.",
    design="§4 C18"),
 "C02": dict(
    technique="custom static rules over the clang-resolved program: role agreement of the _scalar_index slots and result-constructor arguments (swapped in transposing context on every exit), perspective coherence, polynomial equality of allocated array extents, decision-table extraction of Container::clone / Container::assign against the documented CloneMode table",
    text="Decides for all matrices and chains of operations the structural part of 'dimensions and layout are carried over': every fill of a container's scalar slots in convert/transpose/permute/layout constructors receives the source quantity of the same role (rows<->columns swapped when transposing) on every exit, with all quantities of one fill in one perspective; arrays handed to result constructors were allocated with rows+1 resp. nnz x block extents; array pushes are paired with equal size pushes; Container::clone aliases/copies exactly as the CloneMode documentation says (incl. copy extents); same-type convert shares and cross-type convert copies.",
    note="Trusted: clang front end, featx facts, the abstract interpreter in lib/lafem_rules.py, the role tables derived from the classes' own accessors. Not decided: value equality after chains, kind-correctness/coverage of the conversion loops and of the transpose counting sort, sortedness of produced column indices.",
    design="§4 C02"),
 "C20": dict(
    technique="ownership typestate analysis (abstract interpretation over all CFG paths of every lifetime function of Container, SparseLayout and the derived classes) + protocol rules on MemoryPool",
    text="Decides for every history of lifetime operations the per-function obligations whose conjunction is the reference-count discipline: pointer vectors are overwritten/cleared only when nothing is owned (release loops first, under !_foreign_memory where foreign memory is possible); release and increase loops range over the vector whose slots they pass; every pointer entering _elements/_indices is a fresh allocation, a counted copy, or foreign with the flag set; every object is left consistent with its flag at every exit; destructors release; array pushes are paired with same-extent size pushes; MemoryPool's release/increase/allocate/finalize follow the counter protocol and treat the nullptr of zero-length arrays consistently.",
    note="Trusted: clang front end, featx facts, the interpreter in lib/lafem_rules.py. Assumed: a moved-from std::vector is empty. Not decided: writes through shared index arrays (design clause 5), heap bounds of index-driven accesses, self-move/self-convert aliasing, CUDA/MKL allocation paths.",
    design="§4 C20"),
 "C07": dict(
    technique="CFG path rules and abstract interpretation of Status values, decision-table extraction of the stopping predicates compared with an oracle transcribed from the documentation (anchor-checked), role rules for setters/getters/config keys, units-of-measure inference on the recurrences",
    text="Decides for all systems, tolerances, start vectors and call histories the structural part of 'status is reported truthfully': in all 16 solvers no returned status is invented (each terminal status is control-dependent on its cause; defect-update results are never overwritten; every preconditioner result is tested; each loop trip updates the defect; _set_initial_defect precedes the loop on every path), apply() ignores and correct() honours the start vector, the rhs is never modified, is_converged/is_diverged/_analyse_defect/_set_initial_defect equal the documented criteria on every CFG path and are monotone in the defect, _num_iter is counted once per update, status_success maps exactly {success,max_iter,stagnated} to true, setters/getters/config keys reach the like-named fields, and 12 recurrences are dimensionally consistent.",
    note="Trusted: clang front end, featx facts, oracle tables transcribed from 29 doc anchors in iterative.hpp/base.hpp (a changed anchor text gives exit 2), lib/c07_dim.py. Assumed: virtual calls resolve to the statically named callee; comparisons over a total order. Not decided: numerical attainment of the tolerance, convergence, equality of repeated solves, sign/dimensionless-factor errors, E6 for GMRES/FGMRES/IDRS/BiCGStabL.",
    design="§4 C07"),
 "C03": dict(
    technique="custom static rules over the clang-resolved program: slot/accessor role agreement at Arch call sites, index-kind checking of matrix kernels and merge loops (equalities only from the functions' own XASSERTs), CFG control-dependence rule for the no-silent-drop clause",
    text="Decides for all operands, scalars and patterns: every Arch::{ScaleRows,ScaleCols,Lumping,Diagonal,RowNorm,Axpy,Scale,...} call site passes the like-named accessor of the right object, the vector operand is guarded against rows resp. columns according to the index kind the kernel uses, wrappers forward to the right generic kernel, the row kernels loop rows x [row_ptr[i],row_ptr[i+1]) with kind-correct subscripts and the documented per-entry term, every subscript in the five sorted-merge products is of the kind its array expects, and in the merge loops an entry of the product outside the output pattern can only be skipped on the true edge of allow_incomplete - every other way out reaches the abort (required-pattern violations are never silent).",
    note="Trusted: clang front end, featx facts, accessor/kind tables in checks/c03.py and lib/lafem_roles.py. Not decided: numerical equality with dense formulas, dimension typing of scalars (E6), ProductMatMat of DenseMatrix, shrink, sortedness of input column indices (input contract).",
    design="§4 C03"),
 "C04": dict(
    technique="sympy normal-form agreement of alias-specialised kernel branches with the general branch, loop/index-kind rules on the kernels, role and perspective agreement at call sites, MAP/FOLD recursion-scheme conformance of Tuple/PowerVector - all over clang facts",
    text="Decides for all lengths, block sizes, compositions and aliasing patterns: each alias-specialised branch (r==x, x==y, x==z, y==z, ...) of the axpy/dot/triple-dot/component-product/invert/scale kernels equals the general branch under the aliasing condition and the general branch equals the documented element-wise formula (sympy); every kernel is one loop over [0,size) (times the block size) subscripting every operand by the loop variable; reductions start neutral and only accumulate; min/max index kernels compare and store the same candidate with the right seed; call sites pass receiver/operands/scalars in the right slots with extents in the same perspective as the arrays (size for dense, used_elements for sparse); meta vectors apply the same method to matching parts with the right combiner.",
    note="Trusted: clang front end, featx facts, sympy, tables in checks/c04.py / lib/lafem_roles.py. Not decided: floating-point values, min/max of empty vectors, MKL/CUDA back ends.",
    design="§4 C04"),
 "C01": dict(
    technique="custom static rules over the clang-resolved program: instantiability (front-end errors), argument-role agreement at Arch::Apply call sites by callee parameter names, CFG path rules on early-outs, const/alias discipline, block-recursion scheme conformance of meta matrices, index-kind check of the generic kernels",
    text="Decides structural necessary conditions of the matvec property for every apply/apply_transposed overload of the 13 matrix container templates (128 overloads, 36 kernel call sites, 9 kernels): each overload type-checks; every kernel slot receives the like-named accessor of the right operand with the (a,b,y) convention and transposed flag of its method; dimension guards state the same role assignment; every normal exit defines r (early-outs format resp. copy y); b/a kernels unreachable for |alpha|<eps; inputs are never written (const, casts, range views); meta matrices apply each block exactly once to the matching sub-vectors with method parity, define-then-accumulate and consistent range offsets; kernels index r by row kind and x by column kind and initialise r over the right extent. These hold for all sizes, patterns and scalars because they are properties of the code shape; numerical equality with the dense product is not decided.",
    note="Trusted: clang front end, featx facts, the role/accessor tables in checks/c01.py (filled from the callee parameter names and accessor names of the repository). Not decided: rounding, sign/constant-factor errors inside a kernel that keep index kinds, banded offset arithmetic, MKL/CUDA back ends, template arguments outside the driver set (tu/c01_apply.cpp).",
    design="§4 C01, §10"),
 "C06": dict(
    technique="symbolic store/event summaries of filter kernels and filter methods extracted from the clang facts (guarded stores, truth tables over guard atoms), role tables by callee parameter names, sympy identities for the slip projection",
    text="Decides, for all vector sizes, index sets, values and block sizes: filter kernels write only constrained positions/rows of the same matrix (footprint) and cover them; rhs/sol reach value-imposing and def/cor zero-imposing kernels exactly once on every path with something to filter, with the filter's own sparse vector in the right slots; stores do not read what they write (idempotence by form); the slip kernels are proved (sympy, block sizes 2 and 3) to remove the normal component, to be idempotent and to change v only along n; unit filter_mat leaves exactly the identity row; mean filters use dual/primal vectors on the documented sides with factor c - D/volume; every composition (chain, sequence, tuple, power, global) applies the same method to every component on the matching sub-vector exactly once in order.",
    note="Trusted: clang front end, featx facts, the symbolic executor in checks/c06.py. Assumed: index sets without duplicates; <prim,dual> == _volume where the volume is a constructor argument. Not decided: rounding of the mean filter, rows without stored diagonal, filter assembly (which entries are constrained), CUDA/MKL kernels.",
    design="§4 C06"),
 "C14": dict(
    technique="static constant propagation over the clang AST of the cubature drivers/factories + exact algebraic identities on the extracted tables",
    text="Every rule name x point count the cubature factories can create is enumerated completely; its weight/point table is extracted from the source by constant folding (no FEAT3 code is run) and checked for completeness, weight sum, exactness on all monomials up to the nominal degree, product structure, refine:* degree preservation, auto-degree mapping and refusal of out-of-range/unknown names. The property is a statement about constants in the source, so this is a complete decision for the enumerated rules.",
    note="Trusted: clang front end, featx fact extraction, the constant folder (lib/cfold.py), nominal degree laws listed in the evidence assumptions; decimal literals are trusted to 4 units of their last printed digit. Big product rules (n^3 > 1000) are folded only in the thorough tier.",
    design="§4 C14"),
}

NOT_APPLICABLE = {
}

def main():
    props = [json.loads(l) for l in open(os.path.join(HERE, "properties.jsonl"))]
    checks = []
    for p in props:
        pid = p["id"]
        if pid not in CHECKS:
            continue
        c = CHECKS[pid]
        checks.append({
            "property_id": pid,
            "quick_cmd": "./check %s --tier quick" % pid,
            "thorough_cmd": "./check %s --tier thorough" % pid,
            "evidence_file": "evidence/%s.json" % pid,
            "replay_cmd_template": "./check %s --replay {path}" % pid,
            "engine": "featx+rules",
            "level_claimed": {"category": c.get("category", "other"), "text": c["text"], "design_ref": c["design"]},
            "level_note": c["note"],
            "technique": c["technique"],
        })
    na = []
    for p in props:
        pid = p["id"]
        if pid in CHECKS:
            continue
        na.append({"property_id": pid, "reason": NOT_APPLICABLE.get(pid, "check not built yet in this round (static rules planned in DESIGN.md §4); nothing is claimed for this property")})
    man = {
        "version": 1,
        "setup_cmd": "make -C fe",
        "hooks": {
            "guard": "FEAT3_VERIF",
            "enable": "no hooks: the checks parse /repo's sources with clang and need no instrumentation",
            "baseline_off_cmd": "cmake --build /repo/_build -j16 && ctest --test-dir /repo/_build -j8 --timeout 900",
            "source_commits": [],
            "add_only": True,
        },
        "engines": [
            {"name": "featx", "path": "fe/featx.cpp", "serves_properties": sorted(CHECKS), "kind_free_text": "clang-14 frontend plugin: resolved typed statement trees + CFG of (instantiated) functions as JSON facts"},
            {"name": "rules", "path": "checks/", "serves_properties": sorted(CHECKS), "kind_free_text": "repository-specific static rules (Python) over the fact base: role agreement, index kinds, recursion schemes, path rules, table algebra"},
        ],
        "checks": checks,
        "not_applicable": na,
        "notes": "Static analysis only: every verdict is computed from /repo's current source via the clang front end. exit 0 held / 1 VIOLATION / 2 analysis broken (never on the pinned tree). known_findings.json lists repaired and unrepaired genuine defects.",
    }
    with open(os.path.join(HERE, "MANIFEST.json"), "w") as f:
        json.dump(man, f, indent=1)
        f.write("\n")

if __name__ == "__main__":
    main()
