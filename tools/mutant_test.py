#!/usr/bin/env python3
"""tools/mutant_test.py <Cxx> <patch.diff> [--tier quick]  — checker self-test helper.

Copies /repo's sources to a scratch directory (never touches /repo), applies the patch there, runs
`./check Cxx` against the scratch tree (FEAT_REPO), prints exit code and report lines, removes the
scratch copy.  Evidence and violation files of such runs go to the scratch directory, not /verif."""
import os, shutil, subprocess, sys, tempfile
HERE = os.path.dirname(os.path.dirname(os.path.abspath(__file__)))
DIRS = ["kernel", "control", "applications", "tutorials", "tools", "area51", "benchmarks", "test_system", "doxy_in"]

def main():
    pid, patch = sys.argv[1], os.path.abspath(sys.argv[2])
    tier = sys.argv[sys.argv.index("--tier") + 1] if "--tier" in sys.argv else "quick"
    scratch = tempfile.mkdtemp(prefix="verif-mut-")
    try:
        for d in DIRS:
            src = os.path.join("/repo", d)
            if os.path.isdir(src):
                subprocess.run(["rsync", "-a", "--exclude", "*.xml", "--exclude", "*.mtx", "--exclude", "*.png", src, scratch + "/"], check=True)
        os.makedirs(os.path.join(scratch, "_build"), exist_ok=True)
        cfg = "/repo/_build/feat_config.hpp"
        shutil.copy(cfg if os.path.exists(cfg) else os.path.join(HERE, "fe/cfg/feat_config.hpp"), os.path.join(scratch, "_build"))
        if os.path.getsize(patch) > 0:
            r = subprocess.run(["patch", "-p1", "-s", "-d", scratch, "-i", patch], capture_output=True, text=True)
            if r.returncode != 0:
                print("PATCH-FAILED", r.stdout, r.stderr)
                return 3
        env = dict(os.environ, FEAT_REPO=scratch, VERIF_OUT=os.path.join(scratch, "_out"), VERIF_EVIDENCE_DIR=os.path.join(scratch, "_ev"))
        p = subprocess.run([os.path.join(HERE, "check"), pid, "--tier", tier], env=env, capture_output=True, text=True)
        out = p.stdout.replace(scratch, "<scratch>")
        print(out[-6000:])
        if p.stderr.strip():
            print("STDERR:", p.stderr[-2000:])
        print("EXIT", p.returncode)
        return p.returncode
    finally:
        shutil.rmtree(scratch, ignore_errors=True)

if __name__ == "__main__":
    sys.exit(main())
