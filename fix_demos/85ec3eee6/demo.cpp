// Demo: MeshPart::deduct_topology() must work for a mesh part that has no topology yet.
//
// exit 0  = correct behaviour (the part gets a topology consistent with its target sets)
// exit !0 = defect manifests (crash inside deduct_topology / no or inconsistent topology)
#include <kernel/base_header.hpp>
#include <kernel/runtime.hpp>
#include <kernel/geometry/conformal_mesh.hpp>
#include <kernel/geometry/mesh_part.hpp>
#include <kernel/geometry/common_factories.hpp>
#include <kernel/geometry/boundary_factory.hpp>

#include <cstdio>
#include <cstdlib>
#include <cstring>
#include <unistd.h>
#include <sys/types.h>
#include <sys/wait.h>

using namespace FEAT;
using namespace FEAT::Geometry;

typedef ConformalMesh<Shape::Quadrilateral> MeshType;
typedef MeshPart<MeshType> PartType;

// checks that each part edge's two vertices map to the two vertices of the mesh edge it targets
static int check_part(const MeshType& mesh, const PartType& part)
{
  if(!part.has_topology())
  {
    std::printf("      part has no topology after deduct_topology()\n");
    return 2;
  }
  const auto& trg_v = part.get_target_set<0>();
  const auto& trg_e = part.get_target_set<1>();
  const auto& part_ve = part.get_index_set<1, 0>();
  const auto& mesh_ve = mesh.get_index_set<1, 0>();
  if(part_ve.get_num_entities() != trg_e.get_num_entities())
  {
    std::printf("      topology has %u edges, target set has %u\n",
      unsigned(part_ve.get_num_entities()), unsigned(trg_e.get_num_entities()));
    return 3;
  }
  int bad = 0;
  for(Index e(0); e < trg_e.get_num_entities(); ++e)
  {
    for(int j(0); j < 2; ++j)
    {
      const Index pv = part_ve[e][j];
      if((pv >= trg_v.get_num_entities()) || (trg_v[pv] != mesh_ve[trg_e[e]][j]))
      {
        std::printf("      part edge %u local vertex %i: part vertex %u does not map to mesh vertex %u\n",
          unsigned(e), j, unsigned(pv), unsigned(mesh_ve[trg_e[e]][j]));
        ++bad;
      }
    }
  }
  return bad == 0 ? 0 : 4;
}

// case 0: boundary part without a topology (as created by BoundaryFactory)
// case 1: part that already has a (zero-filled, i.e. wrong) topology -> must be replaced
static int run_case(int which)
{
  RefinedUnitCubeFactory<MeshType> mesh_factory(1);
  MeshType mesh(mesh_factory);
  BoundaryFactory<MeshType> bnd_factory(mesh);
  PartType bnd(bnd_factory);

  if(which == 0)
  {
    if(bnd.has_topology())
      return 10; // unexpected: demo premise broken
    bnd.deduct_topology(mesh.get_index_set_holder());
    return check_part(mesh, bnd);
  }
  else
  {
    Index ne[3] = {bnd.get_num_entities(0), bnd.get_num_entities(1), bnd.get_num_entities(2)};
    PartType part(ne, true);
    for(Index i(0); i < ne[0]; ++i)
      part.get_target_set<0>()[i] = bnd.get_target_set<0>()[i];
    for(Index i(0); i < ne[1]; ++i)
      part.get_target_set<1>()[i] = bnd.get_target_set<1>()[i];
    // pre-fill the existing topology with garbage
    auto& ve = part.get_index_set<1, 0>();
    for(Index i(0); i < ne[1]; ++i)
      ve[i][0] = ve[i][1] = Index(0);
    part.deduct_topology(mesh.get_index_set_holder());
    return check_part(mesh, part);
  }
}

static bool run_forked(int which, const char* what)
{
  fflush(stdout);
  fflush(stderr);
  pid_t pid = fork();
  if(pid == 0)
  {
    int rc = run_case(which);
    fflush(stdout);
    _exit(rc);
  }
  int status = 0;
  waitpid(pid, &status, 0);
  if(WIFSIGNALED(status))
  {
    std::printf("FAIL: %s: child killed by signal %i (%s) inside deduct_topology()\n", what,
      WTERMSIG(status), strsignal(WTERMSIG(status)));
    return false;
  }
  if(WIFEXITED(status) && (WEXITSTATUS(status) == 0))
  {
    std::printf("ok  : %s: topology created, edge vertices consistent with the target sets\n", what);
    return true;
  }
  std::printf("FAIL: %s: child exit code %i\n", what, WIFEXITED(status) ? WEXITSTATUS(status) : -1);
  return false;
}

int main(int argc, char** argv)
{
  Runtime::ScopeGuard guard(argc, argv);
  int fails = 0;
  if(!run_forked(0, "boundary part without topology")) ++fails;
  if(!run_forked(1, "part with an existing (garbage) topology")) ++fails;
  std::printf("%s (%d failed checks)\n", fails == 0 ? "PASS" : "DEFECT", fails);
  return fails == 0 ? 0 : 1;
}
