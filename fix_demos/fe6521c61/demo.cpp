// Demo: GridTransfer::transfer_intermesh_vector(_direct) must give the same result as
// applying the inter-mesh transfer matrix (assemble_intermesh_transfer_direct) to the vector.
// Nested Q1 quad meshes 4x4 -> 8x8, so the result must also equal the 2-level prolongation.
#include <kernel/assembly/grid_transfer.hpp>
#include <kernel/assembly/symbolic_assembler.hpp>
#include <kernel/geometry/common_factories.hpp>
#include <kernel/geometry/conformal_mesh.hpp>
#include <kernel/lafem/sparse_matrix_csr.hpp>
#include <kernel/lafem/dense_vector.hpp>
#include <kernel/space/lagrange1/element.hpp>
#include <kernel/trafo/standard/mapping.hpp>
#include <kernel/util/math.hpp>
#include <iostream>

using namespace FEAT;

int main()
{
  typedef double DT;
  typedef Index IT;
  typedef LAFEM::SparseMatrixCSR<DT, IT> MatrixType;
  typedef LAFEM::DenseVector<DT, IT> VectorType;
  typedef Geometry::ConformalMesh<Shape::Quadrilateral> MeshType;
  typedef Trafo::Standard::Mapping<MeshType> TrafoType;
  typedef Space::Lagrange1::Element<TrafoType> SpaceType;

  // coarse mesh 4x4, fine mesh 8x8
  Geometry::RefinedUnitCubeFactory<MeshType> coarse_factory(2);
  MeshType mesh_c(coarse_factory);
  Geometry::StandardRefinery<MeshType> refine_factory(mesh_c);
  MeshType mesh_f(refine_factory);

  Geometry::Intern::CoarseFineCellMapping<MeshType> c2f_map(mesh_f, mesh_c);
  Adjacency::Graph f2c_map(Adjacency::RenderType::transpose_sorted, c2f_map);

  TrafoType trafo_c(mesh_c), trafo_f(mesh_f);
  SpaceType space_c(trafo_c), space_f(trafo_f);

  const String cubature_name("gauss-legendre:2");

  // reference 1: 2-level prolongation matrix
  MatrixType matrix_p;
  Assembly::SymbolicAssembler::assemble_matrix_2lvl(matrix_p, space_f, space_c);
  matrix_p.format();
  Assembly::GridTransfer::assemble_prolongation_direct(matrix_p, space_f, space_c, cubature_name);

  // reference 2: inter-mesh transfer matrix
  MatrixType matrix_t;
  Assembly::SymbolicAssembler::assemble_matrix_intermesh(matrix_t, space_f, space_c, c2f_map);
  matrix_t.format();
  int nfail_m = Assembly::GridTransfer::assemble_intermesh_transfer_direct(matrix_t, space_f, space_c, f2c_map, cubature_name);

  // source vector: x_i = 1 + i
  VectorType vec_c(space_c.get_num_dofs());
  for(Index i(0); i < vec_c.size(); ++i)
    vec_c(i, DT(1) + DT(i));

  VectorType ref_p(space_f.get_num_dofs()), ref_t(space_f.get_num_dofs());
  matrix_p.apply(ref_p, vec_c);
  matrix_t.apply(ref_t, vec_c);

  // candidate: direct inter-mesh vector transfer
  VectorType vec_f(space_f.get_num_dofs());
  vec_f.format();
  int nfail_v = Assembly::GridTransfer::transfer_intermesh_vector_direct(vec_f, vec_c, space_f, space_c, f2c_map, cubature_name);

  DT err_p(0), err_t(0), err_ref(0);
  for(Index i(0); i < vec_f.size(); ++i)
  {
    err_p = Math::max(err_p, Math::abs(vec_f(i) - ref_p(i)));
    err_t = Math::max(err_t, Math::abs(vec_f(i) - ref_t(i)));
    err_ref = Math::max(err_ref, Math::abs(ref_p(i) - ref_t(i)));
  }

  std::cout << "failed points: matrix " << nfail_m << ", vector " << nfail_v << std::endl;
  std::cout << "max |P*x - T*x|                               = " << err_ref << std::endl;
  std::cout << "max |transfer_intermesh_vector_direct - P*x|  = " << err_p << std::endl;
  std::cout << "max |transfer_intermesh_vector_direct - T*x|  = " << err_t << std::endl;

  const DT tol = 1E-12;
  if((nfail_m != 0) || (nfail_v != 0) || (err_ref > tol))
  {
    std::cout << "UNEXPECTED: reference data inconsistent" << std::endl;
    return 2;
  }
  if(!(err_p <= tol) || !(err_t <= tol))
  {
    std::cout << "DEFECT: vector transfer differs from transfer matrix applied to vector" << std::endl;
    return 1;
  }
  std::cout << "OK" << std::endl;
  return 0;
}
