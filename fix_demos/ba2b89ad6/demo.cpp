// PipePCG must report the defect of the current iterate: the first defect handed to the
// stopping criteria may not be the (re-measured) initial defect.
// Symptoms: one iteration more than PCG/GroppPCG, and with stagnation control
// (min_stag_iter = 1, stag_rate = 0.9) the run ends 'stagnated' at iteration 1 with def_final == def_init.
// PipePCG needs global vectors (dot_async); we use a serial gate without neighbours.
#include <kernel/base_header.hpp>
#include <kernel/runtime.hpp>
#include <kernel/util/dist.hpp>
#include <kernel/lafem/pointstar_factory.hpp>
#include <kernel/lafem/sparse_matrix_csr.hpp>
#include <kernel/lafem/dense_vector.hpp>
#include <kernel/lafem/none_filter.hpp>
#include <kernel/lafem/vector_mirror.hpp>
#include <kernel/global/gate.hpp>
#include <kernel/global/vector.hpp>
#include <kernel/global/matrix.hpp>
#include <kernel/global/filter.hpp>
#include <kernel/solver/pcg.hpp>
#include <kernel/solver/gropppcg.hpp>
#include <kernel/solver/pipepcg.hpp>
#include <iostream>
#include <cmath>

using namespace FEAT;
typedef double DT;
typedef Index IT;
typedef LAFEM::SparseMatrixCSR<DT, IT> LocalMatrix;
typedef LAFEM::DenseVector<DT, IT> LocalVector;
typedef LAFEM::NoneFilter<DT, IT> LocalFilter;
typedef LAFEM::VectorMirror<DT, IT> Mirror;
typedef Global::Gate<LocalVector, Mirror> GateType;
typedef Global::Matrix<LocalMatrix, Mirror, Mirror> MatrixType;
typedef Global::Vector<LocalVector, Mirror> VectorType;
typedef Global::Filter<LocalFilter, Mirror> FilterType;

struct Result
{
  Solver::Status status;
  Index iters;
  DT def_init, def_final, true_res;
};

template<typename Solver_>
Result run(const char* name, Solver_& solver, const MatrixType& matrix, const VectorType& vec_rhs, bool stag)
{
  solver.set_tol_rel(1E-8);
  solver.set_max_iter(100);
  if(stag)
  {
    solver.set_min_stag_iter(1);
    solver.set_stag_rate(0.9);
  }
  solver.init();
  VectorType vec_sol(matrix.create_vector_r());
  vec_sol.format();
  Result r;
  r.status = solver.correct(vec_sol, vec_rhs);
  r.iters = solver.get_num_iter();
  r.def_init = solver.get_def_initial();
  r.def_final = solver.get_def_final();
  VectorType vec_res(matrix.create_vector_r());
  matrix.apply(vec_res, vec_sol, vec_rhs, -DT(1));
  r.true_res = vec_res.norm2();
  solver.done();
  std::cout << name << (stag ? " [stag] " : " [plain]") << ": status = " << r.status << ", iterations = " << r.iters
    << ", def_init = " << r.def_init << ", def_final = " << r.def_final << ", true residual = " << r.true_res << std::endl;
  return r;
}

int main(int argc, char** argv)
{
  Runtime::ScopeGuard guard(argc, argv);
  Dist::Comm comm(Dist::Comm::world());

  const Index m = 17;
  LAFEM::PointstarFactoryFD<DT, IT> psf(m, 2);
  LocalMatrix loc_mat(psf.matrix_csr());

  GateType gate(comm);
  gate.compile(loc_mat.create_vector_r());

  MatrixType matrix(&gate, &gate, loc_mat.clone());
  FilterType filter;

  // right hand side: three eigenmodes of the 5-point stencil (with three distinct eigenvalues)
  VectorType vec_rhs(matrix.create_vector_r());
  const double pi = 3.14159265358979323846, h = 1.0 / double(m + 1);
  for(Index j(0); j < m; ++j)
    for(Index i(0); i < m; ++i)
    {
      const double x = double(i+1)*h, y = double(j+1)*h;
      vec_rhs.local()(j*m + i, std::sin(pi*x)*std::sin(pi*y) + 0.5*std::sin(2*pi*x)*std::sin(pi*y) + 0.25*std::sin(3*pi*x)*std::sin(2*pi*y));
    }

  int rc = 0;
  for(int stag(0); stag < 2; ++stag)
  {
    auto pcg = Solver::new_pcg(matrix, filter);
    auto gropp = Solver::new_gropppcg(matrix, filter);
    auto pipe = Solver::new_pipepcg(matrix, filter);
    Result r_pcg = run("PCG     ", *pcg, matrix, vec_rhs, stag > 0);
    Result r_gro = run("GroppPCG", *gropp, matrix, vec_rhs, stag > 0);
    Result r_pip = run("PipePCG ", *pipe, matrix, vec_rhs, stag > 0);
    (void)r_gro;
    if(r_pip.status != Solver::Status::success)
    {
      std::cout << "DEFECT: PipePCG did not converge (status " << r_pip.status << ")" << std::endl;
      rc = 1;
    }
    if(r_pip.iters != r_pcg.iters)
    {
      std::cout << "DEFECT: PipePCG reports " << r_pip.iters << " iterations, PCG " << r_pcg.iters << std::endl;
      rc = 1;
    }
    if(std::abs(r_pip.def_final - r_pip.true_res) > 1E-6 * r_pip.def_init)
    {
      std::cout << "DEFECT: PipePCG final defect " << r_pip.def_final << " is not the residual of the returned iterate " << r_pip.true_res << std::endl;
      rc = 1;
    }
  }
  return rc;
}
