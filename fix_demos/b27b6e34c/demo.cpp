// BiCGStab must honour set_min_iter(): with min_iter = 60 the solver may not
// return 'success' before 60 iterations have been performed (PCG, same settings, performs 60).
#include <kernel/base_header.hpp>
#include <kernel/runtime.hpp>
#include <kernel/lafem/pointstar_factory.hpp>
#include <kernel/lafem/sparse_matrix_csr.hpp>
#include <kernel/lafem/dense_vector.hpp>
#include <kernel/lafem/none_filter.hpp>
#include <kernel/solver/bicgstab.hpp>
#include <kernel/solver/pcg.hpp>
#include <iostream>
#include <cmath>

using namespace FEAT;
typedef double DT;
typedef Index IT;
typedef LAFEM::SparseMatrixCSR<DT, IT> MatrixType;
typedef LAFEM::DenseVector<DT, IT> VectorType;
typedef LAFEM::NoneFilter<DT, IT> FilterType;

int main(int argc, char** argv)
{
  Runtime::ScopeGuard guard(argc, argv);
  const Index m = 17;
  LAFEM::PointstarFactoryFD<DT, IT> psf(m, 2);
  MatrixType matrix(psf.matrix_csr());
  FilterType filter;

  // smooth right hand side: three eigenmodes of the 5-point stencil
  VectorType vec_rhs(matrix.create_vector_r());
  const double pi = 3.14159265358979323846, h = 1.0 / double(m + 1);
  for(Index j(0); j < m; ++j)
    for(Index i(0); i < m; ++i)
    {
      const double x = double(i+1)*h, y = double(j+1)*h;
      vec_rhs(j*m + i, std::sin(pi*x)*std::sin(pi*y) + 0.5*std::sin(2*pi*x)*std::sin(pi*y) + 0.25*std::sin(3*pi*x)*std::sin(2*pi*y));
    }

  const Index min_iter = 60;
  int rc = 0;

  {
    auto solver = Solver::new_pcg(matrix, filter);
    solver->set_tol_rel(1E-8); solver->set_min_iter(min_iter); solver->set_max_iter(200);
    solver->init();
    VectorType vec_sol(matrix.create_vector_r()); vec_sol.format();
    Solver::Status st = solver->correct(vec_sol, vec_rhs);
    std::cout << "PCG     : status = " << st << ", iterations = " << solver->get_num_iter() << std::endl;
    solver->done();
  }
  {
    auto solver = Solver::new_bicgstab(matrix, filter);
    solver->set_tol_rel(1E-8); solver->set_min_iter(min_iter); solver->set_max_iter(200);
    solver->init();
    VectorType vec_sol(matrix.create_vector_r()); vec_sol.format();
    Solver::Status st = solver->correct(vec_sol, vec_rhs);
    const Index n = solver->get_num_iter();
    std::cout << "BiCGStab: status = " << st << ", iterations = " << n << " (min_iter = " << min_iter << ")" << std::endl;
    if((st == Solver::Status::success) && (n < min_iter))
    {
      std::cout << "DEFECT: BiCGStab returned success before min_iter iterations" << std::endl;
      rc = 1;
    }
    solver->done();
  }
  return rc;
}
