#!/bin/sh
# builds and runs the demo; exit 0 = correct behaviour, non-zero = defect manifests
set -e
D=$(cd "$(dirname "$0")" && pwd)
R=$(cd "$D/../.." && pwd)
B=$R/_build
L="$B/kernel/solver/libkernel-solver.a $B/kernel/lafem/libkernel-lafem.a $B/kernel/adjacency/libkernel-adjacency.a $B/kernel/lafem/arch/libkernel-lafem-arch.a $B/kernel/util/libkernel-util.a $B/kernel/libkernel-root.a $B/kernel/util/libkernel-util.a $B/kernel/libkernel-root.a"
g++ -std=c++17 -O1 -fopenmp -Wno-error -I"$B" -I"$R" "$D/demo.cpp" -o "$D/demo" $L
set +e
"$D/demo"
exit $?
