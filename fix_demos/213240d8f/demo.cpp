// RGCR recycles descent directions p with q = A p. After done_numeric(); <matrix values change>; init_numeric()
// the stored q are those of the OLD matrix and must not be reused.
#include <kernel/base_header.hpp>
#include <kernel/runtime.hpp>
#include <kernel/lafem/pointstar_factory.hpp>
#include <kernel/lafem/sparse_matrix_csr.hpp>
#include <kernel/lafem/dense_vector.hpp>
#include <kernel/lafem/none_filter.hpp>
#include <kernel/solver/rgcr.hpp>
#include <iostream>
#include <cmath>

using namespace FEAT;
typedef double DT;
typedef Index IT;
typedef LAFEM::SparseMatrixCSR<DT, IT> MatrixType;
typedef LAFEM::DenseVector<DT, IT> VectorType;
typedef LAFEM::NoneFilter<DT, IT> FilterType;

static DT true_residual(const MatrixType& matrix, const VectorType& vec_sol, const VectorType& vec_rhs)
{
  VectorType vec_res(matrix.create_vector_r());
  matrix.apply(vec_res, vec_sol, vec_rhs, -DT(1));
  return vec_res.norm2();
}

int main(int argc, char** argv)
{
  Runtime::ScopeGuard guard(argc, argv);
  const Index m = 9;
  LAFEM::PointstarFactoryFD<DT, IT> psf(m, 2);
  MatrixType matrix(psf.matrix_csr());
  FilterType filter;
  const Index n = matrix.rows();

  VectorType vec_rhs(matrix.create_vector_r());
  for(Index i(0); i < n; ++i)
    vec_rhs(i, DT(1) + DT(i % 7));

  auto solver = Solver::new_rgcr(matrix, filter);
  solver->set_tol_rel(1E-8);
  solver->set_max_iter(200);
  solver->init();

  // first solve with the original matrix
  VectorType vec_sol(matrix.create_vector_r());
  vec_sol.format();
  Solver::Status st1 = solver->correct(vec_sol, vec_rhs);
  std::cout << "solve 1 (A)       : status = " << st1 << ", iterations = " << solver->get_num_iter()
    << ", reported defect = " << solver->get_def_final() << ", true residual = " << true_residual(matrix, vec_sol, vec_rhs) << std::endl;

  // numerical re-factorisation cycle: the matrix values change in place, the layout stays
  solver->done_numeric();
  {
    DT* val = matrix.val();
    const IT* row_ptr = matrix.row_ptr();
    const IT* col_ind = matrix.col_ind();
    for(Index i(0); i < n; ++i)
      for(IT k(row_ptr[i]); k < row_ptr[i+1]; ++k)
        val[k] = DT(3) * val[k] + (col_ind[k] == i ? DT(10) + DT(i) : DT(0));
  }
  solver->init_numeric();

  // second solve with the new matrix on the same solver object
  vec_sol.format();
  Solver::Status st2 = solver->correct(vec_sol, vec_rhs);
  const DT rep2 = solver->get_def_final();
  const DT res2 = true_residual(matrix, vec_sol, vec_rhs);
  std::cout << "solve 2 (A' reuse): status = " << st2 << ", iterations = " << solver->get_num_iter()
    << ", reported defect = " << rep2 << ", true residual = " << res2 << std::endl;
  solver->done();

  // reference: fresh solver object on the new matrix
  {
    auto fresh = Solver::new_rgcr(matrix, filter);
    fresh->set_tol_rel(1E-8);
    fresh->set_max_iter(200);
    fresh->init();
    VectorType vec_ref(matrix.create_vector_r());
    vec_ref.format();
    Solver::Status st3 = fresh->correct(vec_ref, vec_rhs);
    std::cout << "solve 3 (A' fresh): status = " << st3 << ", iterations = " << fresh->get_num_iter()
      << ", reported defect = " << fresh->get_def_final() << ", true residual = " << true_residual(matrix, vec_ref, vec_rhs) << std::endl;
    fresh->done();
  }

  if((st2 == Solver::Status::success) && (res2 > DT(1E-6) * vec_rhs.norm2()))
  {
    std::cout << "DEFECT: RGCR reports success (defect " << rep2 << ") but the true residual is " << res2 << std::endl;
    return 1;
  }
  if(st2 != Solver::Status::success)
  {
    std::cout << "DEFECT: second solve failed with status " << st2 << std::endl;
    return 1;
  }
  return 0;
}
