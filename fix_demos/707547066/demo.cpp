// Demo: Cubature::DynamicFactory::create must refuse malformed rule names whose second-to-last
// ':'-separated part is empty (":", "::", "x::1", "auto-degree::3", ...) instead of calling
// front() on an empty deque in AutoAlias<Shape_>::map().
//
// This demo is compiled with -D_GLIBCXX_ASSERTIONS, so front() on an empty deque aborts.
//
// exit 0  = correct behaviour (malformed names refused, valid names still work)
// exit !0 = defect manifests (the child process creating the rule is killed)
#include <kernel/base_header.hpp>
#include <kernel/shape.hpp>
#include <kernel/util/string.hpp>
#include <kernel/cubature/rule.hpp>
#include <kernel/cubature/dynamic_factory.hpp>

#include <cstdio>
#include <cstdlib>
#include <cstring>
#include <unistd.h>
#include <sys/types.h>
#include <sys/wait.h>

using namespace FEAT;

// outcome of one create call, executed in a forked child
//  0 = create returned false and create_throw threw UnknownRule (name refused)
//  1 = create returned true (rule created)
// -1 = child was killed by a signal / exited abnormally
// -2 = create and create_throw disagree
template<typename Shape_>
static int try_create(const char* name, int expected_points)
{
  fflush(stdout);
  fflush(stderr);
  pid_t pid = fork();
  if(pid == 0)
  {
    // silence the assertion message of the child
    if(freopen("/dev/null", "w", stderr) == nullptr) {}
    Cubature::Rule<Shape_> rule;
    const bool okay = Cubature::DynamicFactory::create(rule, String(name));

    // the documented throwing variant must agree
    bool thrown = false;
    try
    {
      Cubature::Rule<Shape_> rule2;
      Cubature::DynamicFactory(String(name)).create_throw(rule2);
    }
    catch(const Cubature::UnknownRule&)
    {
      thrown = true;
    }
    if(okay == thrown)
      _exit(12);
    if(okay && (expected_points > 0) && (rule.get_num_points() != expected_points))
      _exit(13);
    _exit(okay ? 11 : 10);
  }
  int status = 0;
  waitpid(pid, &status, 0);
  if(WIFEXITED(status))
  {
    switch(WEXITSTATUS(status))
    {
    case 10: return 0;
    case 11: return 1;
    case 12: return -2;
    case 13: return -3;
    }
    return -1;
  }
  if(WIFSIGNALED(status))
    printf("      [child killed by signal %d (%s)]\n", WTERMSIG(status), strsignal(WTERMSIG(status)));
  return -1;
}

static int failures = 0;

template<typename Shape_>
static void expect(const char* name, int expected, int expected_points = 0)
{
  const int r = try_create<Shape_>(name, expected_points);
  const char* what =
    (r == 0) ? "refused" : (r == 1) ? "created" : (r == -1) ? "CRASHED" : (r == -2) ? "create/create_throw disagree" : "wrong number of points";
  const bool good = (r == expected);
  printf("  %-12s  %-20s -> %-8s  %s\n", Shape_::name().c_str(), (String("'") + name + "'").c_str(), what, good ? "ok" : "FAILED");
  if(!good)
    ++failures;
}

template<typename Shape_>
static void run(int np_auto3, const char* other_valid, int np_other)
{
  // malformed names: must be refused
  expect<Shape_>(":", 0);
  expect<Shape_>("::", 0);
  expect<Shape_>(":::", 0);
  expect<Shape_>("x::1", 0);
  expect<Shape_>("::3", 0);
  expect<Shape_>("auto-degree::3", 0);
  expect<Shape_>("refine*2::3", 0);
  // other malformed / unknown names that were handled correctly all along
  expect<Shape_>("", 0);
  expect<Shape_>("auto-degree", 0);
  expect<Shape_>("auto-degree:", 0);
  expect<Shape_>("auto-degree:x", 0);
  expect<Shape_>("-:3", 0);
  expect<Shape_>("auto-foo:3", 0);
  expect<Shape_>("no-such-rule:3", 0);
  // valid names: must still work
  expect<Shape_>("auto-degree:3", 1, np_auto3);
  expect<Shape_>("AUTO-DEGREE:3", 1, np_auto3);
  expect<Shape_>("refine*2:auto-degree:3", 1, 0);
  expect<Shape_>("barycentre", 1, 1);
  expect<Shape_>(other_valid, 1, np_other);
}

int main()
{
  printf("Cubature::DynamicFactory::create with malformed and valid rule names (-D_GLIBCXX_ASSERTIONS)\n");
  // Simplex<2>: auto-degree:3 -> dunavant:4 (6 points); dunavant:2 has 3 points
  run<Shape::Simplex<2>>(6, "dunavant:2", 3);
  // Hypercube<2>: auto-degree:3 -> gauss-legendre:2 (4 points); gauss-legendre:3 has 9 points
  run<Shape::Hypercube<2>>(4, "gauss-legendre:3", 9);

  if(failures > 0)
  {
    printf("DEFECT: %d rule name(s) were not handled correctly\n", failures);
    return 1;
  }
  printf("OK: all malformed names refused, all valid names created\n");
  return 0;
}
