// Permutation::concat(p) must also work if p is the permutation object itself (squaring):
// the result of a.concat(a) must be equal to the result of a.concat(copy of a) and it must be
// a permutation.
//
// On HEAD concat composes in place (p1[i] = p2[p1[i]]) and reads entries of the aliased operand
// that have already been overwritten: [1,2,0] squared gives [2,0,2] instead of [2,0,1].
//
// exit code 0 = correct behaviour, non-zero = defect manifests
#include <kernel/runtime.hpp>
#include <kernel/adjacency/permutation.hpp>

#include <iostream>
#include <vector>
#include <csignal>
#include <unistd.h>

using namespace FEAT;
using Adjacency::Permutation;

static void print(const char* name, const Permutation& p)
{
  std::cout << name << "[";
  for(Index i(0); i < p.size(); ++i)
    std::cout << (i > Index(0) ? "," : "") << p.get_perm_pos()[i];
  std::cout << "]";
}

// the corrupted position array may send calc_swap_from_perm() into an endless loop
static void on_alarm(int)
{
  const char msg[] = "FAIL p.concat(p) did not return within 5 seconds\nDEFECT\n";
  if(write(1, msg, sizeof(msg)-1) < 0) {}
  _exit(2);
}

static int check(const std::vector<Index>& pos)
{
  const Index n = Index(pos.size());
  {
    Permutation org(n, Permutation::ConstrType::perm, pos.data());
    print("p = ", org);
    std::cout << " ..." << std::endl;
  }
  std::signal(SIGALRM, on_alarm);
  alarm(5u);

  // reference: concatenate with an independent copy
  Permutation ref(n, Permutation::ConstrType::perm, pos.data());
  Permutation copy(ref.clone());
  ref.concat(copy);

  // aliased call
  Permutation sqr(n, Permutation::ConstrType::perm, pos.data());
  sqr.concat(sqr);
  alarm(0u);

  bool ok = true;
  std::vector<int> hit(pos.size(), 0);
  for(Index i(0); i < n; ++i)
  {
    ok = ok && (sqr.get_perm_pos()[i] == ref.get_perm_pos()[i]);
    ok = ok && (sqr.get_perm_pos()[i] == pos[pos[i]]);
    ok = ok && (sqr.get_swap_pos()[i] == ref.get_swap_pos()[i]);
    if(sqr.get_perm_pos()[i] < n)
      ++hit[sqr.get_perm_pos()[i]];
  }
  for(Index i(0); i < n; ++i)
    ok = ok && (hit[i] == 1);

  Permutation org(n, Permutation::ConstrType::perm, pos.data());
  std::cout << (ok ? "ok   " : "FAIL ");
  print("p = ", org);
  print(": p.concat(p) = ", sqr);
  print(", p.concat(copy of p) = ", ref);
  std::cout << std::endl;
  return ok ? 0 : 1;
}

int main(int argc, char** argv)
{
  Runtime::initialize(argc, argv);
  int fails = 0;
  fails += check({0, 1, 2});          // identity: control case
  fails += check({1, 2, 0});          // 3-cycle: HEAD yields [2,0,2]
  fails += check({1, 0, 3, 2});       // two 2-cycles: HEAD yields [0,0,2,2] and hangs in calc_swap_from_perm()
  fails += check({2, 0, 3, 4, 1});    // 5-cycle
  fails += check({3, 2, 5, 1, 0, 4}); // 4-cycle + 2-cycle
  std::cout << (fails ? "DEFECT" : "PASSED") << " (" << fails << " failing cases)" << std::endl;
  Runtime::finalize();
  return fails ? 1 : 0;
}
