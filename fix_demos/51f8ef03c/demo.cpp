// PartiIterative on a mesh that consists of two components which are not connected by facets
// (8 cells = left and right column of a 4x4 quad mesh), 6 patches: every patch must be non-empty
// and the distance function must not "reach" cells of the other component.
//
// On HEAD Intern::parti_iterative_distance also pops the nodes that were never reached from the
// start cell (distance == max) and computes 'distances.at(next_node) + 1', which wraps to 0: cells
// of the other component get distance 0,1,... from the wrong centre, steal the centre cells of the
// other patches and the partitioner delivers empty patches.
//
// exit code 0 = correct behaviour, non-zero = defect manifests
#include <kernel/runtime.hpp>
#include <kernel/util/dist.hpp>
#include <kernel/util/random.hpp>
#include <kernel/geometry/conformal_mesh.hpp>
#include <kernel/geometry/common_factories.hpp>
#include <kernel/geometry/mesh_node.hpp>
#include <kernel/geometry/parti_iterative.hpp>

#include <iostream>
#include <limits>
#include <vector>

using namespace FEAT;

typedef Geometry::ConformalMesh<Shape::Quadrilateral, 2, Real> MeshType;
typedef Geometry::RootMeshNode<MeshType> RootNodeType;

int main(int argc, char** argv)
{
  Runtime::initialize(argc, argv);
  int fails = 0;
  {
    Dist::Comm comm = Dist::Comm::world();

    // 4x4 quad mesh; cell index = 4*row + column
    std::unique_ptr<RootNodeType> base_node = RootNodeType::make_unique(
      Geometry::StructUnitCubeFactory<MeshType>::make_unique_from(Index(4), Index(4)));

    // extract left and right column: two strips of 4 cells each, which do not touch each other
    std::unique_ptr<RootNodeType> node = base_node->extract_patch(
      std::vector<Index>{0, 4, 8, 12, 3, 7, 11, 15}, false, false, false);
    MeshType& mesh = *node->get_mesh();
    const Index num_elems = mesh.get_num_elements();
    const Index num_patches = 6;
    mesh.fill_neighbors();

    // which cells are facet-connected to cell 0?
    std::vector<int> comp(num_elems, 0);
    {
      const auto& neighbors = mesh.get_neighbors();
      std::vector<Index> stack(1, Index(0));
      comp[0] = 1;
      while(!stack.empty())
      {
        Index c = stack.back();
        stack.pop_back();
        for(int j(0); j < 4; ++j)
        {
          Index o = neighbors[c][j];
          if((o != ~Index(0)) && (comp[o] == 0))
          {
            comp[o] = 1;
            stack.push_back(o);
          }
        }
      }
    }
    Index in_comp(0);
    for(Index i(0); i < num_elems; ++i)
      in_comp += Index(comp[i]);
    std::cout << "mesh: " << num_elems << " cells, " << in_comp << " of them facet-connected to cell 0" << std::endl;

    // (a) distances from cell 0: cells of the other component are unreachable
    {
      std::vector<Index> dist = Geometry::Intern::parti_iterative_distance(Index(0), mesh, num_patches);
      bool ok = true;
      std::cout << "distances from cell 0:";
      for(Index i(0); i < num_elems; ++i)
      {
        if(dist[i] == std::numeric_limits<Index>::max())
          std::cout << " max";
        else
          std::cout << " " << dist[i];
        if(comp[i] == 0)
          ok = ok && (dist[i] == std::numeric_limits<Index>::max());
      }
      std::cout << std::endl << (ok ? "ok   " : "FAIL ") << "cells of the other component must keep distance 'max'" << std::endl;
      fails += (ok ? 0 : 1);
    }

    // (b) individuals with fixed seeds
    {
      int bad_runs(0);
      for(int run(0); run < 30; ++run)
      {
        Random rng(Random::SeedType(1000 + run));
        Geometry::Intern::PartiIterativeIndividual<Shape::Quadrilateral, 2, Real> indi(mesh, rng, num_patches);
        bool empty(false);
        for(const auto& cells : indi._cells_per_patch)
          empty = empty || cells.empty();
        if(empty)
          ++bad_runs;
      }
      const bool ok = (bad_runs == 0);
      std::cout << (ok ? "ok   " : "FAIL ") << "PartiIterativeIndividual, seeds 1000..1029: " << bad_runs
        << " of 30 individuals have an empty patch" << std::endl;
      fails += (ok ? 0 : 1);
    }

    // (c) the partitioner itself (its random seed is taken from time() and can not be set, so on HEAD the
    // outcome of this part depends on the second in which it is run; single individual, no mutation)
    {
      Geometry::PartiIterative<MeshType> partitioner(mesh, comm, num_patches, 0.0, 0.0);
      Adjacency::Graph elems_at_rank = partitioner.build_elems_at_rank();
      const Index* ptr = elems_at_rank.get_domain_ptr();
      bool ok(elems_at_rank.get_num_nodes_domain() == num_patches);
      std::cout << "PartiIterative, " << num_elems << " cells, " << num_patches << " patches: patch sizes";
      for(Index r(0); ok && (r < num_patches); ++r)
      {
        std::cout << " " << (ptr[r+1] - ptr[r]);
        ok = ok && (ptr[r+1] > ptr[r]);
      }
      ok = ok && (ptr[num_patches] == num_elems);
      std::cout << std::endl << (ok ? "ok   " : "FAIL ") << "all patches must be non-empty" << std::endl;
      fails += (ok ? 0 : 1);
    }
  }
  std::cout << (fails ? "DEFECT" : "PASSED") << " (" << fails << " failing cases)" << std::endl;
  Runtime::finalize();
  return fails ? 1 : 0;
}
