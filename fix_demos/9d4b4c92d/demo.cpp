// Demo: DenseVectorBlocked range constructor must refuse ranges that leave the parent vector.
//
// exit 0  = correct behaviour (inside views accepted and correct, outside views refused)
// exit !0 = defect manifests (a view reaching outside the parent's allocation is accepted)
#include <kernel/base_header.hpp>
#include <kernel/runtime.hpp>
#include <kernel/lafem/dense_vector.hpp>
#include <kernel/lafem/dense_vector_blocked.hpp>

#include <cstdio>
#include <cstdlib>
#include <unistd.h>
#include <sys/types.h>
#include <sys/wait.h>

using namespace FEAT;
using namespace FEAT::LAFEM;

typedef DenseVectorBlocked<double, Index, 2> BVec;

static const Index parent_size = 10; // 10 blocks = 20 scalars

static void fill(BVec& v)
{
  double* p = v.template elements<Perspective::pod>();
  for(Index i(0); i < v.template size<Perspective::pod>(); ++i)
    p[i] = double(100 + i);
}

// returns true if the constructor accepted the range (child exited normally), false if the
// child was killed (assertion -> abort)
static bool range_accepted(Index size_in, Index offset_in)
{
  fflush(stdout);
  fflush(stderr);
  pid_t pid = fork();
  if(pid == 0)
  {
    // silence the assertion message / back-trace of the child
    if(freopen("/dev/null", "w", stderr) == nullptr) {}
    BVec parent(parent_size);
    fill(parent);
    // only construct the view; never touch its (possibly foreign) memory
    BVec view(parent, size_in, offset_in);
    _exit(view.size() == size_in ? 0 : 3);
  }
  int status = 0;
  waitpid(pid, &status, 0);
  if(WIFEXITED(status) && (WEXITSTATUS(status) == 0))
    return true;
  return false;
}

int main(int argc, char** argv)
{
  Runtime::ScopeGuard guard(argc, argv);
  int fails = 0;

  // --- 1. views inside the parent are accepted and alias the right entries
  {
    BVec parent(parent_size);
    fill(parent);
    const Index cases[][2] = {{4, 6}, {10, 0}, {1, 9}, {1, 0}, {5, 5}};
    for(const auto& c : cases)
    {
      const Index sz = c[0], off = c[1];
      if(!range_accepted(sz, off))
      {
        std::printf("FAIL: inside view (size %u, offset %u) was refused\n", unsigned(sz), unsigned(off));
        ++fails;
        continue;
      }
      BVec view(parent, sz, off);
      bool ok = (view.size() == sz) && (view.template size<Perspective::pod>() == 2*sz);
      for(Index i(0); ok && (i < sz); ++i)
      {
        auto a = view(i);
        auto b = parent(off + i);
        ok = (a[0] == b[0]) && (a[1] == b[1]) && (a[0] == double(100 + 2*(off+i)));
      }
      // write through the view arrives in the parent
      Tiny::Vector<double, 2> tv(-1.0);
      view(sz - 1, tv);
      ok = ok && (parent(off + sz - 1)[1] == -1.0);
      fill(parent);
      std::printf("%s: inside view (size %u, offset %u) accepted, entries %s\n", ok ? "ok  " : "FAIL",
        unsigned(sz), unsigned(off), ok ? "match parent" : "DIFFER");
      if(!ok) ++fails;
    }
  }

  // --- 2. views that reach outside the parent (or are empty) must be refused
  {
    const Index cases[][2] = {{8, 5}, {1, 10}, {11, 0}, {10, 1}, {6, 6}, {0, 3}};
    for(const auto& c : cases)
    {
      const Index sz = c[0], off = c[1];
      const bool acc = range_accepted(sz, off);
      if(acc && (sz == Index(0)))
      {
        std::printf("FAIL: empty view (size 0, offset %u) accepted (the DenseVector twin refuses size 0)\n", unsigned(off));
        ++fails;
      }
      else if(acc)
      {
        std::printf("FAIL: view (size %u, offset %u) accepted: covers scalars [%u, %u) of a %u-scalar allocation\n",
          unsigned(sz), unsigned(off), unsigned(2*off), unsigned(2*(off+sz)), unsigned(2*parent_size));
        ++fails;
      }
      else
        std::printf("ok  : view (size %u, offset %u) refused\n", unsigned(sz), unsigned(off));
    }
  }

  std::printf("%s (%d failed checks)\n", fails == 0 ? "PASS" : "DEFECT", fails);
  return fails == 0 ? 0 : 1;
}
