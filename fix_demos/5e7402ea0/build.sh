#!/bin/sh
# builds demo.cpp against the worktree /repo and its configured build dir (libraries must have been built)
cd /repo/_build
/usr/bin/c++ -I/repo/_build -I/repo -Wno-error -O2 -g -DNDEBUG -fopenmp -std=c++17 ./demo.cpp -o ./demo kernel/geometry/libkernel-geometry.a kernel/adjacency/libkernel-adjacency.a kernel/util/libkernel-util.a kernel/libkernel-root.a kernel/util/libkernel-util.a kernel/libkernel-root.a
