// demo: a MeshPart with topology="parent" must contain the vertices of all its edges/faces/cells
#include <kernel/runtime.hpp>
#include <kernel/geometry/conformal_mesh.hpp>
#include <kernel/geometry/mesh_file_reader.hpp>

#include <iostream>
#include <sstream>
#include <string>

using namespace FEAT;

typedef Geometry::ConformalMesh<Shape::Simplex<2>, 2, Real> MeshType;

// one triangle: 3 vertices, 3 edges (0 1, 1 2, 2 0), 1 cell
static std::string file_text(const std::string& part)
{
  return
    "<FeatMeshFile version=\"1\" mesh=\"conformal:simplex:2:2\">\n"
    "  <Mesh type=\"conformal:simplex:2:2\" size=\"3 3 1\">\n"
    "    <Vertices>\n      0 0\n      1 0\n      0 1\n    </Vertices>\n"
    "    <Topology dim=\"1\">\n      0 1\n      1 2\n      2 0\n    </Topology>\n"
    "    <Topology dim=\"2\">\n      0 1 2\n    </Topology>\n"
    "  </Mesh>\n" + part + "</FeatMeshFile>\n";
}

// returns 0 = parsed, 1 = Xml error, 2 = other documented FEAT exception
static int run(const std::string& text, std::string& what)
{
  std::istringstream iss(text);
  try
  {
    Geometry::MeshFileReader reader(iss);
    Geometry::MeshAtlas<MeshType> atlas;
    auto node = reader.parse<MeshType>(atlas);
    what = "parsed";
    return 0;
  }
  catch(const Xml::Error& e)
  {
    what = e.what();
    return 1;
  }
  catch(const Exception& e)
  {
    what = e.what();
    return 2;
  }
}

int main(int argc, char** argv)
{
  Runtime::initialize(argc, argv);
  bool ok = true;
  std::string what;

  struct Case { const char* name; std::string text; bool valid; };
  const Case cases[] = {
    // control: vertices 0,1 and edge 0 = (0 1)
    {"valid: edge 0, vertices 0 1   ", file_text(
      "  <MeshPart name=\"p\" parent=\"root\" topology=\"parent\" size=\"2 1\">\n"
      "    <Mapping dim=\"0\">\n      0\n      1\n    </Mapping>\n"
      "    <Mapping dim=\"1\">\n      0\n    </Mapping>\n"
      "  </MeshPart>\n"), true},
    // control: without a deducted topology, the same mapping is none of the reader's business
    {"valid: edge 1, vertex 0, none ", file_text(
      "  <MeshPart name=\"p\" parent=\"root\" topology=\"none\" size=\"1 1\">\n"
      "    <Mapping dim=\"0\">\n      0\n    </Mapping>\n"
      "    <Mapping dim=\"1\">\n      1\n    </Mapping>\n"
      "  </MeshPart>\n"), true},
    // edge 1 = (1 2), but the mesh part only contains vertex 0; all indices are in range
    {"edge 1 = (1 2), vertex 0 only ", file_text(
      "  <MeshPart name=\"p\" parent=\"root\" topology=\"parent\" size=\"1 1\">\n"
      "    <Mapping dim=\"0\">\n      0\n    </Mapping>\n"
      "    <Mapping dim=\"1\">\n      1\n    </Mapping>\n"
      "  </MeshPart>\n"), false},
    // cell 0 = (0 1 2), but vertex 2 is missing
    {"cell 0 = (0 1 2), vertices 0 1", file_text(
      "  <MeshPart name=\"p\" parent=\"root\" topology=\"parent\" size=\"2 0 1\">\n"
      "    <Mapping dim=\"0\">\n      0\n      1\n    </Mapping>\n"
      "    <Mapping dim=\"2\">\n      0\n    </Mapping>\n"
      "  </MeshPart>\n"), false},
  };

  for(const Case& c : cases)
  {
    std::cout << c.name << ": " << std::flush;
    int r = run(c.text, what);
    bool good = c.valid ? (r == 0) : (r != 0);
    for(char& ch : what) if(ch == '\n') ch = ' ';
    std::cout << (good ? "ok   " : "WRONG") << " [" << what << "]" << std::endl;
    ok = ok && good;
  }

  std::cout << (ok ? "PASS" : "FAIL") << std::endl;
  Runtime::finalize();
  return ok ? 0 : 1;
}
