// BiCGStabL: the work vectors u_hat are only allocated; the first operation of every solve is
// u_0 := -beta*u_0 + r_0 with beta = 0, i.e. 0 * (stale content). NaN leftovers of an earlier
// aborted solve on the same object must not poison the next solve.
#include <kernel/base_header.hpp>
#include <kernel/runtime.hpp>
#include <kernel/lafem/sparse_matrix_csr.hpp>
#include <kernel/lafem/dense_vector.hpp>
#include <kernel/lafem/none_filter.hpp>
#include <kernel/solver/bicgstabl.hpp>
#include <iostream>
#include <cmath>

using namespace FEAT;
typedef double DT;
typedef Index IT;
typedef LAFEM::SparseMatrixCSR<DT, IT> MatrixType;
typedef LAFEM::DenseVector<DT, IT> VectorType;
typedef LAFEM::NoneFilter<DT, IT> FilterType;

static void set_values(MatrixType& matrix, DT a00, DT a01, DT a10, DT a11)
{
  DT* val = matrix.val();
  val[0] = a00; val[1] = a01; val[2] = a10; val[3] = a11;
}

int run(Solver::BiCGStabLPreconVariant variant, const char* vname)
{
  // full 2x2 layout
  LAFEM::DenseVector<IT, IT> col_ind(4), row_ptr(3);
  LAFEM::DenseVector<DT, IT> val(4, DT(0));
  col_ind(0, 0); col_ind(1, 1); col_ind(2, 0); col_ind(3, 1);
  row_ptr(0, 0); row_ptr(1, 2); row_ptr(2, 4);
  MatrixType matrix(2, 2, col_ind, val, row_ptr);
  FilterType filter;

  VectorType vec_rhs(2, DT(0));
  vec_rhs(0, DT(1));
  VectorType vec_sol(2, DT(0));

  auto solver = Solver::new_bicgstabl(matrix, filter, 1, nullptr, variant);
  solver->set_tol_rel(1E-10);
  solver->set_max_iter(20);

  // first solve: skew-symmetric matrix, BiCGStab(1) breaks down (<A r0, r0> = 0)
  set_values(matrix, 0, 1, -1, 0);
  solver->init();
  Solver::Status st1 = solver->correct(vec_sol, vec_rhs);
  std::cout << vname << " solve 1 (skew)      : status = " << st1 << ", iterations = " << solver->get_num_iter()
    << ", x = (" << vec_sol(0) << ", " << vec_sol(1) << ")" << std::endl;

  // new (SPD) values in place, same solver object
  solver->done_numeric();
  set_values(matrix, 2, 1, 1, 3);
  solver->init_numeric();
  vec_sol.format();
  Solver::Status st2 = solver->correct(vec_sol, vec_rhs);
  const DT x0 = vec_sol(0), x1 = vec_sol(1);
  std::cout << vname << " solve 2 (SPD, reuse): status = " << st2 << ", iterations = " << solver->get_num_iter()
    << ", x = (" << x0 << ", " << x1 << ")" << std::endl;
  solver->done();

  // reference: fresh object
  {
    auto fresh = Solver::new_bicgstabl(matrix, filter, 1, nullptr, variant);
    fresh->set_tol_rel(1E-10);
    fresh->set_max_iter(20);
    fresh->init();
    VectorType vec_ref(2, DT(0));
    Solver::Status st3 = fresh->correct(vec_ref, vec_rhs);
    std::cout << vname << " solve 3 (SPD, fresh): status = " << st3 << ", iterations = " << fresh->get_num_iter()
      << ", x = (" << vec_ref(0) << ", " << vec_ref(1) << ")" << std::endl;
    fresh->done();
  }

  // exact solution of [[2,1],[1,3]] x = e1 is (0.6, -0.2)
  if((st2 != Solver::Status::success) || !(std::abs(x0 - 0.6) < 1E-8) || !(std::abs(x1 + 0.2) < 1E-8))
  {
    std::cout << "DEFECT: " << vname << ": the solve after an aborted one failed (status " << st2 << ")" << std::endl;
    return 1;
  }
  return 0;
}

int main(int argc, char** argv)
{
  Runtime::ScopeGuard guard(argc, argv);
  int rc = 0;
  rc += run(Solver::BiCGStabLPreconVariant::left, "left ");
  rc += run(Solver::BiCGStabLPreconVariant::right, "right");
  return rc;
}
