// Demo: Trafo::Isoparam::Mapping<Mesh, degree> on a hexahedron with a chart on a boundary quad:
// all face-interior lattice points of that quad must be projected onto the chart, and nothing else.
//
// The mesh is the reference hexahedron [-1,1]^3 (one cell). A Sphere chart is attached to one quad
// (with or without its four edges) or to the whole boundary. The iso-parametric mapping interpolates
// the (degree+1)^3 lattice points, so map_point evaluated at a lattice point of the reference cell
// returns the lattice point of the real cell. The expected lattice is computed here independently:
//   vertices:        mesh vertices
//   edge points:     linear interpolation of the vertices, projected if the edge has a chart
//   quad points:     mean of the two linear interpolations of the opposite edge points,
//                    projected if the quad has a chart
//   interior points: mean of the three linear interpolations of the opposite quad points
//
// The demo is built with -fsanitize=bounds-strict (see build.sh): an out-of-bounds index into the
// coefficient array of the evaluator is reported on stderr, which is captured and counted here.
// Note: the sanitizer reports every source location only once per process and it tolerates an
// innermost index equal to the array length (_iso_coeff[0][2][4], which aliases the vertex
// _iso_coeff[0][3][0]), so only the first out-of-bounds middle index (_iso_coeff[2][4][0], local
// quad 4) shows up in that column; the displaced vertices in the other scenarios are the visible
// effect of the other out-of-bounds stores.
//
// exit 0  = correct behaviour
// exit !0 = defect manifests (wrong lattice points and/or out-of-bounds indices)
#include <kernel/base_header.hpp>
#include <kernel/geometry/conformal_mesh.hpp>
#include <kernel/geometry/mesh_part.hpp>
#include <kernel/geometry/reference_cell_factory.hpp>
#include <kernel/geometry/atlas/sphere.hpp>
#include <kernel/trafo/isoparam/mapping.hpp>

#include <cstdio>
#include <cstdlib>
#include <cstring>
#include <cmath>
#include <vector>
#include <string>
#include <unistd.h>
#include <fcntl.h>

using namespace FEAT;

typedef Shape::Hypercube<3> ShapeType;
typedef Geometry::ConformalMesh<ShapeType, 3, double> MeshType;
typedef Geometry::MeshPart<MeshType> MeshPartType;
typedef Geometry::Atlas::Sphere<MeshType> SphereType;
typedef Tiny::Vector<double, 3> Point;

static const double tol = 1E-12;
static int failures = 0;

// ------------------------------------------------------------------------------------------------
// stderr capture (for the reports of -fsanitize=bounds)
// ------------------------------------------------------------------------------------------------
static int saved_stderr = -1;
static char capture_name[] = "/tmp/isoparam_demo_XXXXXX";
static int capture_fd = -1;

static void capture_begin()
{
  fflush(stderr);
  if(capture_fd < 0)
    capture_fd = mkstemp(capture_name);
  if(ftruncate(capture_fd, 0) != 0) {}
  lseek(capture_fd, 0, SEEK_SET);
  saved_stderr = dup(2);
  dup2(capture_fd, 2);
}

// returns the number of captured "out of bounds" reports
static int capture_end(std::string& first_report)
{
  fflush(stderr);
  dup2(saved_stderr, 2);
  close(saved_stderr);
  lseek(capture_fd, 0, SEEK_SET);
  std::string text;
  char buf[4096];
  ssize_t k;
  while((k = read(capture_fd, buf, sizeof(buf))) > 0)
    text.append(buf, std::size_t(k));
  int count = 0;
  std::size_t pos = 0;
  first_report.clear();
  while((pos = text.find("out of bounds", pos)) != std::string::npos)
  {
    if(count == 0)
    {
      std::size_t b = text.rfind('\n', pos);
      b = (b == std::string::npos) ? 0 : b + 1;
      std::size_t e = text.find('\n', pos);
      first_report = text.substr(b, (e == std::string::npos) ? e : e - b);
    }
    ++count;
    pos += 13;
  }
  return count;
}

// ------------------------------------------------------------------------------------------------
// lattice helpers
// ------------------------------------------------------------------------------------------------
struct Lattice
{
  int n;
  std::vector<Point> p;
  explicit Lattice(int n_) : n(n_), p(std::size_t((n_+1)*(n_+1)*(n_+1))) {}
  Point& operator()(int z, int y, int x) { return p.at(std::size_t((z*(n+1) + y)*(n+1) + x)); }
  const Point& operator()(int z, int y, int x) const { return p.at(std::size_t((z*(n+1) + y)*(n+1) + x)); }
};

// lattice index of a coordinate of a vertex of the reference cell
static int lat(double c, int n)
{
  return (c < 0.0) ? 0 : n;
}

static Point lerp(double a, const Point& u1, const Point& u2)
{
  return u1 + a * (u2 - u1);
}

// computes the expected lattice for the reference hexahedron
//   edge_chart[e] / quad_chart[q]: chart of local edge e / local quad q of cell 0 (or nullptr)
template<int n_>
static Lattice expected_lattice(const MeshType& mesh, const SphereType* const edge_chart[12], const SphereType* const quad_chart[6])
{
  Lattice L(n_);
  const auto& vtx = mesh.get_vertex_set();
  const auto& v_at_e = mesh.get_index_set<1,0>();
  const auto& v_at_q = mesh.get_index_set<2,0>();
  const auto& v_at_h = mesh.get_index_set<3,0>();
  const auto& e_at_h = mesh.get_index_set<3,1>();
  const auto& q_at_h = mesh.get_index_set<3,2>();

  // classification of the lattice points: 0 = not set yet
  // vertices
  for(int i(0); i < 8; ++i)
  {
    const auto& v = vtx[v_at_h(0, i)];
    L(lat(v[2], n_), lat(v[1], n_), lat(v[0], n_)) = v;
  }

  // edges: linear interpolation of the two vertices + projection
  for(int e(0); e < 12; ++e)
  {
    const Index ei = e_at_h(0, e);
    const auto& a = vtx[v_at_e(ei, 0)];
    const auto& b = vtx[v_at_e(ei, 1)];
    const int ia[3] = {lat(a[0], n_), lat(a[1], n_), lat(a[2], n_)};
    const int ib[3] = {lat(b[0], n_), lat(b[1], n_), lat(b[2], n_)};
    for(int i(1); i < n_; ++i)
    {
      const int x = ia[0] + i * (ib[0] - ia[0]) / n_;
      const int y = ia[1] + i * (ib[1] - ia[1]) / n_;
      const int z = ia[2] + i * (ib[2] - ia[2]) / n_;
      Point q = lerp(double(i) / double(n_), Point(a), Point(b));
      if(edge_chart[e] != nullptr)
        q = edge_chart[e]->project(q);
      L(z, y, x) = q;
    }
  }

  // quads: mean of the two edge-to-edge interpolations + projection
  for(int q(0); q < 6; ++q)
  {
    const Index qi = q_at_h(0, q);
    // find the axis that is constant on this quad
    int axis = -1, fix = 0;
    for(int d(0); d < 3; ++d)
    {
      bool same = true;
      for(int k(1); k < 4; ++k)
        same = same && (lat(vtx[v_at_q(qi, k)][d], n_) == lat(vtx[v_at_q(qi, 0)][d], n_));
      if(same)
      {
        axis = d;
        fix = lat(vtx[v_at_q(qi, 0)][d], n_);
      }
    }
    const int a1 = (axis + 1) % 3, a2 = (axis + 2) % 3;
    for(int i(1); i < n_; ++i)
    {
      for(int j(1); j < n_; ++j)
      {
        int idx[3], lo1[3], hi1[3], lo2[3], hi2[3];
        idx[axis] = fix; idx[a1] = i; idx[a2] = j;
        for(int d(0); d < 3; ++d)
          lo1[d] = hi1[d] = lo2[d] = hi2[d] = idx[d];
        lo1[a1] = 0; hi1[a1] = n_;
        lo2[a2] = 0; hi2[a2] = n_;
        Point p1 = lerp(double(i) / double(n_), L(lo1[2], lo1[1], lo1[0]), L(hi1[2], hi1[1], hi1[0]));
        Point p2 = lerp(double(j) / double(n_), L(lo2[2], lo2[1], lo2[0]), L(hi2[2], hi2[1], hi2[0]));
        Point p = 0.5 * (p1 + p2);
        if(quad_chart[q] != nullptr)
          p = quad_chart[q]->project(p);
        L(idx[2], idx[1], idx[0]) = p;
      }
    }
  }

  // interior: mean of the three quad-to-quad interpolations
  for(int i(1); i < n_; ++i)
    for(int j(1); j < n_; ++j)
      for(int k(1); k < n_; ++k)
      {
        Point pz = lerp(double(i) / double(n_), L(0, j, k), L(n_, j, k));
        Point py = lerp(double(j) / double(n_), L(i, 0, k), L(i, n_, k));
        Point px = lerp(double(k) / double(n_), L(i, j, 0), L(i, j, n_));
        L(i, j, k) = (1.0 / 3.0) * (pz + py + px);
      }

  return L;
}

static const char* kind_name(int n, int z, int y, int x)
{
  int nb = 0;
  nb += ((z == 0) || (z == n)) ? 1 : 0;
  nb += ((y == 0) || (y == n)) ? 1 : 0;
  nb += ((x == 0) || (x == n)) ? 1 : 0;
  switch(nb)
  {
  case 3: return "vertex";
  case 2: return "edge point";
  case 1: return "quad point";
  }
  return "interior point";
}

// ------------------------------------------------------------------------------------------------
// one scenario: charts on the given local edges and quads of the single cell
// ------------------------------------------------------------------------------------------------
template<int n_>
static void run_scenario(const char* name, const std::vector<int>& edges, const std::vector<int>& quads, const Point& centre, double radius)
{
  typedef Trafo::Isoparam::Mapping<MeshType, n_> TrafoType;
  typedef typename TrafoType::template Evaluator<ShapeType, double>::Type EvalType;

  Geometry::ReferenceCellFactory<ShapeType, double> factory;
  MeshType mesh(factory);

  SphereType sphere(centre[0], centre[1], centre[2], radius);

  const auto& e_at_h = mesh.get_index_set<3,1>();
  const auto& q_at_h = mesh.get_index_set<3,2>();

  // create the mesh part: edges and quads only (the vertices are never projected by the trafo)
  const Index num_ents[4] = {Index(0), Index(edges.size()), Index(quads.size()), Index(0)};
  MeshPartType part(num_ents, false);
  const SphereType* edge_chart[12];
  const SphereType* quad_chart[6];
  for(int e(0); e < 12; ++e) edge_chart[e] = nullptr;
  for(int q(0); q < 6; ++q) quad_chart[q] = nullptr;
  for(std::size_t k(0); k < edges.size(); ++k)
  {
    part.template get_target_set<1>()[Index(k)] = e_at_h(0, edges[k]);
    edge_chart[edges[k]] = &sphere;
  }
  for(std::size_t k(0); k < quads.size(); ++k)
  {
    part.template get_target_set<2>()[Index(k)] = q_at_h(0, quads[k]);
    quad_chart[quads[k]] = &sphere;
  }

  TrafoType trafo(mesh);
  trafo.add_meshpart_chart(part, sphere);

  // expected lattice
  const Lattice L = expected_lattice<n_>(mesh, edge_chart, quad_chart);

  // prepare the evaluator (this is where the lattice is computed) with captured stderr
  EvalType eval(trafo);
  std::string report;
  capture_begin();
  eval.prepare(Index(0));
  const int num_oob = capture_end(report);

  // compare all lattice points
  int bad = 0;
  double max_err = 0.0;
  std::string details;
  for(int z(0); z <= n_; ++z)
    for(int y(0); y <= n_; ++y)
      for(int x(0); x <= n_; ++x)
      {
        Point dom, img;
        dom[0] = -1.0 + 2.0 * double(x) / double(n_);
        dom[1] = -1.0 + 2.0 * double(y) / double(n_);
        dom[2] = -1.0 + 2.0 * double(z) / double(n_);
        eval.map_point(img, dom);
        const double err = (img - L(z, y, x)).norm_euclid();
        max_err = std::max(max_err, err);
        if(!(err <= tol))
        {
          ++bad;
          if(bad <= 4)
          {
            char line[512];
            snprintf(line, sizeof(line),
              "        %-14s (z=%d,y=%d,x=%d): got (%8.5f,%8.5f,%8.5f) |p-c| = %.5f, expected (%8.5f,%8.5f,%8.5f) |p-c| = %.5f\n",
              kind_name(n_, z, y, x), z, y, x, img[0], img[1], img[2], (img - centre).norm_euclid(),
              L(z, y, x)[0], L(z, y, x)[1], L(z, y, x)[2], (L(z, y, x) - centre).norm_euclid());
            details += line;
          }
        }
      }
  eval.finish();

  const bool good = (bad == 0) && (num_oob == 0);
  printf("  degree %d  %-44s  wrong lattice points: %2d  reported out-of-bounds indices: %d  -> %s\n",
    n_, name, bad, num_oob, good ? "ok" : "FAILED");
  if(bad > 0)
  {
    printf("%s", details.c_str());
    if(bad > 4)
      printf("        ... and %d more\n", bad - 4);
  }
  if(num_oob > 0)
    printf("        %s\n", report.c_str());
  if(!good)
    ++failures;
}

// local edges of the local quads of a hexahedron, derived from the mesh
static std::vector<int> edges_of_quad(int q)
{
  Geometry::ReferenceCellFactory<ShapeType, double> factory;
  MeshType mesh(factory);
  const auto& e_at_h = mesh.get_index_set<3,1>();
  const auto& q_at_h = mesh.get_index_set<3,2>();
  const auto& e_at_q = mesh.get_index_set<2,1>();
  std::vector<int> r;
  for(int k(0); k < 4; ++k)
    for(int e(0); e < 12; ++e)
      if(e_at_h(0, e) == e_at_q(q_at_h(0, q), k))
        r.push_back(e);
  return r;
}

template<int n_>
static void run_degree()
{
  // sphere 1: around a point near the centre of the cell, contains the whole cell (vertices at distance < radius)
  Point c1; c1[0] = 0.1; c1[1] = -0.2; c1[2] = 0.3;
  const double r1 = 2.5;

  for(int q(0); q < 6; ++q)
  {
    String name = "chart on quad " + stringify(q) + " only";
    run_scenario<n_>(name.c_str(), std::vector<int>(), std::vector<int>(1, q), c1, r1);
  }
  for(int q(0); q < 6; ++q)
  {
    String name = "chart on quad " + stringify(q) + " and its 4 edges";
    run_scenario<n_>(name.c_str(), edges_of_quad(q), std::vector<int>(1, q), c1, r1);
  }
  {
    std::vector<int> all_e, all_q;
    for(int e(0); e < 12; ++e) all_e.push_back(e);
    for(int q(0); q < 6; ++q) all_q.push_back(q);
    run_scenario<n_>("chart on all 6 quads and all 12 edges", all_e, all_q, c1, r1);
    run_scenario<n_>("chart on all 12 edges, no quad", all_e, std::vector<int>(), c1, r1);
  }

  // the configuration of the original report: sphere around (0,0,2) with radius 3.5 on quad 0 (z = -1)
  Point c2; c2[0] = 0.0; c2[1] = 0.0; c2[2] = 2.0;
  run_scenario<n_>("sphere (0,0,2) r=3.5 on quad 0 only", std::vector<int>(), std::vector<int>(1, 0), c2, 3.5);
}

int main()
{
  printf("Trafo::Isoparam::Mapping on the reference hexahedron with a Sphere chart on boundary quads\n");
  run_degree<1>();
  run_degree<2>();
  run_degree<3>();

  if(capture_fd >= 0)
  {
    close(capture_fd);
    unlink(capture_name);
  }

  if(failures > 0)
  {
    printf("DEFECT: %d scenario(s) failed\n", failures);
    return 1;
  }
  printf("OK: all lattice points are where they belong\n");
  return 0;
}
