// RootMeshNode::extract_patch must return the patch that consists of the elements passed to THIS
// call -- also if a patch has already been extracted from the same mesh node before.
//
// On HEAD the patch mesh part is registered by add_patch(-1, ...) / add_patch(rank, ...), i.e. by
// std::map::emplace, which keeps an already existing entry: the second call silently continues
// with the patch mesh part of the first call.
//
// exit code 0 = correct behaviour, non-zero = defect manifests
#include <kernel/runtime.hpp>
#include <kernel/geometry/conformal_mesh.hpp>
#include <kernel/geometry/common_factories.hpp>
#include <kernel/geometry/mesh_node.hpp>
#include <kernel/adjacency/graph.hpp>

#include <iostream>
#include <vector>

using namespace FEAT;

typedef Geometry::ConformalMesh<Shape::Quadrilateral, 2, Real> MeshType;
typedef Geometry::RootMeshNode<MeshType> RootNodeType;

static Adjacency::Graph make_graph(const std::vector<std::vector<Index>>& elems_at_rank, Index num_elems)
{
  Index nnz(0);
  for(const auto& v : elems_at_rank)
    nnz += Index(v.size());
  Adjacency::Graph graph(Index(elems_at_rank.size()), num_elems, nnz);
  Index* ptr = graph.get_domain_ptr();
  Index* idx = graph.get_image_idx();
  Index k(0);
  ptr[0] = Index(0);
  for(std::size_t r(0); r < elems_at_rank.size(); ++r)
  {
    for(Index e : elems_at_rank[r])
      idx[k++] = e;
    ptr[r+1] = k;
  }
  return graph;
}

int main(int argc, char** argv)
{
  Runtime::initialize(argc, argv);
  int fails = 0;
  {
    // 2x2 quad mesh
    std::unique_ptr<RootNodeType> node = RootNodeType::make_unique(
      Geometry::StructUnitCubeFactory<MeshType>::make_unique_from(Index(2), Index(2)));
    const Index num_elems = node->get_mesh()->get_num_elements();
    std::cout << "base mesh: " << num_elems << " cells" << std::endl;

    // (a) element vector overload
    {
      auto first = node->extract_patch(std::vector<Index>{0, 1}, false, false, false);
      auto second = node->extract_patch(std::vector<Index>{1, 2, 3}, false, false, false);
      const Index n1 = first->get_mesh()->get_num_elements();
      const Index n2 = second->get_mesh()->get_num_elements();
      const Index np = node->get_patch(-1)->get_num_entities(2);
      const bool ok = (n1 == Index(2)) && (n2 == Index(3)) && (np == Index(3));
      std::cout << (ok ? "ok   " : "FAIL ") << "extract_patch(elements): first: " << n1 << " cells, second: " << n2
        << " cells, patch mesh part -1 of the base node: " << np << " cells (expected 2, 3 and 3)" << std::endl;
      fails += (ok ? 0 : 1);
    }

    // (b) graph overload: two different partitionings of the same node
    {
      Adjacency::Graph graph_1 = make_graph({{0, 1}, {2, 3}}, num_elems);
      Adjacency::Graph graph_2 = make_graph({{0, 1, 2}, {3}}, num_elems);
      std::vector<int> ranks_1, ranks_2;
      auto first = node->extract_patch(ranks_1, graph_1, 0);
      auto second = node->extract_patch(ranks_2, graph_2, 0);
      const Index n1 = first->get_mesh()->get_num_elements();
      const Index n2 = second->get_mesh()->get_num_elements();
      const Index np = node->get_patch(0)->get_num_entities(2);
      const bool ok = (n1 == Index(2)) && (n2 == Index(3)) && (np == Index(3));
      std::cout << (ok ? "ok   " : "FAIL ") << "extract_patch(graph, rank 0): first: " << n1 << " cells, second: " << n2
        << " cells, patch mesh part 0 of the base node: " << np << " cells (expected 2, 3 and 3)" << std::endl;
      fails += (ok ? 0 : 1);
    }
  }
  std::cout << (fails ? "DEFECT" : "PASSED") << " (" << fails << " failing cases)" << std::endl;
  Runtime::finalize();
  return fails ? 1 : 0;
}
