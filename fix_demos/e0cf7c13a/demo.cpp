// Demo: the 'mesh' attribute of the root markup <FeatMeshFile version="1" mesh="..."> declares the type of the
// root mesh stored in the file (doxy_in/mesh_format.dox, "The Root Node"), and MeshFileReader::read_root_markup()
// reports it to tools that dispatch on it. MeshNodeParser::create() stores the attribute but nothing compares it
// with the type of the <Mesh> element, so a file that declares a triangle mesh and contains a quadrilateral mesh
// is accepted silently.
//
// Each mesh file text is parsed by Geometry::MeshFileReader::parse() in a forked child process, so that an abort,
// a segmentation fault or an undocumented exception type can be told apart from the documented rejection by
// Xml::ContentError / Xml::GrammarError.
//
// Regression check: all files data/meshes/*.xml whose root markup declares a 2D quad/tria or 3D hexa/tetra mesh
// are parsed with the matching mesh type and must be accepted. The directory is passed as argv[1] by build.sh.
//
// exit 0  = correct behaviour (contradicting declarations rejected, all controls and shipped files parse)
// exit !0 = defect manifests
#include <kernel/base_header.hpp>
#include <kernel/util/string.hpp>
#include <kernel/util/xml_scanner.hpp>
#include <kernel/geometry/conformal_mesh.hpp>
#include <kernel/geometry/mesh_node.hpp>
#include <kernel/geometry/mesh_atlas.hpp>
#include <kernel/geometry/partition_set.hpp>
#include <kernel/geometry/mesh_file_reader.hpp>

#include <cstdio>
#include <cstdlib>
#include <cstring>
#include <cstdint>
#include <sstream>
#include <string>
#include <vector>
#include <deque>
#include <fstream>
#include <algorithm>
#include <dirent.h>
#include <typeinfo>
#include <unistd.h>
#include <fcntl.h>
#include <sys/wait.h>

using namespace FEAT;

typedef Geometry::ConformalMesh<Shape::Hypercube<2>, 2, double> QuadMesh;
typedef Geometry::ConformalMesh<Shape::Simplex<2>, 2, double> TriaMesh;
typedef Geometry::ConformalMesh<Shape::Hypercube<3>, 3, double> HexaMesh;
typedef Geometry::ConformalMesh<Shape::Simplex<3>, 3, double> TetraMesh;

static int failures = 0;

// ------------------------------------------------------------------------------------------------
// forked parse
// ------------------------------------------------------------------------------------------------
enum Outcome
{
  accepted = 0,
  content_error = 10,
  grammar_error = 11,
  syntax_error = 12,
  other_exception = 13,
  linker_error = 15, // file was parsed completely, but a chart of a companion file is missing
  unknown_exception = 14,
  killed = 99
};

struct Result
{
  Outcome outcome;
  int signal;
  std::string text;
};

template<typename Mesh_>
static Result parse_in_child(const std::vector<std::string>& xmls)
{
  int fd[2];
  if(pipe(fd) != 0)
  {
    perror("pipe");
    exit(3);
  }
  fflush(stdout);
  fflush(stderr);
  pid_t pid = fork();
  if(pid < 0)
  {
    perror("fork");
    exit(3);
  }
  if(pid == 0)
  {
    close(fd[0]);
    // silence the assertion message / terminate message of the child
    int devnull = open("/dev/null", O_WRONLY);
    if(devnull >= 0)
    {
      dup2(devnull, 1);
      dup2(devnull, 2);
    }
    int code = accepted;
    std::string msg;
    try
    {
      std::deque<std::stringstream> streams;
      Geometry::MeshFileReader reader;
      for(const auto& xml : xmls)
      {
        streams.emplace_back(xml);
        reader.add_stream(streams.back());
      }
      Geometry::MeshAtlas<Mesh_> atlas;
      Geometry::RootMeshNode<Mesh_> node(nullptr, &atlas);
      Geometry::PartitionSet part_set;
      reader.parse(node, atlas, &part_set);
      msg = "accepted";
      if(node.get_mesh() != nullptr)
        msg += " (" + stringify(node.get_mesh()->get_num_elements()) + " elements";
      else
        msg += " (no mesh";
      for(const auto& p : part_set.get_partitions())
        msg += "; partition with " + stringify(p.get_num_patches()) + " patches, " + stringify(p.get_num_elements()) + " elements";
      msg += ")";
    }
    catch(const Xml::ContentError& e)
    {
      code = content_error;
      msg = std::string("Xml::ContentError: ") + e.get_message();
    }
    catch(const Xml::GrammarError& e)
    {
      code = grammar_error;
      msg = std::string("Xml::GrammarError: ") + e.get_message();
    }
    catch(const Xml::SyntaxError& e)
    {
      code = syntax_error;
      msg = std::string("Xml::SyntaxError: ") + e.get_message();
    }
    catch(const Geometry::MeshNodeLinkerError& e)
    {
      // thrown by MeshNodeLinker::execute() after all streams have been parsed
      code = linker_error;
      msg = std::string("parsed; Geometry::MeshNodeLinkerError: ") + e.what();
    }
    catch(const std::exception& e)
    {
      code = other_exception;
      msg = std::string("undocumented exception ") + typeid(e).name() + ": " + e.what();
    }
    catch(...)
    {
      code = unknown_exception;
      msg = "unknown exception";
    }
    if(write(fd[1], msg.data(), msg.size()) < 0) {}
    close(fd[1]);
    _exit(code);
  }

  close(fd[1]);
  Result r;
  char buf[1024];
  ssize_t k;
  while((k = read(fd[0], buf, sizeof(buf))) > 0)
    r.text.append(buf, std::size_t(k));
  close(fd[0]);
  int status = 0;
  waitpid(pid, &status, 0);
  r.signal = 0;
  if(WIFSIGNALED(status))
  {
    r.outcome = killed;
    r.signal = WTERMSIG(status);
    r.text = "process killed by signal " + std::to_string(r.signal) + " (" + strsignal(r.signal) + ")";
  }
  else
    r.outcome = Outcome(WEXITSTATUS(status));
  return r;
}

// ------------------------------------------------------------------------------------------------
// the mesh file texts
// ------------------------------------------------------------------------------------------------
static std::string root_open(const std::string& root_decl)
{
  return "<FeatMeshFile version=\"1\"" + (root_decl.empty() ? std::string() : " mesh=\"" + root_decl + "\"") + ">\n";
}

// unit square, one quad
static std::string quad_text(const std::string& root_decl, const std::string& mesh_type)
{
  return root_open(root_decl) +
    "  <Mesh type=\"" + mesh_type + "\" size=\"4 4 1\">\n"
    "    <Vertices>\n      0 0\n      1 0\n      0 1\n      1 1\n    </Vertices>\n"
    "    <Topology dim=\"1\">\n      0 1\n      2 3\n      0 2\n      1 3\n    </Topology>\n"
    "    <Topology dim=\"2\">\n      0 1 2 3\n    </Topology>\n"
    "  </Mesh>\n"
    "</FeatMeshFile>\n";
}

// one triangle
static std::string tria_text(const std::string& root_decl, const std::string& mesh_type)
{
  return root_open(root_decl) +
    "  <Mesh type=\"" + mesh_type + "\" size=\"3 3 1\">\n"
    "    <Vertices>\n      0 0\n      1 0\n      0 1\n    </Vertices>\n"
    "    <Topology dim=\"1\">\n      1 2\n      2 0\n      0 1\n    </Topology>\n"
    "    <Topology dim=\"2\">\n      0 1 2\n    </Topology>\n"
    "  </Mesh>\n"
    "</FeatMeshFile>\n";
}

// a file without a root mesh: just a chart
static std::string chart_text(const std::string& root_decl)
{
  return root_open(root_decl) +
    "  <Chart name=\"outer\">\n    <Circle radius=\"1\" midpoint=\"0 0\" domain=\"0 4\" />\n  </Chart>\n"
    "</FeatMeshFile>\n";
}

template<typename Mesh_>
static void expect_rejected(const char* what, const std::vector<std::string>& xmls)
{
  Result r = parse_in_child<Mesh_>(xmls);
  const bool good = (r.outcome == content_error) || (r.outcome == grammar_error);
  printf("  %-74s -> %s  [%s]\n", what, r.text.c_str(), good ? "ok" : "FAILED: expected Xml::ContentError/GrammarError");
  if(!good)
    ++failures;
}

template<typename Mesh_>
static void expect_accepted(const char* what, const std::vector<std::string>& xmls)
{
  Result r = parse_in_child<Mesh_>(xmls);
  const bool good = (r.outcome == accepted);
  printf("  %-74s -> %s  [%s]\n", what, r.text.c_str(), good ? "ok" : "FAILED: valid file must parse");
  if(!good)
    ++failures;
}

// ------------------------------------------------------------------------------------------------
// regression: shipped mesh files
// ------------------------------------------------------------------------------------------------
static void check_shipped_files(const std::string& dir)
{
  std::vector<std::string> names;
  DIR* d = opendir(dir.c_str());
  if(d == nullptr)
  {
    printf("  cannot open directory '%s'  [FAILED]\n", dir.c_str());
    ++failures;
    return;
  }
  while(dirent* e = readdir(d))
  {
    std::string n(e->d_name);
    if((n.size() > 4u) && (n.compare(n.size() - 4u, 4u, ".xml") == 0))
      names.push_back(n);
  }
  closedir(d);
  std::sort(names.begin(), names.end());

  int num_parsed = 0, num_skipped = 0, num_bad = 0, num_linker = 0;
  for(const auto& n : names)
  {
    std::ifstream ifs(dir + "/" + n);
    std::stringstream ss;
    ss << ifs.rdbuf();
    const std::string text = ss.str();

    // fetch the declared mesh type from the root markup
    std::string decl;
    {
      std::size_t p0 = text.find("<FeatMeshFile");
      std::size_t p1 = (p0 == std::string::npos) ? p0 : text.find('>', p0);
      if(p1 != std::string::npos)
      {
        std::size_t q0 = text.find("mesh=\"", p0);
        if((q0 != std::string::npos) && (q0 < p1))
          decl = text.substr(q0 + 6u, text.find('"', q0 + 6u) - q0 - 6u);
      }
    }

    Result r;
    if(decl == "conformal:hypercube:2:2")
      r = parse_in_child<QuadMesh>({text});
    else if(decl == "conformal:simplex:2:2")
      r = parse_in_child<TriaMesh>({text});
    else if(decl == "conformal:hypercube:3:3")
      r = parse_in_child<HexaMesh>({text});
    else if(decl == "conformal:simplex:3:3")
      r = parse_in_child<TetraMesh>({text});
    else
    {
      ++num_skipped;
      printf("  %-52s skipped (root markup declares '%s')\n", n.c_str(), decl.c_str());
      continue;
    }
    ++num_parsed;
    if(r.outcome == linker_error)
    {
      // the mesh file refers to charts stored in a companion file: the file itself was parsed completely
      ++num_linker;
      printf("  %-52s %-24s -> %s\n", n.c_str(), decl.c_str(), r.text.c_str());
    }
    else if(r.outcome != accepted)
    {
      ++num_bad;
      printf("  %-52s %-24s -> %s  [FAILED: shipped file must parse]\n", n.c_str(), decl.c_str(), r.text.c_str());
    }
  }
  printf("  %d files parsed with the declared mesh type (%d of them lack the charts of a companion file), %d not accepted, %d skipped  [%s]\n",
    num_parsed, num_linker, num_bad, num_skipped,
    ((num_bad == 0) && (num_parsed > 0)) ? "ok" : "FAILED");
  if((num_bad > 0) || (num_parsed == 0))
    ++failures;
}

int main(int argc, char** argv)
{
  const std::string q22 = "conformal:hypercube:2:2";
  const std::string s22 = "conformal:simplex:2:2";

  printf("controls\n");
  expect_accepted<QuadMesh>("root mesh=\"conformal:hypercube:2:2\", <Mesh type=\"conformal:hypercube:2:2\">", {quad_text(q22, q22)});
  expect_accepted<TriaMesh>("root mesh=\"conformal:simplex:2:2\", <Mesh type=\"conformal:simplex:2:2\">", {tria_text(s22, s22)});
  expect_accepted<QuadMesh>("root without mesh attribute, <Mesh type=\"conformal:hypercube:2:2\">", {quad_text("", q22)});
  expect_accepted<QuadMesh>("chart file (no decl) + mesh file (decl hypercube:2:2)", {chart_text(""), quad_text(q22, q22)});
  expect_accepted<QuadMesh>("chart file (decl hypercube:2:2) + mesh file (no decl)", {chart_text(q22), quad_text("", q22)});
  expect_accepted<QuadMesh>("chart file (decl hypercube:2:2) + mesh file (decl hypercube:2:2)", {chart_text(q22), quad_text(q22, q22)});
  expect_rejected<QuadMesh>("quad reader: root simplex:2:2, <Mesh type=simplex:2:2> (rejected before)", {tria_text(s22, s22)});

  printf("root markup declares another mesh type than the <Mesh> element\n");
  expect_rejected<QuadMesh>("root mesh=\"conformal:simplex:2:2\", <Mesh type=\"conformal:hypercube:2:2\">", {quad_text(s22, q22)});
  expect_rejected<TriaMesh>("root mesh=\"conformal:hypercube:2:2\", <Mesh type=\"conformal:simplex:2:2\">", {tria_text(q22, s22)});
  expect_rejected<QuadMesh>("root mesh=\"conformal:hypercube:3:3\", <Mesh type=\"conformal:hypercube:2:2\">", {quad_text("conformal:hypercube:3:3", q22)});
  expect_rejected<QuadMesh>("root mesh=\"conformal:hypercube:2:3\", <Mesh type=\"conformal:hypercube:2:2\">", {quad_text("conformal:hypercube:2:3", q22)});

  printf("regression: shipped mesh files\n");
  if(argc > 1)
    check_shipped_files(argv[1]);
  else
  {
    printf("  no mesh directory given  [FAILED]\n");
    ++failures;
  }

  if(failures > 0)
  {
    printf("DEFECT: %d check(s) failed\n", failures);
    return 1;
  }
  printf("OK: contradicting mesh type declarations are rejected, all controls and shipped files parse\n");
  return 0;
}
