// Demo for DomainAssembler::clear(): after clear() the assembler must be reusable,
// i.e. add_element()/add_mesh_part() + compile() must work again and must only
// select the elements that were added after the clear().
//
// 2x2 quad mesh of the unit square (4 elements).
#include <kernel/runtime.hpp>
#include <kernel/geometry/conformal_mesh.hpp>
#include <kernel/geometry/common_factories.hpp>
#include <kernel/trafo/standard/mapping.hpp>
#include <kernel/assembly/domain_assembler.hpp>

#include <iostream>
#include <stdexcept>
#include <vector>

using namespace FEAT;

static void print(const char* what, const std::vector<Index>& v)
{
  std::cout << what << " {";
  for(std::size_t i(0); i < v.size(); ++i)
    std::cout << (i > 0 ? "," : "") << v[i];
  std::cout << "}\n";
}

int main(int argc, char** argv)
{
  Runtime::ScopeGuard guard(argc, argv);

  typedef Shape::Quadrilateral ShapeType;
  typedef Geometry::ConformalMesh<ShapeType> MeshType;
  typedef Trafo::Standard::Mapping<MeshType> TrafoType;

  Geometry::RefinedUnitCubeFactory<MeshType> factory(1);
  MeshType mesh(factory);
  TrafoType trafo(mesh);

  Assembly::DomainAssembler<TrafoType> dom_asm(trafo);
  dom_asm.set_max_worker_threads(0);

  dom_asm.add_element(0);
  dom_asm.compile();
  const std::vector<Index> first = dom_asm.get_element_indices();
  print("elements after add_element(0); compile()          :", first);

  dom_asm.clear();
  try
  {
    dom_asm.add_element(3);
  }
  catch(const std::out_of_range& exc)
  {
    std::cout << "DEFECT: clear(); add_element(3) threw std::out_of_range: " << exc.what() << "\n";
    return 1;
  }
  dom_asm.compile();
  const std::vector<Index> second = dom_asm.get_element_indices();
  print("elements after clear(); add_element(3); compile() :", second);

  const bool ok = (first == std::vector<Index>{Index(0)}) && (second == std::vector<Index>{Index(3)});
  std::cout << (ok ? "OK" : "DEFECT: wrong element set after clear()") << "\n";
  return ok ? 0 : 1;
}
