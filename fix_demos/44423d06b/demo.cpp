// Demo for Geometry::Intern::PartiIterativeIndividual: the constructor picks random patch
// centres and assigns each cell to the nearest centre; the distance search from each centre
// is cut off at an exploration threshold, and the constructor is documented to retry with new
// centres if some cell was not reached from any centre.
//
// Mesh: a 200x1 strip of quads, 2 patches -> exploration threshold = max(sqrt(200)+1, 200/2) = 100,
// so e.g. centres {10,20} leave cells > ~121 unreached.
//
// For 40 different Random seeds we check that the constructor does not throw and yields a valid
// partition: every cell in exactly one patch, all patches non-empty, cell->patch map consistent
// and every cell assigned to (one of) its nearest centre(s).
#include <kernel/runtime.hpp>
#include <kernel/geometry/conformal_mesh.hpp>
#include <kernel/geometry/parti_iterative.hpp>
#include <kernel/util/random.hpp>

#include <iostream>
#include <vector>
#include <set>
#include <exception>
#include <unistd.h>

using namespace FEAT;

typedef Shape::Quadrilateral ShapeType;
typedef Geometry::ConformalMesh<ShapeType> MeshType;
typedef Geometry::Intern::PartiIterativeIndividual<ShapeType, 2, Real> IndividualType;

static constexpr Index N = 200;

// builds the N x 1 quad strip [0,N]x[0,1]
static void fill_strip(MeshType& mesh)
{
  auto& vtx = mesh.get_vertex_set();
  for(Index i(0); i <= N; ++i)
  {
    vtx[i][0] = Real(i);       vtx[i][1] = Real(0);
    vtx[N+1+i][0] = Real(i);   vtx[N+1+i][1] = Real(1);
  }

  auto& v_at_e = mesh.get_index_set<1, 0>();
  auto& v_at_q = mesh.get_index_set<2, 0>();
  auto& e_at_q = mesh.get_index_set<2, 1>();

  for(Index i(0); i < N; ++i)
  {
    // bottom edge i
    v_at_e(i, 0) = i;           v_at_e(i, 1) = i+1;
    // top edge i
    v_at_e(N+i, 0) = N+1+i;     v_at_e(N+i, 1) = N+1+i+1;
  }
  for(Index i(0); i <= N; ++i)
  {
    // vertical edge i
    v_at_e(2*N+i, 0) = i;       v_at_e(2*N+i, 1) = N+1+i;
  }
  for(Index i(0); i < N; ++i)
  {
    v_at_q(i, 0) = i;      v_at_q(i, 1) = i+1;  v_at_q(i, 2) = N+1+i;  v_at_q(i, 3) = N+1+i+1;
    e_at_q(i, 0) = i;      e_at_q(i, 1) = N+i;  e_at_q(i, 2) = 2*N+i;  e_at_q(i, 3) = 2*N+i+1;
  }
  mesh.fill_neighbors();
}

static Index dist(Index a, Index b)
{
  return a < b ? b - a : a - b;
}

// returns an empty string if the partition is valid, otherwise a description of what is wrong
static String validate(const IndividualType& indi)
{
  if(indi._cells_per_patch.size() != std::size_t(2))
    return "wrong number of patches";
  if(indi._centers.size() != std::size_t(2))
    return "wrong number of centres";

  const std::vector<Index> centers(indi._centers.begin(), indi._centers.end());

  std::vector<int> count(N, 0);
  for(Index p(0); p < Index(2); ++p)
  {
    if(indi._cells_per_patch[p].empty())
      return "patch " + stringify(p) + " is empty";
    for(Index cell : indi._cells_per_patch[p])
    {
      if(cell >= N)
        return "invalid cell index " + stringify(cell);
      ++count[cell];
      if(indi._patch_per_cell.at(cell) != p)
        return "inconsistent cell->patch map for cell " + stringify(cell);
      if(dist(cell, centers[p]) > dist(cell, centers[1-p]))
        return "cell " + stringify(cell) + " assigned to patch " + stringify(p) + " (centre " + stringify(centers[p])
          + ") although centre " + stringify(centers[1-p]) + " is nearer";
    }
  }
  for(Index cell(0); cell < N; ++cell)
  {
    if(count[cell] != 1)
      return "cell " + stringify(cell) + " is contained in " + stringify(count[cell]) + " patches";
  }
  return "";
}

int main(int argc, char** argv)
{
  Runtime::ScopeGuard guard(argc, argv);

  // safety net: the constructor under test contains a retry loop
  alarm(300);

  const Index num_entities[3] = {2*(N+1), 3*N+1, N};
  MeshType mesh(num_entities);
  fill_strip(mesh);

  // sanity check of the hand-made mesh: neighbours of cell i are i-1 and i+1
  {
    const auto& neigh = mesh.get_neighbors();
    for(Index i(0); i < N; ++i)
    {
      std::set<Index> s;
      for(int j(0); j < 4; ++j)
        if(neigh(i, j) != ~Index(0))
          s.insert(neigh(i, j));
      std::set<Index> expected;
      if(i > 0) expected.insert(i-1);
      if(i+1 < N) expected.insert(i+1);
      if(s != expected)
      {
        std::cout << "mesh setup broken at cell " << i << "\n";
        return 2;
      }
    }
  }

  int num_fail = 0;
  const int num_seeds = 40;
  for(int seed(1); seed <= num_seeds; ++seed)
  {
    Random rng(Random::SeedType(1000 + 7919*seed));
    // scribble over a heap block of the size of the constructor's internal item list and release
    // it again, so that never-written item entries do not accidentally contain plausible stale
    // patch indices of the previous run (this has no effect on correct code)
    {
      std::vector<Geometry::Intern::PartiIterativeItem> poison(N);
      for(auto& p : poison)
        p.patch = ~Index(0);
    }
    String what;
    String info;
    try
    {
      IndividualType indi(mesh, rng, Index(2));
      what = validate(indi);
      auto it = indi._centers.begin();
      info = "centres {" + stringify(*it) + ",";
      info += stringify(*(++it)) + "} sizes {" + stringify(indi._cells_per_patch[0].size()) + "," + stringify(indi._cells_per_patch[1].size()) + "}";
    }
    catch(const std::exception& exc)
    {
      what = String("constructor threw: ") + exc.what();
    }
    if(!what.empty())
    {
      ++num_fail;
      std::cout << "seed #" << seed << ": FAILED: " << what << (info.empty() ? String() : " [" + info + "]") << "\n";
    }
    else
      std::cout << "seed #" << seed << ": ok " << info << "\n";
  }

  std::cout << num_fail << " of " << num_seeds << " seeds failed\n";
  std::cout << (num_fail == 0 ? "OK" : "DEFECT: unreached cells were not handled by a retry with new centres") << "\n";
  return num_fail == 0 ? 0 : 1;
}
