// GMRES(k) with a fixed number of iterations (min_iter == max_iter) must produce the same iterate
// as GMRES(k) that is stopped by max_iter only (min_iter = 0, tolerances 0): the stopping window
// is pure convergence-control bookkeeping and must not influence the Krylov recurrence.
//
// On HEAD the restart normalises the new residual v[0] with the cached defect norm _def_cur,
// which IterativeSolver::_set_new_defect() does not refresh if min_iter >= max_iter (with the
// default skip_defect_calc = true, no iteration plot, no stagnation check).
//
// exit code 0 = correct behaviour, non-zero = defect manifests
#include <kernel/base_header.hpp>
#include <kernel/runtime.hpp>
#include <kernel/lafem/dense_vector.hpp>
#include <kernel/lafem/sparse_matrix_csr.hpp>
#include <kernel/lafem/none_filter.hpp>
#include <kernel/lafem/pointstar_factory.hpp>
#include <kernel/solver/gmres.hpp>

#include <iostream>
#include <cmath>

using namespace FEAT;
using namespace FEAT::LAFEM;

typedef double DT;
typedef Index IT;
typedef SparseMatrixCSR<DT, IT> MatrixType;
typedef DenseVector<DT, IT> VectorType;
typedef NoneFilter<DT, IT> FilterType;

struct Result
{
  VectorType sol;
  Index iters;
  DT res;
};

static Result run(const MatrixType& matrix, const FilterType& filter, const VectorType& rhs,
  Index krylov_dim, Index min_iter, Index max_iter)
{
  auto solver = Solver::new_gmres(matrix, filter, krylov_dim);
  solver->set_min_iter(min_iter);
  solver->set_max_iter(max_iter);
  solver->set_tol_rel(DT(0));
  solver->set_tol_abs(DT(0));
  solver->set_tol_abs_low(DT(0));
  solver->set_plot_mode(Solver::PlotMode::none);

  Result r;
  r.sol = rhs.clone(CloneMode::Layout);
  r.sol.format();
  solver->init();
  solver->correct(r.sol, rhs);
  r.iters = solver->get_num_iter();
  solver->done();

  VectorType def(rhs.clone(CloneMode::Layout));
  matrix.apply(def, r.sol, rhs, -DT(1));
  r.res = def.norm2();
  return r;
}

static int check(const MatrixType& matrix, const FilterType& filter, const VectorType& rhs,
  Index krylov_dim, Index num_iter)
{
  Result fixed = run(matrix, filter, rhs, krylov_dim, num_iter, num_iter);
  Result window = run(matrix, filter, rhs, krylov_dim, Index(0), num_iter);

  VectorType diff(fixed.sol.clone(CloneMode::Deep));
  diff.axpy(window.sol, -DT(1));
  const DT d = diff.norm2();

  const bool ok = (fixed.iters == window.iters) && std::isfinite(d) && (d <= 1E-10 * (DT(1) + window.sol.norm2()));
  std::cout << (ok ? "ok   " : "FAIL ") << "GMRES" "(" << krylov_dim << "), " << num_iter << " iterations:"
    << " fixed count [" << num_iter << "," << num_iter << "]: iters=" << fixed.iters << " |b-Ax|=" << fixed.res
    << "; window [0," << num_iter << "]: iters=" << window.iters << " |b-Ax|=" << window.res
    << "; |x_fixed - x_window|=" << d << std::endl;
  return ok ? 0 : 1;
}

int main(int argc, char** argv)
{
  Runtime::initialize(argc, argv);
  int fails = 0;
  {
    // the system of basic_solver-test: 17x17 FD pointstar matrix, rhs = A * q2-bubble
    PointstarFactoryFD<DT, IT> psf(Index(17), Index(2));
    MatrixType matrix(psf.matrix_csr());
    VectorType ref(psf.vector_q2_bubble());
    VectorType rhs(ref.clone(CloneMode::Layout));
    matrix.apply(rhs, ref);
    FilterType filter;

    // no restart within the iteration count: control case
    fails += check(matrix, filter, rhs, Index(5), Index(4));
    // several restarts
    fails += check(matrix, filter, rhs, Index(5), Index(23));
    fails += check(matrix, filter, rhs, Index(5), Index(40));
  }
  std::cout << (fails ? "DEFECT" : "PASSED") << " (" << fails << " failing cases)" << std::endl;
  Runtime::finalize();
  return fails ? 1 : 0;
}
