// demo: MeshPart <Mapping> indices beyond the entity count of the root mesh must be rejected
#include <kernel/runtime.hpp>
#include <kernel/geometry/conformal_mesh.hpp>
#include <kernel/geometry/mesh_file_reader.hpp>

#include <iostream>
#include <sstream>
#include <string>

using namespace FEAT;

typedef Geometry::ConformalMesh<Shape::Simplex<2>, 2, Real> MeshType;

// one triangle: 3 vertices, 3 edges, 1 cell
static const char* const mesh_text =
  "  <Mesh type=\"conformal:simplex:2:2\" size=\"3 3 1\">\n"
  "    <Vertices>\n      0 0\n      1 0\n      0 1\n    </Vertices>\n"
  "    <Topology dim=\"1\">\n      0 1\n      1 2\n      2 0\n    </Topology>\n"
  "    <Topology dim=\"2\">\n      0 1 2\n    </Topology>\n"
  "  </Mesh>\n";

// mesh part with two vertices and one edge; @V@ = second vertex index, @E@ = edge index
static std::string part_text(const std::string& topo, const std::string& v, const std::string& e)
{
  return
    "  <MeshPart name=\"p\" parent=\"root\" topology=\"" + topo + "\" size=\"2 1\">\n"
    "    <Mapping dim=\"0\">\n      0\n      " + v + "\n    </Mapping>\n"
    "    <Mapping dim=\"1\">\n      " + e + "\n    </Mapping>\n"
    "  </MeshPart>\n";
}

static std::string file_text(const std::string& part, bool part_first)
{
  std::string t("<FeatMeshFile version=\"1\" mesh=\"conformal:simplex:2:2\">\n");
  t += part_first ? (part + mesh_text) : (mesh_text + part);
  return t + "</FeatMeshFile>\n";
}

// returns 0 = parsed, 1 = Xml error, 2 = other documented FEAT exception
static int run(const std::string& text, std::string& what)
{
  std::istringstream iss(text);
  try
  {
    Geometry::MeshFileReader reader(iss);
    Geometry::MeshAtlas<MeshType> atlas;
    auto node = reader.parse<MeshType>(atlas);
    what = "parsed";
    return 0;
  }
  catch(const Xml::Error& e)
  {
    what = e.what();
    return 1;
  }
  catch(const Exception& e)
  {
    what = e.what();
    return 2;
  }
}

int main(int argc, char** argv)
{
  Runtime::initialize(argc, argv);
  bool ok = true;
  std::string what;

  struct Case { const char* name; std::string text; bool valid; };
  const Case cases[] = {
    // control: valid files have to be accepted in both orders
    {"valid, mesh first         ", file_text(part_text("parent", "1", "0"), false), true},
    {"valid, part first         ", file_text(part_text("parent", "1", "0"), true), true},
    // vertex index 3 in a mesh with 3 vertices; no topology, so nothing crashes at HEAD: silently accepted
    {"vertex 3 of 3, topo none  ", file_text(part_text("none", "3", "0"), false), false},
    {"vertex 3 of 3, part first ", file_text(part_text("none", "3", "0"), true), false},
    // the following crash at HEAD in MeshPart::deduct_topology()
    {"edge 999999999, part first", file_text(part_text("parent", "1", "999999999"), true), false},
    {"vertex 3 of 3, topo parent", file_text(part_text("parent", "3", "0"), false), false},
    {"edge 999999999 of 3       ", file_text(part_text("parent", "1", "999999999"), false), false},
  };

  for(const Case& c : cases)
  {
    std::cout << c.name << ": " << std::flush;
    int r = run(c.text, what);
    bool good = c.valid ? (r == 0) : (r != 0);
    for(char& ch : what) if(ch == '\n') ch = ' ';
    std::cout << (good ? "ok   " : "WRONG") << " [" << what << "]" << std::endl;
    ok = ok && good;
  }

  std::cout << (ok ? "PASS" : "FAIL") << std::endl;
  Runtime::finalize();
  return ok ? 0 : 1;
}
