// Demo: CuthillMcKee::compute on the empty graph (Graph() with 0 nodes) must return an empty
// permutation instead of aborting in Permutation(0) ("cannot create empty permutation").
//
// exit 0  = correct behaviour (empty permutation, no layers; non-empty graphs unchanged)
// exit !0 = defect manifests (the child process computing the permutation is killed)
#include <kernel/base_header.hpp>
#include <kernel/adjacency/graph.hpp>
#include <kernel/adjacency/permutation.hpp>
#include <kernel/adjacency/cuthill_mckee.hpp>

#include <cstdio>
#include <cstdlib>
#include <cstring>
#include <vector>
#include <unistd.h>
#include <sys/types.h>
#include <sys/wait.h>

using namespace FEAT;
using namespace FEAT::Adjacency;

typedef CuthillMcKee::RootType RootType;
typedef CuthillMcKee::SortType SortType;

static int failures = 0;

// runs 'func' in a forked child; returns its exit code or -1 if it was killed
template<typename Func_>
static int in_child(Func_&& func)
{
  fflush(stdout);
  fflush(stderr);
  pid_t pid = fork();
  if(pid == 0)
  {
    // silence the assertion message / back-trace of the child
    if(freopen("/dev/null", "w", stderr) == nullptr) {}
    _exit(func());
  }
  int status = 0;
  waitpid(pid, &status, 0);
  if(WIFEXITED(status))
    return WEXITSTATUS(status);
  if(WIFSIGNALED(status))
    printf("      [child killed by signal %d (%s)]\n", WTERMSIG(status), strsignal(WTERMSIG(status)));
  return -1;
}

static void report(const char* what, int rc)
{
  const char* msg = (rc == 0) ? "ok" : (rc == -1) ? "CRASHED" : "WRONG RESULT";
  printf("  %-66s -> %s%s\n", what, msg, (rc > 0) ? (" (code " + stringify(rc) + ")").c_str() : "");
  if(rc != 0)
    ++failures;
}

// the empty graph, without layers
static int empty_plain(const Graph& g, bool reverse, RootType rt, SortType st)
{
  Permutation perm = CuthillMcKee::compute(g, reverse, rt, st);
  if(!perm.empty()) return 2;
  if(perm.size() != Index(0)) return 3;
  // the usual follow-up operations must work on the result
  if(!perm.inverse().empty()) return 4;
  if(!perm.clone().empty()) return 5;
  return 0;
}

// the empty graph, with layers
static int empty_layers(const Graph& g, bool reverse, RootType rt, SortType st)
{
  std::vector<Index> layers;
  Permutation perm = CuthillMcKee::compute(layers, g, reverse, rt, st);
  if(!perm.empty()) return 2;
  // no nodes => no layers
  if(!layers.empty()) return 6;
  return 0;
}

// a non-empty graph: two components 0-1-2 (path) and 3 (isolated)
static int nonempty(bool reverse)
{
  Index dom_ptr[5] = {0, 2, 5, 7, 8};
  Index img_idx[8] = {0, 1, 0, 1, 2, 1, 2, 3};
  Graph g(4, 4, 8, dom_ptr, img_idx);
  std::vector<Index> layers;
  Permutation perm = CuthillMcKee::compute(layers, g, reverse, RootType::standard, SortType::standard);
  if(perm.size() != Index(4)) return 2;
  const Index* p = perm.get_perm_pos();
  const Index ref_fwd[4] = {0, 1, 2, 3};
  const Index ref_rev[4] = {2, 1, 0, 3};
  for(int i(0); i < 4; ++i)
    if(p[i] != (reverse ? ref_rev[i] : ref_fwd[i])) return 3;
  if(layers.empty() || (layers.front() != Index(0)) || (layers.back() != Index(4))) return 4;
  for(std::size_t i(0); i+1u < layers.size(); ++i)
    if(layers[i] > layers[i+1u]) return 5;
  return 0;
}

int main()
{
  printf("CuthillMcKee::compute on the empty graph\n");

  const RootType rts[3] = {RootType::standard, RootType::minimum_degree, RootType::maximum_degree};
  const SortType sts[3] = {SortType::standard, SortType::asc, SortType::desc};
  const char* rtn[3] = {"standard", "minimum_degree", "maximum_degree"};
  const char* stn[3] = {"standard", "asc", "desc"};

  // default-constructed graph
  report("compute(Graph()) with default arguments", in_child([]() {
    Graph g;
    Permutation perm = CuthillMcKee::compute(g);
    return perm.empty() ? 0 : 2;
  }));

  for(int rev(0); rev < 2; ++rev)
  {
    for(int r(0); r < 3; ++r)
    {
      for(int s(0); s < 3; ++s)
      {
        String name = String("Graph(), reverse=") + (rev ? "true" : "false") + ", root=" + rtn[r] + ", sort=" + stn[s];
        report((name + " [no layers]").c_str(), in_child([&]() {
          Graph g;
          return empty_plain(g, rev != 0, rts[r], sts[s]);
        }));
        report((name + " [layers]").c_str(), in_child([&]() {
          Graph g;
          return empty_layers(g, rev != 0, rts[r], sts[s]);
        }));
      }
    }
  }

  // an allocated graph with 0 domain nodes (but 3 image nodes)
  report("Graph(0, 3, 0) [layers]", in_child([]() {
    Graph g(0, 3, 0);
    return empty_layers(g, true, RootType::minimum_degree, SortType::asc);
  }));

  // non-empty graphs must behave as before
  report("path 0-1-2 + isolated node 3, reverse=false", in_child([]() { return nonempty(false); }));
  report("path 0-1-2 + isolated node 3, reverse=true", in_child([]() { return nonempty(true); }));

  if(failures > 0)
  {
    printf("DEFECT: %d case(s) failed\n", failures);
    return 1;
  }
  printf("OK: the empty graph yields an empty permutation without layers\n");
  return 0;
}
