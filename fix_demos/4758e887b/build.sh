#!/bin/bash
# builds and runs the demo; exit 0 = correct, non-zero = defect manifests
HERE="$(cd "$(dirname "$0")" && pwd)"
ROOT="$(cd "$HERE/../.." && pwd)"
B="$ROOT/_build"
LIBS="$B/kernel/meshopt/libkernel-meshopt.a $B/kernel/cubature/libkernel-cubature.a $B/kernel/geometry/libkernel-geometry.a $B/kernel/solver/libkernel-solver.a $B/kernel/lafem/libkernel-lafem.a $B/kernel/adjacency/libkernel-adjacency.a $B/kernel/lafem/arch/libkernel-lafem-arch.a $B/kernel/voxel_assembly/libkernel-voxel-assembly.a $B/kernel/voxel_assembly/arch/libkernel-voxel-assembly-arch.a $B/kernel/util/libkernel-util.a $B/kernel/libkernel-root.a $B/kernel/util/libkernel-util.a $B/kernel/libkernel-root.a"
g++ -std=c++17 -O1 -fopenmp -I"$B" -I"$ROOT" "$HERE/demo.cpp" -o "$HERE/demo" $LIBS || exit 3
"$HERE/demo"
