// Demo: "auto-degree:<n>" on Simplex<2> must pick the highest available rule (dunavant:19, 73 points)
// for every n above max_auto_degree -- also for values of n that do not fit into an int.
#include <kernel/cubature/dynamic_factory.hpp>
#include <kernel/cubature/auto_alias.hpp>
#include <kernel/cubature/rule.hpp>
#include <iostream>

using namespace FEAT;

typedef Shape::Simplex<2> ShapeType;
typedef Cubature::Rule<ShapeType, double, double> RuleType;

static int check(const String& name, const String& expected_alias, int expected_points)
{
  const String alias = Cubature::AutoAlias<ShapeType>::map(name);
  RuleType rule;
  const bool ok = Cubature::DynamicFactory::create(rule, name);
  const int npts = ok ? rule.get_num_points() : -1;
  const bool good = ok && (alias == expected_alias) && (npts == expected_points);
  std::cout << (good ? "ok    " : "WRONG ") << name.pad_back(26) << " -> " << alias.pad_back(12)
    << " (" << npts << " points); expected " << expected_alias << " (" << expected_points << " points)" << std::endl;
  return good ? 0 : 1;
}

int main()
{
  int bad = 0;
  // in-range requests
  bad += check("auto-degree:2", "dunavant:2", 3);
  bad += check("auto-degree:5", "dunavant:5", 7);
  bad += check("auto-degree:19", "dunavant:19", 73);
  // requests above max_auto_degree = 19 have to be answered by the highest rule
  bad += check("auto-degree:20", "dunavant:19", 73);
  bad += check("auto-degree:4294967295", "dunavant:19", 73);
  if(sizeof(Index) > sizeof(int))
  {
    bad += check("auto-degree:4294967298", "dunavant:19", 73); // 2^32 + 2
    bad += check("auto-degree:8589934597", "dunavant:19", 73); // 2^33 + 5
    bad += check("auto-degree:18446744073709551615", "dunavant:19", 73); // 2^64 - 1
  }
  if(bad != 0)
  {
    std::cout << "DEFECT: " << bad << " auto-degree request(s) above the maximum degree mapped to a low-order rule" << std::endl;
    return 1;
  }
  std::cout << "OK" << std::endl;
  return 0;
}
