// Demo for RootMeshNode::extract_patch(elements, split_meshparts, split_halos, split_patches):
// base halos / base patch mesh-parts that do not intersect the extracted patch must simply
// not appear in the extracted node; halos / patches that do intersect must be split.
//
// Mesh: unit square refined twice (4x4 quads). Extracted patch = the single cell that
// contains the corner vertex 3 at (1,1).
//  - halo  1: vertex 0 at (0,0) only          -> disjoint from the patch
//  - halo  2: all 4 vertices of the patch cell -> intersects the patch
//  - patch 0: the cell that contains vertex 0  -> disjoint from the patch
//  - patch 1: the extracted cell itself        -> intersects the patch
//
// usage: demo halos | demo patches
#include <kernel/runtime.hpp>
#include <kernel/geometry/conformal_mesh.hpp>
#include <kernel/geometry/common_factories.hpp>
#include <kernel/geometry/mesh_part.hpp>
#include <kernel/geometry/mesh_node.hpp>
#include <kernel/geometry/patch_meshpart_factory.hpp>

#include <iostream>
#include <memory>
#include <vector>

using namespace FEAT;

typedef Shape::Quadrilateral ShapeType;
typedef Geometry::ConformalMesh<ShapeType> MeshType;
typedef Geometry::MeshPart<MeshType> MeshPartType;
typedef Geometry::RootMeshNode<MeshType> RootMeshNodeType;

// returns the index of the (unique) cell adjacent to a corner vertex
static Index find_cell_at_vertex(const MeshType& mesh, Index vtx)
{
  const auto& v_at_c = mesh.get_index_set<2, 0>();
  for(Index c(0); c < mesh.get_num_elements(); ++c)
    for(int j(0); j < 4; ++j)
      if(v_at_c(c, j) == vtx)
        return c;
  return ~Index(0);
}

static std::unique_ptr<MeshPartType> make_vertex_part(const std::vector<Index>& verts)
{
  Index num_entities[3] = {Index(verts.size()), Index(0), Index(0)};
  std::unique_ptr<MeshPartType> part(new MeshPartType(num_entities, false));
  auto& trg = part->get_target_set<0>();
  for(std::size_t i(0); i < verts.size(); ++i)
    trg[Index(i)] = verts[i];
  return part;
}

static std::unique_ptr<MeshPartType> make_cell_part(const MeshType& mesh, Index cell)
{
  Geometry::PatchMeshPartFactory<MeshType> factory(std::vector<Index>{cell});
  std::unique_ptr<MeshPartType> part = factory.make_unique();
  part->deduct_target_sets_from_top<2>(mesh.get_index_set_holder());
  return part;
}

int main(int argc, char** argv)
{
  Runtime::ScopeGuard guard(argc, argv);

  const String mode(argc > 1 ? argv[1] : "");
  const bool do_halos = (mode == "halos");
  const bool do_patches = (mode == "patches");
  if(!do_halos && !do_patches)
  {
    std::cout << "usage: demo halos|patches\n";
    return 2;
  }

  Geometry::RefinedUnitCubeFactory<MeshType> factory(2);
  RootMeshNodeType root_node(factory.make_unique());
  const MeshType& mesh = *root_node.get_mesh();

  const Index cell_far = find_cell_at_vertex(mesh, 0);  // cell at corner (0,0)
  const Index cell_ext = find_cell_at_vertex(mesh, 3);  // cell at corner (1,1)
  std::cout << "cells: " << mesh.get_num_elements() << ", cell at vertex 0: " << cell_far
    << ", extracted cell (at vertex 3): " << cell_ext << "\n";

  if(do_halos)
  {
    const auto& v_at_c = mesh.get_index_set<2, 0>();
    root_node.add_halo(1, make_vertex_part({Index(0)}));
    root_node.add_halo(2, make_vertex_part({v_at_c(cell_ext, 0), v_at_c(cell_ext, 1), v_at_c(cell_ext, 2), v_at_c(cell_ext, 3)}));
  }
  if(do_patches)
  {
    root_node.add_patch(0, make_cell_part(mesh, cell_far));
    root_node.add_patch(1, make_cell_part(mesh, cell_ext));
  }

  std::cout << "calling extract_patch({" << cell_ext << "}, true, " << (do_halos ? "true" : "false") << ", "
    << (do_patches ? "true" : "false") << ") ..." << std::endl;

  // on the defective code this call aborts
  std::unique_ptr<RootMeshNodeType> patch_node =
    root_node.extract_patch(std::vector<Index>{cell_ext}, true, do_halos, do_patches);

  bool ok = bool(patch_node) && (patch_node->get_mesh() != nullptr) && (patch_node->get_mesh()->get_num_elements() == Index(1));

  if(do_halos)
  {
    const auto& halos = patch_node->get_halo_map();
    std::cout << "extracted node has " << halos.size() << " halo(s) (expected 1: rank 2 with 4 vertices)\n";
    ok = ok && (halos.size() == std::size_t(1));
    ok = ok && (patch_node->get_halo(1) == nullptr);
    const MeshPartType* h2 = patch_node->get_halo(2);
    ok = ok && (h2 != nullptr) && (h2->get_num_entities(0) == Index(4));
  }
  if(do_patches)
  {
    const auto& patches = patch_node->get_patch_map();
    std::cout << "extracted node has " << patches.size() << " patch part(s) (expected 1: rank 1 with 1 cell)\n";
    ok = ok && (patches.size() == std::size_t(1));
    ok = ok && (patch_node->get_patch(0) == nullptr);
    const MeshPartType* p1 = patch_node->get_patch(1);
    ok = ok && (p1 != nullptr) && (p1->get_num_entities(2) == Index(1)) && (p1->get_num_entities(0) == Index(4));
  }

  std::cout << (ok ? "OK" : "DEFECT: wrong halos/patches in extracted node") << "\n";
  return ok ? 0 : 1;
}
