// Demo for TraceAssembler::clear(): after clear() the assembler must have forgotten
// all previously added facets.
//
// 2x2 quad mesh of the unit square; every boundary edge has length 1/2.
// We integrate the constant function 1 over the compiled facet set, so the
// result is the total length of the facets the assembler loops over.
#include <kernel/runtime.hpp>
#include <kernel/geometry/conformal_mesh.hpp>
#include <kernel/geometry/common_factories.hpp>
#include <kernel/geometry/boundary_factory.hpp>
#include <kernel/geometry/mesh_part.hpp>
#include <kernel/trafo/standard/mapping.hpp>
#include <kernel/space/lagrange1/element.hpp>
#include <kernel/cubature/dynamic_factory.hpp>
#include <kernel/assembly/trace_assembler.hpp>
#include <kernel/lafem/dense_vector.hpp>

#include <iostream>
#include <cmath>

using namespace FEAT;

int main(int argc, char** argv)
{
  Runtime::ScopeGuard guard(argc, argv);

  typedef Shape::Quadrilateral ShapeType;
  typedef Geometry::ConformalMesh<ShapeType> MeshType;
  typedef Trafo::Standard::Mapping<MeshType> TrafoType;
  typedef Space::Lagrange1::Element<TrafoType> SpaceType;

  Geometry::RefinedUnitCubeFactory<MeshType> factory(1);
  MeshType mesh(factory);
  TrafoType trafo(mesh);
  SpaceType space(trafo);

  // pick two different boundary edges
  Geometry::BoundaryFactory<MeshType> bnd_factory(mesh);
  Geometry::MeshPart<MeshType> bnd(bnd_factory);
  const auto& bnd_edges = bnd.get_target_set<1>();
  if(bnd_edges.get_num_entities() < Index(2))
  {
    std::cout << "unexpected boundary\n";
    return 2;
  }
  const Index e0 = bnd_edges[0], e1 = bnd_edges[1];

  LAFEM::DenseVector<double, Index> one(space.get_num_dofs(), 1.0);
  Cubature::DynamicFactory cubature("gauss-legendre:2");

  Assembly::TraceAssembler<TrafoType> trace_asm(trafo);

  trace_asm.add_facet(e0);
  trace_asm.compile();
  const double len_a = trace_asm.assemble_discrete_integral(one, space, cubature);

  trace_asm.clear();
  trace_asm.add_facet(e1);
  trace_asm.compile();
  const double len_b = trace_asm.assemble_discrete_integral(one, space, cubature);

  // a cleared assembler that is compiled without adding anything must be empty
  trace_asm.clear();
  trace_asm.compile();
  const double len_c = trace_asm.assemble_discrete_integral(one, space, cubature);

  std::cout << "edges " << e0 << ", " << e1 << "\n";
  std::cout << "length after add_facet(e0)            : " << len_a << " (expected 0.5)\n";
  std::cout << "length after clear(); add_facet(e1)   : " << len_b << " (expected 0.5)\n";
  std::cout << "length after clear(); <nothing added> : " << len_c << " (expected 0)\n";

  const bool ok = (std::abs(len_a - 0.5) < 1e-12) && (std::abs(len_b - 0.5) < 1e-12) && (std::abs(len_c) < 1e-12);
  std::cout << (ok ? "OK" : "DEFECT: clear() did not reset the facet mask") << "\n";
  return ok ? 0 : 1;
}
