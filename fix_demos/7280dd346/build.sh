#!/bin/bash
# builds and runs the demo; exit 0 = correct behaviour, non-zero = defect manifests
set -e
here="$(cd "$(dirname "$0")" && pwd)"
root="$(cd "$here/../.." && pwd)"
b="$root/_build"
libs="$b/kernel/geometry/libkernel-geometry.a $b/kernel/adjacency/libkernel-adjacency.a $b/kernel/util/libkernel-util.a $b/kernel/libkernel-root.a $b/kernel/util/libkernel-util.a $b/kernel/libkernel-root.a"
g++ -std=c++17 -O1 -fopenmp -Wno-error -I"$b" -I"$root" "$here/demo.cpp" $libs -o "$here/demo"
set +e
"$here/demo"
rc=$?
rm -f "$here/demo"
echo "demo exit code: $rc"
exit $rc
