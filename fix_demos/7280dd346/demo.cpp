// Demo: String::parse<T_>() for unsigned integer types must not accept negated numbers.
//
// Part 1 calls String::parse directly.
// Part 2 feeds mesh file texts to Geometry::MeshFileReader::parse(). Each text is parsed in a forked
// child process, so that an abort (XASSERT), a segmentation fault or an undocumented exception type
// can be told apart from the documented rejection by Xml::ContentError / Xml::GrammarError.
//
// exit 0  = correct behaviour (malformed inputs rejected with the documented exception, controls parse)
// exit !0 = defect manifests
#include <kernel/base_header.hpp>
#include <kernel/util/string.hpp>
#include <kernel/util/xml_scanner.hpp>
#include <kernel/geometry/conformal_mesh.hpp>
#include <kernel/geometry/mesh_node.hpp>
#include <kernel/geometry/mesh_atlas.hpp>
#include <kernel/geometry/partition_set.hpp>
#include <kernel/geometry/mesh_file_reader.hpp>

#include <cstdio>
#include <cstdlib>
#include <cstring>
#include <cstdint>
#include <sstream>
#include <string>
#include <typeinfo>
#include <unistd.h>
#include <fcntl.h>
#include <sys/wait.h>

using namespace FEAT;

typedef Geometry::ConformalMesh<Shape::Hypercube<2>, 2, double> QuadMesh;

static int failures = 0;

// ------------------------------------------------------------------------------------------------
// forked parse
// ------------------------------------------------------------------------------------------------
enum Outcome
{
  accepted = 0,
  content_error = 10,
  grammar_error = 11,
  syntax_error = 12,
  other_exception = 13,
  unknown_exception = 14,
  killed = 99
};

struct Result
{
  Outcome outcome;
  int signal;
  std::string text;
};

template<typename Mesh_>
static Result parse_in_child(const std::string& xml)
{
  int fd[2];
  if(pipe(fd) != 0)
  {
    perror("pipe");
    exit(3);
  }
  fflush(stdout);
  fflush(stderr);
  pid_t pid = fork();
  if(pid < 0)
  {
    perror("fork");
    exit(3);
  }
  if(pid == 0)
  {
    close(fd[0]);
    // silence the assertion message / terminate message of the child
    int devnull = open("/dev/null", O_WRONLY);
    if(devnull >= 0)
    {
      dup2(devnull, 1);
      dup2(devnull, 2);
    }
    int code = accepted;
    std::string msg;
    try
    {
      std::stringstream ss(xml);
      Geometry::MeshFileReader reader(ss);
      Geometry::MeshAtlas<Mesh_> atlas;
      Geometry::RootMeshNode<Mesh_> node(nullptr, &atlas);
      Geometry::PartitionSet part_set;
      reader.parse(node, atlas, &part_set);
      msg = "accepted";
      if(node.get_mesh() != nullptr)
        msg += " (" + stringify(node.get_mesh()->get_num_elements()) + " elements";
      else
        msg += " (no mesh";
      for(const auto& p : part_set.get_partitions())
        msg += "; partition with " + stringify(p.get_num_patches()) + " patches, " + stringify(p.get_num_elements()) + " elements";
      msg += ")";
    }
    catch(const Xml::ContentError& e)
    {
      code = content_error;
      msg = std::string("Xml::ContentError: ") + e.get_message();
    }
    catch(const Xml::GrammarError& e)
    {
      code = grammar_error;
      msg = std::string("Xml::GrammarError: ") + e.get_message();
    }
    catch(const Xml::SyntaxError& e)
    {
      code = syntax_error;
      msg = std::string("Xml::SyntaxError: ") + e.get_message();
    }
    catch(const std::exception& e)
    {
      code = other_exception;
      msg = std::string("undocumented exception ") + typeid(e).name() + ": " + e.what();
    }
    catch(...)
    {
      code = unknown_exception;
      msg = "unknown exception";
    }
    if(write(fd[1], msg.data(), msg.size()) < 0) {}
    close(fd[1]);
    _exit(code);
  }

  close(fd[1]);
  Result r;
  char buf[1024];
  ssize_t k;
  while((k = read(fd[0], buf, sizeof(buf))) > 0)
    r.text.append(buf, std::size_t(k));
  close(fd[0]);
  int status = 0;
  waitpid(pid, &status, 0);
  r.signal = 0;
  if(WIFSIGNALED(status))
  {
    r.outcome = killed;
    r.signal = WTERMSIG(status);
    r.text = "process killed by signal " + std::to_string(r.signal) + " (" + strsignal(r.signal) + ")";
  }
  else
    r.outcome = Outcome(WEXITSTATUS(status));
  return r;
}

// ------------------------------------------------------------------------------------------------
// the mesh file text: unit square, one quad, one mesh part with an attribute
// ------------------------------------------------------------------------------------------------
static std::string mesh_text(const std::string& mesh_size, const std::string& part_size, const std::string& attr_dim)
{
  return
    "<FeatMeshFile version=\"1\" mesh=\"conformal:hypercube:2:2\">\n"
    "  <Mesh type=\"conformal:hypercube:2:2\" size=\"" + mesh_size + "\">\n"
    "    <Vertices>\n      0 0\n      1 0\n      0 1\n      1 1\n    </Vertices>\n"
    "    <Topology dim=\"1\">\n      0 1\n      2 3\n      0 2\n      1 3\n    </Topology>\n"
    "    <Topology dim=\"2\">\n      0 1 2 3\n    </Topology>\n"
    "  </Mesh>\n"
    "  <MeshPart name=\"bnd:b\" parent=\"root\" topology=\"full\" size=\"" + part_size + "\">\n"
    "    <Mapping dim=\"0\">\n      0\n      1\n    </Mapping>\n"
    "    <Mapping dim=\"1\">\n      0\n    </Mapping>\n"
    "    <Topology dim=\"1\">\n      0 1\n    </Topology>\n"
    "    <Attribute name=\"param\" dim=\"" + attr_dim + "\">\n      0\n      1\n    </Attribute>\n"
    "  </MeshPart>\n"
    "</FeatMeshFile>\n";
}

static void expect_rejected(const char* what, const std::string& xml)
{
  Result r = parse_in_child<QuadMesh>(xml);
  const bool good = (r.outcome == content_error) || (r.outcome == grammar_error);
  printf("  %-52s -> %s  [%s]\n", what, r.text.c_str(), good ? "ok" : "FAILED: expected Xml::ContentError/GrammarError");
  if(!good)
    ++failures;
}

static void expect_accepted(const char* what, const std::string& xml)
{
  Result r = parse_in_child<QuadMesh>(xml);
  const bool good = (r.outcome == accepted);
  printf("  %-52s -> %s  [%s]\n", what, r.text.c_str(), good ? "ok" : "FAILED: valid file must parse");
  if(!good)
    ++failures;
}

// ------------------------------------------------------------------------------------------------
// direct tests of String::parse
// ------------------------------------------------------------------------------------------------
template<typename T_>
static void expect_parse_fails(const char* tname, const char* text)
{
  T_ t = T_(7);
  const bool ok = String(text).parse(t);
  printf("  String(\"%s\").parse(%s&)%*s -> %s", text, tname, int(34 - strlen(text) - strlen(tname)), "", ok ? "true" : "false");
  if(ok)
  {
    printf(", value %s  [FAILED: expected false]\n", stringify(t).c_str());
    ++failures;
  }
  else
    printf("  [ok]\n");
}

template<typename T_>
static void expect_parse_value(const char* tname, const char* text, T_ value)
{
  T_ t = T_();
  const bool ok = String(text).parse(t);
  const bool good = ok && (t == value);
  printf("  String(\"%s\").parse(%s&)%*s -> %s", text, tname, int(34 - strlen(text) - strlen(tname)), "", ok ? "true" : "false");
  if(ok)
    printf(", value %s", stringify(t).c_str());
  printf("  [%s]\n", good ? "ok" : "FAILED");
  if(!good)
    ++failures;
}

int main()
{
  printf("Part 1: String::parse for unsigned integer types\n");
  expect_parse_fails<unsigned int>("unsigned int", "-1");
  expect_parse_fails<unsigned long>("unsigned long", "-1");
  expect_parse_fails<unsigned long long>("unsigned long long", " -4 ");
  expect_parse_fails<unsigned short>("unsigned short", "-2");
  expect_parse_fails<Index>("Index", "-1");
  expect_parse_fails<Index>("Index", "");
  expect_parse_fails<Index>("Index", "abc");
  // controls: everything else keeps its behaviour
  // (unsigned char is extracted as a single character, for which '-' is a valid value)
  expect_parse_value<unsigned char>("unsigned char", "-", (unsigned char)'-');
  expect_parse_value<Index>("Index", "42", Index(42));
  expect_parse_value<Index>("Index", "  42  ", Index(42));
  expect_parse_value<Index>("Index", "+42", Index(42));
  expect_parse_value<Index>("Index", "0", Index(0));
  expect_parse_value<unsigned int>("unsigned int", "4294967295", 4294967295u);
  expect_parse_value<int>("int", "-1", -1);
  expect_parse_value<long long>("long long", "-123456789012", -123456789012ll);
  expect_parse_value<double>("double", "-1.5", -1.5);
  expect_parse_value<float>("float", "-0.25", -0.25f);
  expect_parse_value<bool>("bool", "true", true);
  expect_parse_value<String>("String", "-1", String("-1"));

  {
    // policy, not counted: "-0" is rejected as well once any leading '-' is refused for unsigned types
    Index t(7);
    const bool ok = String("-0").parse(t);
    printf("  String(\"-0\").parse(Index&)                            -> %s  [informational, not counted]\n", ok ? "true" : "false");
  }

  printf("Part 2: MeshFileReader::parse with negated numbers in unsigned attributes / tokens\n");
  expect_accepted("control: size=\"4 4 1\", part size=\"2 1\", dim=\"1\"", mesh_text("4 4 1", "2 1", "1"));
  expect_accepted("control: part size=\"2 1 0\"", mesh_text("4 4 1", "2 1 0", "1"));
  expect_rejected("<Attribute name=\"param\" dim=\"-1\">", mesh_text("4 4 1", "2 1", "-1"));
  expect_rejected("<Mesh ... size=\"-4 4 1\">", mesh_text("-4 4 1", "2 1", "1"));
  expect_rejected("<Mesh ... size=\"4 4 -1\">", mesh_text("4 4 -1", "2 1", "1"));
  expect_rejected("<MeshPart ... size=\"-2 0 0\">", mesh_text("4 4 1", "-2 0 0", "1"));
  expect_rejected("<MeshPart ... size=\"2 -1\">", mesh_text("4 4 1", "2 -1", "1"));

  if(failures > 0)
  {
    printf("DEFECT: %d check(s) failed\n", failures);
    return 1;
  }
  printf("OK: negated numbers are rejected for unsigned types, all controls parse\n");
  return 0;
}
