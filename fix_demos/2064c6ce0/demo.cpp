// RBiCGStab must honour set_min_iter(): with min_iter = 60 the solver may not
// return 'success' before 60 iterations have been performed.
// RBiCGStab needs global vectors (dot_async); we use a serial gate without neighbours.
#include <kernel/base_header.hpp>
#include <kernel/runtime.hpp>
#include <kernel/util/dist.hpp>
#include <kernel/lafem/pointstar_factory.hpp>
#include <kernel/lafem/sparse_matrix_csr.hpp>
#include <kernel/lafem/dense_vector.hpp>
#include <kernel/lafem/none_filter.hpp>
#include <kernel/lafem/vector_mirror.hpp>
#include <kernel/global/gate.hpp>
#include <kernel/global/vector.hpp>
#include <kernel/global/matrix.hpp>
#include <kernel/global/filter.hpp>
#include <kernel/solver/rbicgstab.hpp>
#include <iostream>
#include <cmath>

using namespace FEAT;
typedef double DT;
typedef Index IT;
typedef LAFEM::SparseMatrixCSR<DT, IT> LocalMatrix;
typedef LAFEM::DenseVector<DT, IT> LocalVector;
typedef LAFEM::NoneFilter<DT, IT> LocalFilter;
typedef LAFEM::VectorMirror<DT, IT> Mirror;
typedef Global::Gate<LocalVector, Mirror> GateType;
typedef Global::Matrix<LocalMatrix, Mirror, Mirror> MatrixType;
typedef Global::Vector<LocalVector, Mirror> VectorType;
typedef Global::Filter<LocalFilter, Mirror> FilterType;

int main(int argc, char** argv)
{
  Runtime::ScopeGuard guard(argc, argv);
  Dist::Comm comm(Dist::Comm::world());

  const Index m = 17;
  LAFEM::PointstarFactoryFD<DT, IT> psf(m, 2);
  LocalMatrix loc_mat(psf.matrix_csr());

  GateType gate(comm);
  gate.compile(loc_mat.create_vector_r());

  MatrixType matrix(&gate, &gate, loc_mat.clone());
  FilterType filter;

  // smooth right hand side: three eigenmodes of the 5-point stencil
  VectorType vec_rhs(matrix.create_vector_r());
  const double pi = 3.14159265358979323846, h = 1.0 / double(m + 1);
  for(Index j(0); j < m; ++j)
    for(Index i(0); i < m; ++i)
    {
      const double x = double(i+1)*h, y = double(j+1)*h;
      vec_rhs.local()(j*m + i, std::sin(pi*x)*std::sin(pi*y) + 0.5*std::sin(2*pi*x)*std::sin(pi*y) + 0.25*std::sin(3*pi*x)*std::sin(2*pi*y));
    }

  const Index min_iter = 60;
  int rc = 0;

  auto solver = Solver::new_rbicgstab(matrix, filter);
  solver->set_tol_rel(1E-8); solver->set_min_iter(min_iter); solver->set_max_iter(200);
  solver->init();
  VectorType vec_sol(matrix.create_vector_r()); vec_sol.format();
  Solver::Status st = solver->correct(vec_sol, vec_rhs);
  const Index n = solver->get_num_iter();
  std::cout << "RBiCGStab: status = " << st << ", iterations = " << n << " (min_iter = " << min_iter << ")" << std::endl;
  if((st == Solver::Status::success) && (n < min_iter))
  {
    std::cout << "DEFECT: RBiCGStab returned success before min_iter iterations" << std::endl;
    rc = 1;
  }
  solver->done();
  return rc;
}
