// Demo: narrowing / sign conversions of parsed numbers in the mesh file reader
//   AttributeParser::create():  Index 'dim' is only checked against 0 and then narrowed to int
//   PartitionParser::create():  int rank and element counts are converted to Index unchecked
//
// Each mesh file text is parsed by Geometry::MeshFileReader::parse() in a forked child process, so that
// an abort (XASSERT), a segmentation fault or an undocumented exception type can be told apart from the
// documented rejection by Xml::ContentError / Xml::GrammarError.
//
// exit 0  = correct behaviour (malformed inputs rejected with the documented exception, controls parse)
// exit !0 = defect manifests
#include <kernel/base_header.hpp>
#include <kernel/util/string.hpp>
#include <kernel/util/xml_scanner.hpp>
#include <kernel/geometry/conformal_mesh.hpp>
#include <kernel/geometry/mesh_node.hpp>
#include <kernel/geometry/mesh_atlas.hpp>
#include <kernel/geometry/partition_set.hpp>
#include <kernel/geometry/mesh_file_reader.hpp>

#include <cstdio>
#include <cstdlib>
#include <cstring>
#include <cstdint>
#include <sstream>
#include <string>
#include <typeinfo>
#include <unistd.h>
#include <fcntl.h>
#include <sys/wait.h>

using namespace FEAT;

typedef Geometry::ConformalMesh<Shape::Hypercube<2>, 2, double> QuadMesh;

static int failures = 0;

// ------------------------------------------------------------------------------------------------
// forked parse
// ------------------------------------------------------------------------------------------------
enum Outcome
{
  accepted = 0,
  content_error = 10,
  grammar_error = 11,
  syntax_error = 12,
  other_exception = 13,
  unknown_exception = 14,
  killed = 99
};

struct Result
{
  Outcome outcome;
  int signal;
  std::string text;
};

template<typename Mesh_>
static Result parse_in_child(const std::string& xml)
{
  int fd[2];
  if(pipe(fd) != 0)
  {
    perror("pipe");
    exit(3);
  }
  fflush(stdout);
  fflush(stderr);
  pid_t pid = fork();
  if(pid < 0)
  {
    perror("fork");
    exit(3);
  }
  if(pid == 0)
  {
    close(fd[0]);
    // silence the assertion message / terminate message of the child
    int devnull = open("/dev/null", O_WRONLY);
    if(devnull >= 0)
    {
      dup2(devnull, 1);
      dup2(devnull, 2);
    }
    int code = accepted;
    std::string msg;
    try
    {
      std::stringstream ss(xml);
      Geometry::MeshFileReader reader(ss);
      Geometry::MeshAtlas<Mesh_> atlas;
      Geometry::RootMeshNode<Mesh_> node(nullptr, &atlas);
      Geometry::PartitionSet part_set;
      reader.parse(node, atlas, &part_set);
      msg = "accepted";
      if(node.get_mesh() != nullptr)
        msg += " (" + stringify(node.get_mesh()->get_num_elements()) + " elements";
      else
        msg += " (no mesh";
      for(const auto& p : part_set.get_partitions())
        msg += "; partition with " + stringify(p.get_num_patches()) + " patches, " + stringify(p.get_num_elements()) + " elements";
      msg += ")";
    }
    catch(const Xml::ContentError& e)
    {
      code = content_error;
      msg = std::string("Xml::ContentError: ") + e.get_message();
    }
    catch(const Xml::GrammarError& e)
    {
      code = grammar_error;
      msg = std::string("Xml::GrammarError: ") + e.get_message();
    }
    catch(const Xml::SyntaxError& e)
    {
      code = syntax_error;
      msg = std::string("Xml::SyntaxError: ") + e.get_message();
    }
    catch(const std::exception& e)
    {
      code = other_exception;
      msg = std::string("undocumented exception ") + typeid(e).name() + ": " + e.what();
    }
    catch(...)
    {
      code = unknown_exception;
      msg = "unknown exception";
    }
    if(write(fd[1], msg.data(), msg.size()) < 0) {}
    close(fd[1]);
    _exit(code);
  }

  close(fd[1]);
  Result r;
  char buf[1024];
  ssize_t k;
  while((k = read(fd[0], buf, sizeof(buf))) > 0)
    r.text.append(buf, std::size_t(k));
  close(fd[0]);
  int status = 0;
  waitpid(pid, &status, 0);
  r.signal = 0;
  if(WIFSIGNALED(status))
  {
    r.outcome = killed;
    r.signal = WTERMSIG(status);
    r.text = "process killed by signal " + std::to_string(r.signal) + " (" + strsignal(r.signal) + ")";
  }
  else
    r.outcome = Outcome(WEXITSTATUS(status));
  return r;
}

// ------------------------------------------------------------------------------------------------
// the mesh file text: unit square, one quad, one mesh part with an attribute, one partition
// ------------------------------------------------------------------------------------------------
static std::string mesh_text(const std::string& attr_dim, const std::string& attr_lines, const std::string& partition_size,
  const std::string& part_size = "2 1")
{
  const bool empty_part = (part_size == "0 0");
  return
    "<FeatMeshFile version=\"1\" mesh=\"conformal:hypercube:2:2\">\n"
    "  <Mesh type=\"conformal:hypercube:2:2\" size=\"4 4 1\">\n"
    "    <Vertices>\n      0 0\n      1 0\n      0 1\n      1 1\n    </Vertices>\n"
    "    <Topology dim=\"1\">\n      0 1\n      2 3\n      0 2\n      1 3\n    </Topology>\n"
    "    <Topology dim=\"2\">\n      0 1 2 3\n    </Topology>\n"
    "  </Mesh>\n"
    "  <MeshPart name=\"bnd:b\" parent=\"root\" topology=\"full\" size=\"" + part_size + "\">\n"
    "    <Mapping dim=\"0\">\n" + std::string(empty_part ? "" : "      0\n      1\n") + "    </Mapping>\n"
    "    <Mapping dim=\"1\">\n" + std::string(empty_part ? "" : "      0\n") + "    </Mapping>\n"
    "    <Topology dim=\"1\">\n" + std::string(empty_part ? "" : "      0 1\n") + "    </Topology>\n"
    "    <Attribute name=\"param\" dim=\"" + attr_dim + "\">\n" + attr_lines + "    </Attribute>\n"
    "  </MeshPart>\n"
    "  <Partition name=\"auto\" priority=\"1\" level=\"0\" size=\"" + partition_size + "\">\n"
    "    <Patch rank=\"0\" size=\"1\">\n      0\n    </Patch>\n"
    "  </Partition>\n"
    "</FeatMeshFile>\n";
}

static void expect_rejected(const char* what, const std::string& xml)
{
  Result r = parse_in_child<QuadMesh>(xml);
  const bool good = (r.outcome == content_error) || (r.outcome == grammar_error);
  printf("  %-58s -> %s  [%s]\n", what, r.text.c_str(), good ? "ok" : "FAILED: expected Xml::ContentError/GrammarError");
  if(!good)
    ++failures;
}

static void expect_accepted(const char* what, const std::string& xml)
{
  Result r = parse_in_child<QuadMesh>(xml);
  const bool good = (r.outcome == accepted);
  printf("  %-58s -> %s  [%s]\n", what, r.text.c_str(), good ? "ok" : "FAILED: valid file must parse");
  if(!good)
    ++failures;
}

int main()
{
  const std::string one = "      0\n      1\n";
  const std::string two = "      0 0.5\n      1 1.5\n";

  printf("controls\n");
  expect_accepted("<Attribute dim=\"1\">, <Partition size=\"1 1\">", mesh_text("1", one, "1 1"));
  expect_accepted("<Attribute dim=\"2\">, <Partition size=\"1 1\">", mesh_text("2", two, "1 1"));
  expect_accepted("<Partition size=\"3 4\"> (ranks 1,2 without patch)", mesh_text("1", one, "3 4"));
  {
    String text(mesh_text("1", one, "0 0"));
    text.replace_all("    <Patch rank=\"0\" size=\"1\">\n      0\n    </Patch>\n", "");
    expect_accepted("<Partition size=\"0 0\"> without patches", text);
  }
  expect_accepted("empty mesh part (size=\"0 0\") with <Attribute dim=\"1\">", mesh_text("1", "", "1 1", "0 0"));

  printf("AttributeParser::create(): 'dim' that does not fit into an int\n");
  expect_rejected("<Attribute dim=\"0\"> (rejected before, too)", mesh_text("0", one, "1 1"));
  expect_rejected("<Attribute dim=\"4294967295\"> (int: -1)", mesh_text("4294967295", one, "1 1"));
  expect_rejected("<Attribute dim=\"2147483648\"> (int: INT_MIN)", mesh_text("2147483648", one, "1 1"));
  expect_rejected("<Attribute dim=\"18446744073709551615\"> (int: -1)", mesh_text("18446744073709551615", one, "1 1"));
  expect_rejected("<Attribute dim=\"-1\"> (parsed as 2^64-1)", mesh_text("-1", one, "1 1"));
  expect_rejected("<Attribute dim=\"4294967297\"> (int: 1), empty mesh part", mesh_text("4294967297", "", "1 1", "0 0"));
  expect_rejected("<Attribute dim=\"4294967297\"> (int: 1), 2 vertices", mesh_text("4294967297", one, "1 1"));

  printf("PartitionParser::create(): negative rank / element counts\n");
  expect_rejected("<Partition size=\"1 -1\">", mesh_text("1", one, "1 -1"));
  expect_rejected("<Partition size=\"-1 1\">", mesh_text("1", one, "-1 1"));
  expect_rejected("<Partition size=\"-1 -1\">", mesh_text("1", one, "-1 -1"));
  expect_rejected("<Partition size=\"0 1\"> with patch rank 0 (rejected before)", mesh_text("1", one, "0 1"));

  if(failures > 0)
  {
    printf("DEFECT: %d check(s) failed\n", failures);
    return 1;
  }
  printf("OK: out-of-range attribute dimensions and negative partition sizes are rejected, all controls parse\n");
  return 0;
}
