"""cfold: constant propagation through straight-line / constant-bound code in the featx fact base.

This is *not* an interpreter for FEAT3 programs: it folds constants in table-filling functions whose
control flow depends only on compile-time constants and on designated integer parameters that the
caller fixes (e.g. `num_points`).  Anything data dependent raises NotConstant and the caller reports
the function as 'not covered'.

Numbers carry a rigorous absolute error bound (`err`) that originates from the printed precision of
decimal literals and is propagated through +,-,*,/ and sqrt, so identities between extracted
constants can be decided "to the precision of the literals".
"""
from fractions import Fraction
import mpmath

mpmath.mp.dps = 70

LIT_ULPS = 4  # a decimal literal with d decimals is trusted to 4*10^-d (rounded/truncated/halved tables)


class NotConstant(Exception):
    pass


class Num:
    __slots__ = ("v", "err", "exact")

    def __init__(self, v, err=0, exact=None):
        # v: Fraction (exact) or mpf ; err: mpf/Fraction absolute error bound
        self.v = v
        self.err = err
        self.exact = isinstance(v, Fraction) and err == 0 if exact is None else exact

    @staticmethod
    def of(x):
        if isinstance(x, Num):
            return x
        if isinstance(x, bool):
            return Num(Fraction(int(x)))
        if isinstance(x, int):
            return Num(Fraction(x))
        if isinstance(x, Fraction):
            return Num(x)
        raise NotConstant("not a number: %r" % (x,))

    @staticmethod
    def literal(text):
        t = text.strip().rstrip("fFlLqQ")
        tl = t.lower()
        if "e" in tl:
            mant, ex = tl.split("e")
        else:
            mant, ex = tl, "0"
        dec = len(mant.split(".")[1]) if "." in mant else 0
        val = Fraction(mant) * Fraction(10) ** int(ex)
        digits = len(mant.replace(".", "").replace("-", "").replace("+", "").lstrip("0"))
        # few digits (0.5, 2.0, 0.25): taken as exact rationals
        if digits <= 6:
            return Num(val)
        ulp = Fraction(10) ** (int(ex) - dec)
        return Num(val, LIT_ULPS * ulp, exact=False)

    def f(self):
        return mpmath.mpf(self.v.numerator) / self.v.denominator if isinstance(self.v, Fraction) else self.v

    def ferr(self):
        e = self.err
        return mpmath.mpf(e.numerator) / e.denominator if isinstance(e, Fraction) else mpmath.mpf(e)

    def is_int(self):
        return isinstance(self.v, Fraction) and self.err == 0 and self.v.denominator == 1

    def as_int(self):
        if not self.is_int():
            raise NotConstant("integer expected, got %s" % self)
        return int(self.v)

    def __repr__(self):
        if isinstance(self.v, Fraction) and self.err == 0:
            return str(self.v)
        return "%s±%s" % (mpmath.nstr(self.f(), 20), mpmath.nstr(self.ferr(), 3))

    def _bin(self, o, op):
        o = Num.of(o)
        if isinstance(self.v, Fraction) and isinstance(o.v, Fraction) and self.err == 0 and o.err == 0:
            if op == "+":
                return Num(self.v + o.v)
            if op == "-":
                return Num(self.v - o.v)
            if op == "*":
                return Num(self.v * o.v)
            if op == "/":
                if o.v == 0:
                    raise NotConstant("division by zero")
                return Num(self.v / o.v)
        a, b = self.f(), o.f()
        ea, eb = self.ferr(), o.ferr()
        rnd = mpmath.mpf(10) ** (-(mpmath.mp.dps - 5))
        if op == "+":
            v = a + b
            return Num(v, ea + eb + abs(v) * rnd, False)
        if op == "-":
            v = a - b
            return Num(v, ea + eb + abs(v) * rnd, False)
        if op == "*":
            v = a * b
            return Num(v, abs(a) * eb + abs(b) * ea + ea * eb + abs(v) * rnd, False)
        if op == "/":
            if abs(b) <= eb:
                raise NotConstant("division by (near) zero")
            v = a / b
            lo = abs(b) - eb
            return Num(v, (ea + abs(v) * eb) / lo + abs(v) * rnd, False)
        raise NotConstant(op)

    def __add__(self, o): return self._bin(o, "+")
    def __sub__(self, o): return self._bin(o, "-")
    def __mul__(self, o): return self._bin(o, "*")
    def __truediv__(self, o): return self._bin(o, "/")
    def __radd__(self, o): return Num.of(o)._bin(self, "+")
    def __rsub__(self, o): return Num.of(o)._bin(self, "-")
    def __rmul__(self, o): return Num.of(o)._bin(self, "*")
    def __neg__(self): return Num(-self.v, self.err, self.exact)

    def sqrt(self):
        if isinstance(self.v, Fraction) and self.err == 0:
            n, d = self.v.numerator, self.v.denominator
            if n < 0:
                raise NotConstant("sqrt of negative")
            import math
            rn, rd = math.isqrt(n), math.isqrt(d)
            if rn * rn == n and rd * rd == d:
                return Num(Fraction(rn, rd))
        a = self.f()
        if a < 0:
            raise NotConstant("sqrt of negative")
        v = mpmath.sqrt(a)
        ea = self.ferr()
        rnd = mpmath.mpf(10) ** (-(mpmath.mp.dps - 5))
        if v == 0:
            return Num(v, mpmath.sqrt(ea), False)
        return Num(v, ea / (2 * max(v - ea, v / 2)) + v * rnd, False)

    def pow_int(self, n):
        r = Num(Fraction(1))
        for _ in range(abs(n)):
            r = r * self
        if n < 0:
            r = Num(Fraction(1)) / r
        return r

    def cmp(self, o):
        """-1/0/+1; raises NotConstant when the error intervals overlap without being exact"""
        o = Num.of(o)
        if isinstance(self.v, Fraction) and isinstance(o.v, Fraction) and self.err == 0 and o.err == 0:
            return (self.v > o.v) - (self.v < o.v)
        d = self.f() - o.f()
        e = self.ferr() + o.ferr()
        if d > e:
            return 1
        if d < -e:
            return -1
        raise NotConstant("comparison undecidable within literal precision")


class LRef:
    """an lvalue: slot `key` of a Python container"""
    __slots__ = ("box", "key")

    def __init__(self, box, key):
        self.box = box
        self.key = key

    def get(self):
        try:
            return self.box[self.key]
        except (KeyError, IndexError):
            raise NotConstant("read of unset slot %r" % (self.key,))

    def set(self, v):
        self.box[self.key] = v


class Obj:
    """abstract object with a class name and a slot dict (used for cubature rules, points)"""

    def __init__(self, cls, **kw):
        self.cls = cls
        self.slots = {}
        self.writes = []  # (key, line) every write, to detect double definitions
        self.__dict__.update(kw)


class _Break(Exception):
    pass


class _Continue(Exception):
    pass


class _Return(Exception):
    def __init__(self, v):
        self.v = v


class Folder:
    """Evaluates function bodies from a Facts base.  `methods` maps a qualified callee name to a
    Python handler (folder, call_node, obj_value, arg_values) -> value for abstract objects."""

    MAX_STEPS = 2_000_000

    def __init__(self, facts_list, methods=None, functions=None):
        self.by_decl = {}
        self.by_qn = {}
        for facts in facts_list:
            for f in facts.functions:
                if f.tk == "pattern":
                    continue
                self.by_qn.setdefault((f.qn, len(f.params)), []).append(f)
        self.facts_list = facts_list
        self.methods = methods or {}
        self.functions = functions or {}
        self.steps = 0
        self.inlined = set()
        self.inlined_fns = []

    # --- function lookup by callee -------------------------------------------------------------
    def lookup(self, call):
        qn = call.get("callee")
        cfull = call.get("cfull")
        nargs = len(call.get("pn", []))
        cands = self.by_qn.get((qn, nargs), [])
        if cfull:
            ex = [f for f in cands if f.full == cfull]
            if ex:
                return ex[0]
        if len(cands) == 1:
            return cands[0]
        if cands:
            # several instantiations of the same template: prefer same parameter types
            pts = [call_pt for call_pt in call.get("pt", [])]
            for f in cands:
                if [p["t"] for p in f.params] == pts and f.facts.types is self.facts_list[0].types:
                    return f
            return cands[0]
        return None

    # --- evaluation ------------------------------------------------------------------------------
    def call_function(self, fn, args):
        env = {}
        for p, a in zip(fn.params, args):
            env[p["d"]] = a
        if fn.full not in self.inlined:
            self.inlined_fns.append(fn)
        self.inlined.add(fn.full)
        try:
            self.exec(fn.body, env, fn)
        except _Return as r:
            return r.v
        return None

    def tick(self):
        self.steps += 1
        if self.steps > self.MAX_STEPS:
            raise NotConstant("step limit exceeded (data-dependent loop?)")

    def exec(self, n, env, fn):
        self.tick()
        if n is None:
            return
        k = n["k"]
        if k == "Block":
            for s in n["s"]:
                self.exec(s, env, fn)
        elif k == "Decl":
            for v in n["vars"]:
                if "init" in v and v["init"] is not None:
                    val = self.rvalue(self.eval(v["init"], env, fn)) if not v.get("ref") else self.eval(v["init"], env, fn)
                else:
                    val = None
                if v.get("ref"):
                    env[v["d"]] = val  # alias (LRef or object)
                else:
                    env[v["d"]] = val
        elif k == "If":
            if n.get("init"):
                self.exec(n["init"], env, fn)
            c = self.truth(self.eval(n["c"], env, fn))
            if c:
                self.exec(n["then"], env, fn)
            elif n.get("else"):
                self.exec(n["else"], env, fn)
        elif k == "For":
            if n.get("init"):
                self.exec(n["init"], env, fn)
            while True:
                self.tick()
                if n.get("c") is not None and not self.truth(self.eval(n["c"], env, fn)):
                    break
                try:
                    self.exec(n["body"], env, fn)
                except _Break:
                    break
                except _Continue:
                    pass
                if n.get("inc") is not None:
                    self.eval(n["inc"], env, fn)
        elif k == "While":
            while self.truth(self.eval(n["c"], env, fn)):
                self.tick()
                try:
                    self.exec(n["body"], env, fn)
                except _Break:
                    break
                except _Continue:
                    pass
        elif k == "Switch":
            v = self.num(self.eval(n["c"], env, fn)).as_int()
            body = n["body"]
            stmts = body["s"] if body["k"] == "Block" else [body]
            # flatten case labels: a Case node wraps its first statement
            start = None
            default = None
            flat = []
            for s in stmts:
                cur = s
                labels = []
                while cur is not None and cur["k"] in ("Case", "Default"):
                    labels.append(cur)
                    cur = cur.get("s")
                flat.append((labels, cur))
            for idx, (labels, cur) in enumerate(flat):
                for lb in labels:
                    if lb["k"] == "Case":
                        if self.num(self.eval(lb["v"], env, fn)).as_int() == v and start is None:
                            start = idx
                    else:
                        default = idx
            if start is None:
                start = default
            if start is None:
                return
            try:
                for labels, cur in flat[start:]:
                    self.exec(cur, env, fn)
            except _Break:
                pass
        elif k == "Break":
            raise _Break()
        elif k == "Continue":
            raise _Continue()
        elif k == "Return":
            raise _Return(self.eval(n["e"], env, fn) if n.get("e") is not None else None)
        elif k == "Null_":
            pass
        elif k in ("Case", "Default"):
            self.exec(n.get("s"), env, fn)
        elif k == "OMP":
            self.exec(n.get("body"), env, fn)
        elif k == "Attributed":
            self.exec(n.get("s"), env, fn)
        else:
            self.eval(n, env, fn)

    def truth(self, v):
        v = self.rvalue(v)
        if isinstance(v, bool):
            return v
        if isinstance(v, Num):
            return v.cmp(0) != 0
        raise NotConstant("condition not constant: %r" % (v,))

    def rvalue(self, v):
        if isinstance(v, LRef):
            return v.get()
        return v

    def num(self, v):
        v = self.rvalue(v)
        if isinstance(v, Num):
            return v
        if isinstance(v, (bool, int, Fraction)):
            return Num.of(v)
        raise NotConstant("number expected, got %r" % (v,))

    def eval(self, n, env, fn):
        self.tick()
        k = n["k"]
        if k == "Int":
            return Num(Fraction(int(n["v"])))
        if k == "Float":
            return Num.literal(n.get("text") or n["v"])
        if k == "Bool":
            return bool(n["v"])
        if k == "Str":
            return n["v"]
        if k == "Ref":
            if n["d"] in env:
                v = env[n["d"]]
                if n.get("dk") in ("local", "param") and not isinstance(v, (LRef, Obj)):
                    return LRef(env, n["d"])
                return v
            if "v" in n:
                return Num(Fraction(int(n["v"])))
            raise NotConstant("unbound variable %s (line %s)" % (n["n"], n.get("l")))
        if k == "Cast":
            v = self.eval(n["e"], env, fn)
            rv = self.rvalue(v)
            to = n.get("to", "")
            if isinstance(rv, Num) and ("int" in to or to in ("Index", "FEAT::Index", "long", "unsigned long")) and not rv.is_int():
                # truncation towards zero of an exact rational
                if isinstance(rv.v, Fraction) and rv.err == 0:
                    q = abs(rv.v.numerator) // rv.v.denominator
                    return Num(Fraction(q if rv.v >= 0 else -q))
                raise NotConstant("inexact float to int cast")
            return rv
        if k == "Un":
            op = n["op"]
            if op in ("++", "--"):
                lv = self.eval(n["e"], env, fn)
                if not isinstance(lv, LRef):
                    raise NotConstant("inc/dec of non-lvalue")
                old = self.num(lv.get())
                new = old + (1 if op == "++" else -1)
                lv.set(new)
                return old if n.get("post") else lv
            v = self.eval(n["e"], env, fn)
            if op == "-":
                return -self.num(v)
            if op == "+":
                return self.num(v)
            if op == "!":
                return not self.truth(v)
            if op == "*" or op == "&":
                return v
            raise NotConstant("unary " + op)
        if k == "Bin":
            op = n["op"]
            if op == "&&":
                return self.truth(self.eval(n["lhs"], env, fn)) and self.truth(self.eval(n["rhs"], env, fn))
            if op == "||":
                return self.truth(self.eval(n["lhs"], env, fn)) or self.truth(self.eval(n["rhs"], env, fn))
            if op == ",":
                self.eval(n["lhs"], env, fn)
                return self.eval(n["rhs"], env, fn)
            a = self.rvalue(self.eval(n["lhs"], env, fn))
            b = self.rvalue(self.eval(n["rhs"], env, fn))
            return self.binop(op, a, b, n, fn)
        if k == "Assign":
            op = n["op"]
            lv = self.eval(n["lhs"], env, fn)
            rv = self.rvalue(self.eval(n["rhs"], env, fn))
            if not isinstance(lv, LRef):
                raise NotConstant("assignment to non-lvalue %r at line %s" % (lv, n.get("l")))
            if op != "=":
                rv = self.binop(op[:-1], self.rvalue(lv.get()), rv, n, fn)
            if isinstance(lv.box, dict) and lv.box.get("__obj__") is not None:
                lv.box["__obj__"].writes.append((lv.key, n.get("l")))
            lv.set(rv)
            return lv
        if k == "Cond":
            c = self.truth(self.eval(n["c"], env, fn))
            return self.eval(n["then"] if c else n["else"], env, fn)
        if k == "Index":
            b = self.rvalue(self.eval(n["b"], env, fn))
            i = self.num(self.eval(n["idx"], env, fn)).as_int()
            return self.index(b, i, n)
        if k in ("Call", "MCall", "OpCall", "Construct", "TempObj"):
            return self.call(n, env, fn)
        if k == "Member":
            b = self.rvalue(self.eval(n["b"], env, fn))
            if isinstance(b, Obj):
                return LRef(b.slots, n["n"])
            raise NotConstant("member access %s on %r" % (n["n"], b))
        if k == "InitList":
            return [self.rvalue(self.eval(a, env, fn)) for a in n.get("a", [])]
        if k == "SizeOf" and "v" in n:
            return Num(Fraction(int(n["v"])))
        if k == "ValueInit":
            return Num(Fraction(0))
        raise NotConstant("unsupported construct %s at %s:%s" % (k, fn.file if fn else "?", n.get("l")))

    def index(self, b, i, n):
        if isinstance(b, Obj) and hasattr(b, "index"):
            return b.index(i)
        if isinstance(b, list):
            if not (0 <= i < len(b)):
                raise NotConstant("constant index %d out of range %d at line %s" % (i, len(b), n.get("l")))
            return LRef(b, i)
        if isinstance(b, dict):
            return LRef(b, i)
        raise NotConstant("subscript of %r" % (b,))

    def binop(self, op, a, b, n, fn):
        if op in ("+", "-", "*", "/"):
            a, b = self.num(a), self.num(b)
            if op == "/":
                ty = fn.ntype(n) if fn is not None else ""
                if self._is_integral(ty):
                    ai, bi = a.as_int(), b.as_int()
                    if bi == 0:
                        raise NotConstant("integer division by zero")
                    q = abs(ai) // abs(bi)
                    return Num(Fraction(q if (ai >= 0) == (bi >= 0) else -q))
            return a._bin(b, op)
        if op == "%":
            ai, bi = self.num(a).as_int(), self.num(b).as_int()
            if bi == 0:
                raise NotConstant("modulo by zero")
            r = abs(ai) % abs(bi)
            return Num(Fraction(r if ai >= 0 else -r))
        if op in ("<<", ">>"):
            ai, bi = self.num(a).as_int(), self.num(b).as_int()
            return Num(Fraction(ai << bi if op == "<<" else ai >> bi))
        if op in ("<", ">", "<=", ">=", "==", "!="):
            if isinstance(a, str) or isinstance(b, str):
                if op == "==":
                    return a == b
                if op == "!=":
                    return a != b
            if isinstance(a, bool) and isinstance(b, bool):
                return (a == b) if op == "==" else (a != b) if op == "!=" else None
            c = self.num(a).cmp(self.num(b))
            return {"<": c < 0, ">": c > 0, "<=": c <= 0, ">=": c >= 0, "==": c == 0, "!=": c != 0}[op]
        if op in ("&", "|", "^"):
            ai, bi = self.num(a).as_int(), self.num(b).as_int()
            return Num(Fraction({"&": ai & bi, "|": ai | bi, "^": ai ^ bi}[op]))
        raise NotConstant("binary operator " + op)

    @staticmethod
    def _is_integral(ty):
        t = ty.replace("const ", "").strip()
        return t in ("int", "unsigned int", "long", "unsigned long", "FEAT::Index", "Index", "std::size_t", "size_t",
                     "unsigned long long", "long long", "short", "unsigned short", "char", "std::uint64_t", "std::uint32_t")

    MATH1 = {"FEAT::Math::sqrt": "sqrt", "std::sqrt": "sqrt", "FEAT::Math::sqr": "sqr", "FEAT::Math::abs": "abs",
             "std::abs": "abs", "FEAT::Math::cub": "cub"}

    def call(self, n, env, fn):
        callee = n.get("callee", "")
        k = n["k"]
        if k == "MCall":
            obj = self.eval(n["obj"], env, fn) if n.get("obj") else None
            obj = self.rvalue(obj) if isinstance(obj, LRef) and not isinstance(obj.get() if obj.key in obj.box else None, type(None)) else obj
            robj = self.rvalue(obj) if isinstance(obj, LRef) else obj
            h = self.methods.get(callee)
            if h is not None:
                args = [self.eval(a, env, fn) for a in n.get("a", [])]
                return h(self, n, robj, args)
            raise NotConstant("method %s not modelled (line %s)" % (callee, n.get("l")))
        if k in ("Construct", "TempObj"):
            args = [self.rvalue(self.eval(a, env, fn)) for a in n.get("a", [])]
            h = self.methods.get(callee)
            if h is not None:
                return h(self, n, None, args)
            if len(args) == 1:
                return args[0]
            raise NotConstant("constructor %s not modelled (line %s)" % (callee, n.get("l")))
        if k == "OpCall":
            h = self.methods.get(callee) or self.methods.get("operator" + n.get("op", ""))
            args = [self.eval(a, env, fn) for a in n.get("a", [])]
            if h is not None:
                return h(self, n, None, args)
            if n.get("op") in ("[]", "()") and len(args) == 2:
                return self.index(self.rvalue(args[0]), self.num(args[1]).as_int(), n)
            raise NotConstant("operator %s not modelled (line %s)" % (callee, n.get("l")))
        # free / static function
        if callee in self.MATH1:
            a = self.num(self.eval(n["a"][0], env, fn))
            m = self.MATH1[callee]
            if m == "sqrt":
                return a.sqrt()
            if m == "sqr":
                return a * a
            if m == "cub":
                return a * a * a
            if m == "abs":
                return a if a.cmp(0) >= 0 else -a
        if callee in ("FEAT::Math::pow", "std::pow"):
            a = self.num(self.eval(n["a"][0], env, fn))
            b = self.num(self.eval(n["a"][1], env, fn))
            return a.pow_int(b.as_int())
        if callee in ("FEAT::Math::min", "std::min", "FEAT::Math::max", "std::max"):
            a = self.num(self.eval(n["a"][0], env, fn))
            b = self.num(self.eval(n["a"][1], env, fn))
            c = a.cmp(b)
            if callee.endswith("min"):
                return a if c <= 0 else b
            return a if c >= 0 else b
        h = self.functions.get(callee)
        if h is not None:
            args = [self.eval(a, env, fn) for a in n.get("a", [])]
            return h(self, n, None, args)
        target = self.lookup(n)
        if target is None:
            raise NotConstant("callee %s has no body in the fact base (line %s)" % (callee, n.get("l")))
        args = []
        for a, p in zip(n.get("a", []), target.params):
            v = self.eval(a, env, fn)
            pt = target.type(p["t"])
            if pt.endswith("&") and not pt.startswith("const "):
                args.append(v)       # by (non-const) reference: keep the lvalue / object
            else:
                args.append(self.rvalue(v))
        return self.call_function(target, args)
