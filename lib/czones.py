"""czones: a small zone (difference-bound matrix) abstract interpreter for counter bookkeeping.

Used by checks that have to relate integer counters of one function (`slot counter == number of
entries stored so far`).  The analysis runs over the structured statement tree of the featx facts:

  * tracked variables: the integral locals / parameters of the function (by declaration id) plus
    ghost counters owned by the caller of this module;
  * exact transfer functions for  x = c,  x = y + c,  ++x / --x / x += c,  declarations with such
    initialisers; every other assignment to a tracked variable forgets it (and is remembered in
    `havocs`, so that a check can refuse to judge code it does not model);
  * branch conditions that are difference constraints (x < y + c, ==, <=, &&, ||, !) refine the
    state, everything else is ignored (sound);
  * loops are solved by iteration (conditions are applied to every incoming state *before* joining,
    widening after a few rounds), `break`/`continue`/`return`, switch arms with fall-through and
    noreturn calls are modelled.

A state is a conjunction of constraints x - y <= c; `None` is the unreachable state.  All results are
invariants of the counter skeleton in which data dependent branches are non-deterministic: they hold
on every execution.  Nothing is executed.
"""
from featlib import children, render
from ikinds import strip, _is_incdec, _comma_list

ZERO = "0"


class Zone:
    def __init__(self, vs):
        self.vs = list(vs)
        if ZERO not in self.vs:
            self.vs.append(ZERO)
        self.m = {}

    def copy(self):
        z = Zone(self.vs)
        z.m = dict(self.m)
        return z

    def get(self, x, y):
        if x == y:
            return 0
        return self.m.get((x, y))

    def _set(self, x, y, c):
        if x == y:
            return
        o = self.m.get((x, y))
        if o is None or c < o:
            self.m[(x, y)] = c

    def close(self):
        """shortest paths; returns None when the constraints are contradictory"""
        vs = self.vs
        m = self.m
        for k in vs:
            for i in vs:
                ik = 0 if i == k else m.get((i, k))
                if ik is None:
                    continue
                for j in vs:
                    kj = 0 if k == j else m.get((k, j))
                    if kj is None:
                        continue
                    if i == j:
                        if ik + kj < 0:
                            return None
                        continue
                    o = m.get((i, j))
                    if o is None or ik + kj < o:
                        m[(i, j)] = ik + kj
        return self

    def add(self, x, y, c):
        """x - y <= c"""
        z = self.copy()
        if x == y:
            return z if c >= 0 else None
        z._set(x, y, c)
        return z.close()

    def havoc(self, x):
        z = self.copy()
        for k in list(z.m):
            if x in k:
                del z.m[k]
        return z

    def assign(self, x, y, c):
        """x := y + c"""
        if x == y:
            z = self.copy()
            for k in list(z.m):
                if k[0] == x:
                    z.m[k] += c
                elif k[1] == x:
                    z.m[k] -= c
            return z
        z = self.havoc(x)
        z._set(x, y, c)
        z._set(y, x, -c)
        return z.close()

    def join(self, o):
        if o is None:
            return self.copy()
        z = Zone(self.vs)
        for k, c in self.m.items():
            d = o.m.get(k)
            if d is not None:
                z.m[k] = max(c, d)
        return z

    def widen(self, o):
        """self: older state, o: newer state (o >= self expected)"""
        z = Zone(self.vs)
        for k, c in self.m.items():
            d = o.m.get(k)
            if d is not None and d <= c:
                z.m[k] = c
        return z

    def leq(self, o):
        """self entails every constraint of o"""
        for k, c in o.m.items():
            d = self.m.get(k)
            if d is None or d > c:
                return False
        return True

    def bounds(self, x, y):
        """(lo, hi) of x - y (None = unbounded)"""
        hi = self.get(x, y)
        lo = self.get(y, x)
        return (-lo if lo is not None else None), hi

    def entails_eq(self, x, cx, y, cy):
        """x + cx == y + cy"""
        lo, hi = self.bounds(x, y)
        return lo is not None and hi is not None and lo == hi == cy - cx


def jn(a, b):
    if a is None:
        return b.copy() if b is not None else None
    if b is None:
        return a.copy()
    return a.join(b)


KMAX = 6


def cat(a, b):
    """union of two disjunctive states (lists of zones); collapsed to one zone beyond KMAX disjuncts"""
    out = [z for z in (a or []) if z is not None] + [z for z in (b or []) if z is not None]
    if len(out) > KMAX:
        one = None
        for z in out:
            one = jn(one, z)
        out = [one]
    return out


def collapse(lst):
    one = None
    for z in lst or []:
        one = jn(one, z)
    return one


class Flow:
    """outcome of a statement: lists of zones (disjuncts) for normal completion / break / continue / return.
    Disjuncts are only created at loop exits (exit through the condition vs. through each break), so that a following
    condition can rule one of them out before they are joined."""

    def __init__(self, normal=None):
        self.normal = [normal] if normal is not None else []
        self.brk = []
        self.cont = []
        self.ret = []

    def absorb(self, f):
        self.brk, self.cont, self.ret = cat(self.brk, f.brk), cat(self.cont, f.cont), cat(self.ret, f.ret)


class CounterProgram:
    def __init__(self, fn, ghosts=(), on_store=None, integral=None):
        self.fn = fn
        self.ghosts = list(ghosts)
        self.on_store = on_store       # callback(self, assign node, state) -> state   for stores into arrays
        self.names = {}
        self.vars = []
        self.integral = integral or (lambda ty: ty.replace("const ", "").strip() in (
            "FEAT::Index", "unsigned long", "unsigned int", "int", "long", "std::size_t", "size_t") or ty.endswith("Index"))
        for p in fn.params:
            if self.integral(fn.type(p["t"]) or ""):
                self.vars.append(p["d"])
                self.names[p["d"]] = p["n"]
        for n in fn.nodes():
            if n.get("k") == "Var" and self.integral(fn.type(n.get("t")) or ""):
                if n["d"] not in self.names:
                    self.vars.append(n["d"])
                    self.names[n["d"]] = n["n"]
        for g in self.ghosts:
            self.names[g] = g
        self.havocs = []       # (var, node) assignments that are not modelled
        self.copies = []       # (x, y) for x := y + c
        self.unmodelled = []   # statements the interpreter does not understand
        self.rounds_exceeded = False

    def top(self):
        z = Zone(self.vars + self.ghosts)
        for g in self.ghosts:
            z.m[(g, ZERO)] = 0
            z.m[(ZERO, g)] = 0
        return z

    # ---------------------------------------------------------------------------------------------
    def term(self, n):
        """(var | ZERO, const) for  c | v | v + c | v - c"""
        n = strip(n)
        if n is None:
            return None
        k = n.get("k")
        if k == "Int":
            try:
                return ZERO, int(n["v"])
            except ValueError:
                return None
        if k == "Ref" and n.get("d") in self.names:
            return n["d"], 0
        if k == "Ref" and "v" in n:
            try:
                return ZERO, int(n["v"])
            except (ValueError, TypeError):
                return None
        if k == "Bin" and n.get("op") in ("+", "-"):
            a, b = self.term(n["lhs"]), self.term(n["rhs"])
            if a is None or b is None:
                return None
            if b[0] == ZERO:
                return a[0], a[1] + (b[1] if n["op"] == "+" else -b[1])
            if a[0] == ZERO and n["op"] == "+":
                return b[0], a[1] + b[1]
            return None
        if k in ("Construct", "TempObj") and len(n.get("a", [])) == 1:
            return self.term(n["a"][0])
        return None

    def constraints(self, c, positive):
        """list of (x, y, c) constraints implied by the condition (or its negation); [] when nothing is known"""
        c = strip(c)
        if c is None:
            return []
        k = c.get("k")
        if k == "Un" and c.get("op") == "!":
            return self.constraints(c["e"], not positive)
        if k == "Bin" and c.get("op") == "&&":
            if positive:
                return self.constraints(c["lhs"], True) + self.constraints(c["rhs"], True)
            return []
        if k == "Bin" and c.get("op") == "||":
            if not positive:
                return self.constraints(c["lhs"], False) + self.constraints(c["rhs"], False)
            return []
        if k == "Bin" and c.get("op") in ("<", "<=", ">", ">=", "==", "!="):
            a, b = self.term(c["lhs"]), self.term(c["rhs"])
            if a is None or b is None:
                return []
            op = c["op"]
            if not positive:
                op = {"<": ">=", "<=": ">", ">": "<=", ">=": "<", "==": "!=", "!=": "=="}[op]
            (x, cx), (y, cy) = a, b
            # x + cx  op  y + cy
            if op == "<":
                return [(x, y, cy - cx - 1)]
            if op == "<=":
                return [(x, y, cy - cx)]
            if op == ">":
                return [(y, x, cx - cy - 1)]
            if op == ">=":
                return [(y, x, cx - cy)]
            if op == "==":
                return [(x, y, cy - cx), (y, x, cx - cy)]
            return []
        return []

    def filter(self, st, c, positive):
        if st is None:
            return None
        for x, y, k in self.constraints(c, positive):
            st = st.add(x, y, k)
            if st is None:
                return None
        return st

    # ---------------------------------------------------------------------------------------------
    def assign_to(self, st, d, rhs, node):
        t = self.term(rhs) if rhs is not None else None
        if t is None:
            self.havocs.append((d, node))
            return st.havoc(d)
        self.copies.append((d, t[0]))
        return st.assign(d, t[0], t[1])

    def expr(self, n, st):
        """effects of an expression on the state (evaluation order approximated by tree order)"""
        if st is None or n is None:
            return st
        n0 = n
        n = strip(n)
        if n is None:
            return st
        k = n.get("k")
        if k == "Bin" and n.get("op") == ",":
            return self.expr(n["rhs"], self.expr(n["lhs"], st))
        inc = _is_incdec(n)
        if inc is not None:
            tgt, step = inc
            if tgt.get("k") == "Ref" and tgt.get("d") in self.names:
                amount = step
                return st.assign(tgt["d"], tgt["d"], amount)
            return self.subexprs(n, st)
        if k == "Assign":
            lhs = strip(n["lhs"])
            st = self.expr(n["rhs"], st)
            if st is None:
                return None
            if lhs.get("k") == "Ref" and lhs.get("d") in self.names:
                d = lhs["d"]
                if n["op"] == "=":
                    return self.assign_to(st, d, n["rhs"], n)
                t = self.term(n["rhs"])
                if n["op"] in ("+=", "-=") and t is not None and t[0] == ZERO:
                    return st.assign(d, d, t[1] if n["op"] == "+=" else -t[1])
                self.havocs.append((d, n))
                return st.havoc(d)
            st = self.subexprs(lhs, st)
            if self.on_store is not None and st is not None:
                st = self.on_store(self, n, st)
            return st
        if k == "Call":
            if n.get("noreturn"):
                return None
            if (n.get("callee") or "").endswith("FEAT::assertion") and n.get("a"):
                return self.filter(st, n["a"][0], True)
        if k in ("Call", "MCall", "OpCall", "Construct", "TempObj"):
            # a tracked variable handed over by non-const reference may be changed
            pts = n.get("pt", [])
            args = n.get("a", [])
            if k == "OpCall" and n.get("ccls"):
                pass
            for i, a in enumerate(args):
                a2 = strip(a)
                if a2 is not None and a2.get("k") == "Ref" and a2.get("d") in self.names and i < len(pts):
                    ty = self.fn.type(pts[i]) or ""
                    if ty.endswith("&") and not ty.startswith("const"):
                        self.havocs.append((a2["d"], n))
                        st = st.havoc(a2["d"])
            return self.subexprs(n, st)
        if k == "Un" and n.get("op") == "&":
            e = strip(n["e"])
            if e is not None and e.get("k") == "Ref" and e.get("d") in self.names:
                self.havocs.append((e["d"], n))
                return st.havoc(e["d"])
        return self.subexprs(n, st)

    def subexprs(self, n, st):
        for c in children(n):
            if st is None:
                return None
            if c.get("k") in ("Block", "Decl", "If", "For", "While", "Do", "Switch", "Return"):
                continue
            st = self.expr(c, st)
        return st

    # ---------------------------------------------------------------------------------------------
    def stmts(self, s, sts):
        """statement on a disjunctive state"""
        fl = Flow()
        for st in sts:
            f = self.stmt(s, st)
            fl.normal = cat(fl.normal, f.normal)
            fl.absorb(f)
        return fl

    def stmt(self, s, st):
        """statement on one zone -> Flow"""
        fl = Flow()
        if st is None or s is None:
            fl.normal = [st] if st is not None else []
            return fl
        k = s.get("k")
        if k == "Block":
            cur = [st]
            for x in s.get("s", []):
                f = self.stmts(x, cur)
                fl.absorb(f)
                cur = f.normal
                if not cur:
                    break
            fl.normal = cur
            return fl
        if k == "Decl":
            cur = st
            for v in s.get("vars", []):
                if v.get("init") is not None:
                    cur = self.expr(v["init"], cur)
                    if cur is None:
                        break
                if v["d"] in self.names:
                    if v.get("init") is not None:
                        cur = self.assign_to(cur, v["d"], v["init"], v)
                    else:
                        cur = cur.havoc(v["d"])
            fl.normal = [cur] if cur is not None else []
            return fl
        if k == "If":
            st = self.expr(s.get("c"), st)
            ft = self.stmt(s.get("then"), self.filter(st, s.get("c"), True))
            fe = self.stmt(s.get("else"), self.filter(st, s.get("c"), False)) if s.get("else") is not None else Flow(self.filter(st, s.get("c"), False))
            one = jn(collapse(ft.normal), collapse(fe.normal))
            fl.normal = [one] if one is not None else []
            fl.absorb(ft)
            fl.absorb(fe)
            return fl
        if k in ("For", "While"):
            cur = st
            if k == "For" and s.get("init") is not None:
                i0 = s["init"]
                if strip(i0).get("k") == "Decl":
                    cur = collapse(self.stmt(strip(i0), cur).normal)
                else:
                    cur = self.expr(i0, cur)
            return self.loop(s.get("c"), s.get("body"), s.get("inc") if k == "For" else None, cur)
        if k == "Do":
            f = self.stmt(s.get("body"), st)
            f2 = self.loop(s.get("c"), s.get("body"), None, jn(collapse(f.normal), collapse(f.cont)))
            f2.normal = cat(f2.normal, f.brk)
            f2.ret = cat(f2.ret, f.ret)
            return f2
        if k == "ForRange":
            return self.loop(None, s.get("body"), None, st)
        if k == "Switch":
            return self.switch(s, st)
        if k == "Return":
            st = self.expr(s.get("e"), st) if s.get("e") is not None else st
            fl.ret = [st] if st is not None else []
            return fl
        if k == "Break":
            fl.brk = [st]
            return fl
        if k == "Continue":
            fl.cont = [st]
            return fl
        if k in ("Case", "Default"):
            inner = s.get("s")
            cur = [st]
            for x in (inner if isinstance(inner, list) else ([inner] if inner else [])):
                f = self.stmts(x, cur)
                fl.absorb(f)
                cur = f.normal
            fl.normal = cur
            return fl
        if k in ("Try", "OMP"):
            self.unmodelled.append((k, s.get("l")))
            return self.stmt(s.get("body"), st)
        r = self.expr(s, st)
        fl.normal = [r] if r is not None else []
        return fl

    def switch(self, s, st):
        fl = Flow()
        st = self.expr(s.get("c"), st)
        if st is None:
            return fl
        body = s.get("body")
        stmts = body.get("s", []) if body is not None and body.get("k") == "Block" else ([body] if body else [])
        cur = None
        out = None
        has_default = [False]

        def labels(x):
            while x is not None and x.get("k") in ("Case", "Default"):
                if x.get("k") == "Default":
                    has_default[0] = True
                inner = x.get("s")
                x = inner[0] if isinstance(inner, list) and inner else (inner if isinstance(inner, dict) else None)
            return x
        for x in stmts:
            if x.get("k") in ("Case", "Default"):
                cur = jn(cur, st)
                inner = labels(x)
                f = self.stmt(inner, cur) if inner is not None else Flow(cur)
            else:
                f = self.stmt(x, cur)
            out = jn(out, collapse(f.brk))
            fl.cont, fl.ret = cat(fl.cont, f.cont), cat(fl.ret, f.ret)
            cur = collapse(f.normal)
        out = jn(out, cur)
        if not has_default[0]:
            out = jn(out, st)
        fl.normal = [out] if out is not None else []
        return fl

    def loop(self, cond, body, inc, st):
        fl = Flow()
        if st is None:
            return fl
        back = []
        prev = None
        last = None
        rounds = 0
        while True:
            rounds += 1
            body_in = None
            for x in [st] + back:
                x2 = self.expr(cond, x) if cond is not None else x
                body_in = jn(body_in, self.filter(x2, cond, True) if cond is not None else x2)
            if body_in is None:
                break
            if prev is not None:
                cand = jn(prev, body_in)
                if rounds > 3:
                    cand = prev.widen(cand)
                if cand.leq(prev):
                    break
                body_in = cand
            if rounds > 40:
                self.rounds_exceeded = True
                break
            prev = body_in
            f = self.stmt(body, body_in)
            after = cat(f.normal, f.cont)
            if inc is not None:
                after = [z for z in (self.expr(inc, a) for a in after) if z is not None]
            back = after
            last = f
        out = []
        for x in [st] + back:
            x2 = self.expr(cond, x) if cond is not None else x
            z = self.filter(x2, cond, False) if cond is not None else x2
            if z is not None:
                out = cat(out, [z])
        if last is not None:
            out = cat(out, last.brk)
            fl.ret = last.ret
        fl.normal = out
        return fl

    def run(self):
        return self.stmt(self.fn.body, self.top())
