"""featlib: front-end driver, fact-base access, CFG helpers, verdict/evidence plumbing.

Everything here is technique-neutral plumbing for the static rules in /verif/checks:
  * extract(): run the featx clang plugin on a TU against /repo's *current* working tree and
    return the resolved program facts (cached by a content hash of the whole source tree, so a
    changed tree is always re-parsed);
  * syntax_check(): front-end diagnostics of a TU (instantiability rule E0);
  * Node helpers (walk, calls, rendering), CFG helpers (dominators, must-pass-through);
  * Check: obligation bookkeeping, known findings, VIOLATION lines, evidence JSON, exit codes.
"""
import hashlib
import json
import os
import re
import subprocess
import sys
import time

VERIF = os.path.dirname(os.path.dirname(os.path.abspath(__file__)))
REPO = os.environ.get("FEAT_REPO", "/repo")
OUT = os.environ.get("VERIF_OUT") or os.path.join(VERIF, "out")
EVIDENCE_DIR = os.environ.get("VERIF_EVIDENCE_DIR") or os.path.join(VERIF, "evidence")
PLUGIN = os.path.join(VERIF, "fe", "featx.so")
MPI_INC = "/usr/lib/x86_64-linux-gnu/openmpi/include"

SRC_DIRS = ["kernel", "control", "applications", "tutorials", "tools", "area51", "benchmarks", "test_system"]
SRC_EXT = (".hpp", ".cpp", ".h", ".c", ".cu", ".dox")

_tree_digest = None


def repo_path(p=""):
    """absolute path (or path regex prefix) below the repository under analysis"""
    return os.path.join(REPO, p) if p else REPO


def cfg_dir():
    p = os.path.join(REPO, "_build")
    if os.path.exists(os.path.join(p, "feat_config.hpp")):
        return p
    return os.path.join(VERIF, "fe", "cfg")


def tree_digest():
    """content hash of every source file of the repository (the cache key of all facts)"""
    global _tree_digest
    if _tree_digest is not None:
        return _tree_digest
    h = hashlib.sha256()
    files = []
    for d in SRC_DIRS:
        root = os.path.join(REPO, d)
        for dp, dn, fn in os.walk(root):
            for f in fn:
                if f.endswith(SRC_EXT):
                    files.append(os.path.join(dp, f))
    files.append(os.path.join(cfg_dir(), "feat_config.hpp"))
    files.append(os.path.join(REPO, "doxy_in"))
    for f in sorted(files):
        if os.path.isdir(f):
            for g in sorted(os.listdir(f)):
                p = os.path.join(f, g)
                if os.path.isfile(p):
                    h.update(p.encode())
                    h.update(open(p, "rb").read())
            continue
        try:
            data = open(f, "rb").read()
        except OSError:
            continue
        h.update(f.encode())
        h.update(b"\0")
        h.update(data)
    if os.path.exists(PLUGIN):
        h.update(open(PLUGIN, "rb").read())
    _tree_digest = h.hexdigest()
    return _tree_digest


def base_flags(mpi=False, debug=False, extra=()):
    fl = ["-std=gnu++17", "-I" + cfg_dir(), "-I" + REPO, "-I" + VERIF,
          "-Wno-everything", "-ferror-limit=0", "-fno-caret-diagnostics", "-fno-color-diagnostics"]
    if debug:
        fl += ["-UNDEBUG", "-DDEBUG"]
    else:
        fl += ["-DNDEBUG"]
    if mpi:
        fl += ["-DFEAT_HAVE_MPI", "-I" + MPI_INC]
    fl += list(extra)
    return fl


DIAG_RE = re.compile(r"^(?P<file>[^:\n]+):(?P<line>\d+):(?P<col>\d+): (?P<sev>error|fatal error): (?P<msg>.*)$")
NOTE_RE = re.compile(r"^(?P<file>[^:\n]+):(?P<line>\d+):(?P<col>\d+): note: (?P<msg>.*)$")


def parse_diags(stderr):
    """-> list of errors, each with the notes (instantiation stack) that follow it"""
    errs = []
    cur = None
    for ln in stderr.splitlines():
        m = DIAG_RE.match(ln)
        if m:
            cur = {"file": m.group("file"), "line": int(m.group("line")), "msg": m.group("msg"), "notes": []}
            errs.append(cur)
            continue
        m = NOTE_RE.match(ln)
        if m and cur is not None:
            cur["notes"].append({"file": m.group("file"), "line": int(m.group("line")), "msg": m.group("msg")})
    return errs


def _cache_path(key):
    d = os.path.join(OUT, "cache")
    os.makedirs(d, exist_ok=True)
    return os.path.join(d, key + ".json")


def extract(tu, files, names=None, patterns=False, mpi=False, debug=False, cfg=True, extra=(), use_cache=True):
    """Run the featx plugin on `tu` (path, absolute or relative to /verif).  Returns a Facts object."""
    if not os.path.isabs(tu):
        tu = os.path.join(VERIF, tu)
    if not os.path.exists(PLUGIN):
        raise AnalysisBroken("featx.so not built: run `make -C /verif/fe`")
    src = open(tu, "rb").read()
    keysrc = json.dumps([tree_digest(), tu, hashlib.sha256(src).hexdigest(), files, names, patterns, mpi, debug, cfg, list(extra)])
    key = hashlib.sha256(keysrc.encode()).hexdigest()[:32]
    cp = _cache_path(key)
    if use_cache and os.path.exists(cp):
        try:
            return Facts(json.load(open(cp)))
        except Exception:
            pass
    tmp = cp + ".%d.tmp" % os.getpid()
    cmd = ["clang++", "-fsyntax-only"] + base_flags(mpi=mpi, debug=debug, extra=extra) + [
        "-fplugin=" + PLUGIN,
        "-Xclang", "-plugin-arg-featx", "-Xclang", "out=" + tmp,
        "-Xclang", "-plugin-arg-featx", "-Xclang", "files=" + files]
    if names:
        cmd += ["-Xclang", "-plugin-arg-featx", "-Xclang", "names=" + names]
    if patterns:
        cmd += ["-Xclang", "-plugin-arg-featx", "-Xclang", "patterns=1"]
    if not cfg:
        cmd += ["-Xclang", "-plugin-arg-featx", "-Xclang", "cfg=0"]
    cmd.append(tu)
    t0 = time.time()
    p = subprocess.run(cmd, capture_output=True, text=True)
    if not os.path.exists(tmp):
        raise AnalysisBroken("front end produced no facts for %s (rc=%d): %s" % (tu, p.returncode, p.stderr[-2000:]))
    try:
        data = json.load(open(tmp))
    except Exception as e:
        raise AnalysisBroken("facts of %s unreadable: %s; stderr: %s" % (tu, e, p.stderr[-1500:]))
    finally:
        try:
            os.remove(tmp)
        except OSError:
            pass
    data["diags"] = parse_diags(p.stderr)
    data["tu"] = tu
    data["parse_s"] = round(time.time() - t0, 2)
    data["flags"] = {"mpi": mpi, "debug": debug}
    with open(cp + ".w%d" % os.getpid(), "w") as f:
        json.dump(data, f)
    os.replace(cp + ".w%d" % os.getpid(), cp)
    return Facts(data)


def syntax_check(tu=None, source=None, mpi=False, debug=False, extra=()):
    """front-end only; returns list of errors.  `source` may hold the TU text instead of a path."""
    args = ["clang++", "-fsyntax-only"] + base_flags(mpi=mpi, debug=debug, extra=extra)
    if source is not None:
        p = subprocess.run(args + ["-x", "c++", "-"], input=source, capture_output=True, text=True)
    else:
        if not os.path.isabs(tu):
            tu = os.path.join(VERIF, tu)
        p = subprocess.run(args + [tu], capture_output=True, text=True)
    return parse_diags(p.stderr)


def rel(path):
    if path and path.startswith(REPO + "/"):
        return path[len(REPO) + 1:]
    return path


class AnalysisBroken(Exception):
    pass


# -------------------------------------------------------------------------------------------------
# fact base access
# -------------------------------------------------------------------------------------------------

CHILD_KEYS = ("a", "s", "ch", "handlers")
CHILD_SINGLE = ("lhs", "rhs", "e", "b", "idx", "c", "then", "else", "init", "inc", "body", "obj", "fn",
                "v", "range", "cvar", "size")


def children(n):
    """direct child nodes of a node (dict)"""
    if not isinstance(n, dict):
        return
    for k in CHILD_SINGLE:
        v = n.get(k)
        if isinstance(v, dict) and "k" in v:
            yield v
    for k in CHILD_KEYS:
        v = n.get(k)
        if isinstance(v, list):
            for x in v:
                if isinstance(x, dict) and "k" in x:
                    yield x
        elif isinstance(v, dict) and "k" in v:
            # Case/Default carry their single sub-statement as a dict under "s"
            yield v
    if n.get("k") == "Decl":
        for vd in n.get("vars", []):
            yield vd
    if n.get("k") == "ForRange":
        yield n["var"]


def walk(n, prune=None):
    """pre-order walk over all nodes below and including n; prune(node)->True stops descent"""
    if n is None:
        return
    stack = [n]
    while stack:
        x = stack.pop()
        yield x
        if prune is not None and x is not n and prune(x):
            continue
        ch = list(children(x))
        stack.extend(reversed(ch))


def is_call(n):
    return n.get("k") in ("Call", "MCall", "OpCall", "Construct", "TempObj")


def calls(n, callee_re=None, name=None):
    for x in walk(n):
        if is_call(x):
            if callee_re is not None and not re.search(callee_re, x.get("callee", "")):
                continue
            if name is not None and x.get("callee", "").rsplit("::", 1)[-1] != name:
                continue
            yield x


def render(n, depth=0):
    """compact C++-like rendering of an expression/statement node (for reports and normal forms)"""
    if n is None:
        return ""
    if depth > 40:
        return "..."
    k = n.get("k")
    r = lambda x: render(x, depth + 1)
    if k in ("Int",):
        return n["v"]
    if k == "Float":
        return n.get("text") or n["v"]
    if k == "Bool":
        return "true" if n["v"] else "false"
    if k == "Str":
        return json.dumps(n["v"])
    if k == "Char":
        return "'%s'" % chr(n["v"]) if 32 <= n["v"] < 127 else "'\\x%02x'" % n["v"]
    if k == "Null":
        return "nullptr"
    if k == "This":
        return "this"
    if k in ("Ref", "DepRef"):
        return n.get("qn") if n.get("dk") in ("enum",) and n.get("qn") else n["n"]
    if k in ("Member", "DepMember"):
        b = n.get("b")
        if b is None or (b.get("k") == "This" and True):
            return ("this->" if b is not None and not n.get("implicit_this") else "") + n["n"] if b is not None else n["n"]
        return r(b) + ("->" if n.get("arrow") else ".") + n["n"]
    if k == "MCall":
        o = n.get("obj")
        nm = n.get("n") or n.get("callee", "?").rsplit("::", 1)[-1]
        args = ", ".join(r(a) for a in n.get("a", []))
        if o is None or o.get("k") == "This":
            return "this->%s(%s)" % (nm, args)
        return "%s%s%s(%s)" % (r(o), "->" if n.get("arrow") else ".", nm, args)
    if k == "Call":
        nm = n.get("callee") or r(n.get("fn"))
        return "%s(%s)" % (nm, ", ".join(r(a) for a in n.get("a", [])))
    if k == "OpCall":
        a = n.get("a", [])
        op = n.get("op")
        if op == "[]" and len(a) == 2:
            return "%s[%s]" % (r(a[0]), r(a[1]))
        if op == "()":
            return "%s(%s)" % (r(a[0]), ", ".join(r(x) for x in a[1:]))
        if len(a) == 2:
            return "(%s %s %s)" % (r(a[0]), op, r(a[1]))
        if len(a) == 1:
            return "(%s%s)" % (op, r(a[0]))
        return "op%s(%s)" % (op, ", ".join(r(x) for x in a))
    if k in ("Construct", "TempObj", "DepConstruct"):
        nm = n.get("ccls") or n.get("type") or n.get("callee", "?")
        return "%s(%s)" % (nm, ", ".join(r(a) for a in n.get("a", [])))
    if k in ("Bin", "Assign"):
        return "(%s %s %s)" % (r(n["lhs"]), n["op"], r(n["rhs"]))
    if k == "Un":
        return "(%s%s)" % (r(n["e"]), n["op"]) if n.get("post") else "(%s%s)" % (n["op"], r(n["e"]))
    if k == "Index":
        return "%s[%s]" % (r(n["b"]), r(n["idx"]))
    if k == "Cond":
        return "(%s ? %s : %s)" % (r(n["c"]), r(n["then"]), r(n["else"]))
    if k == "Cast":
        return "%s(%s)" % (n.get("to"), r(n.get("e")))
    if k == "InitList":
        return "{%s}" % ", ".join(r(a) for a in n.get("a", []))
    if k == "Return":
        return "return %s" % r(n.get("e"))
    if k == "Throw":
        return "throw %s" % r(n.get("e"))
    if k == "Var":
        return "%s = %s" % (n["n"], r(n.get("init"))) if n.get("init") else n["n"]
    if k == "Decl":
        return "; ".join(r(v) for v in n.get("vars", []))
    if k == "SizeOf":
        return "sizeof(%s)" % (n.get("type") or r(n.get("e")))
    if k == "Lambda":
        return "[lambda@%s]" % n.get("l")
    if k == "If":
        return "if(%s)" % r(n.get("c"))
    if k in ("For", "While", "Do", "ForRange", "Switch"):
        return "%s(%s)" % (k.lower(), r(n.get("c")))
    if k == "Block":
        return "{...}"
    if k == "ValueInit":
        return "T()"
    return "<%s>" % k


class Function:
    def __init__(self, facts, d):
        self.facts = facts
        self.d = d
        self.qn = d["qn"]
        self.full = d.get("full", self.qn)
        self.name = d.get("name")
        self.cls = d.get("cls", "")
        self.file = d.get("file", "")
        self.line = d.get("line", 0)
        self.end = d.get("end", 0)
        self.tk = d.get("tk")
        self.decl = d.get("decl")          # declaration id: == `cdecl` of the calls resolved to this function
        self.spec_of = d.get("spec_of")    # instantiated call operator of a generic lambda: decl id of its pattern
        self.body = d.get("body")
        self.params = d.get("params", [])
        self._byid = None
        self._cfg = None

    def __repr__(self):
        return "<Function %s %s:%d>" % (self.full, rel(self.file), self.line)

    @property
    def loc(self):
        return "%s:%d" % (rel(self.file), self.line)

    def type(self, tid):
        return self.facts.types[tid] if tid is not None and 0 <= tid < len(self.facts.types) else ""

    def ntype(self, n):
        return self.type(n.get("t"))

    def nodes(self):
        for i in self.d.get("inits", []) or []:
            yield from walk(i.get("init"))
        yield from walk(self.body)

    def by_id(self, i):
        if self._byid is None:
            self._byid = {}
            for n in self.nodes():
                if "i" in n:
                    self._byid[n["i"]] = n
        return self._byid.get(i)

    def calls(self, callee_re=None, name=None):
        for n in self.nodes():
            if is_call(n):
                if callee_re is not None and not re.search(callee_re, n.get("callee", "")):
                    continue
                if name is not None and n.get("callee", "").rsplit("::", 1)[-1] != name:
                    continue
                yield n

    def param(self, name):
        for p in self.params:
            if p["n"] == name:
                return p
        return None

    def param_type(self, name):
        p = self.param(name)
        return self.type(p["t"]) if p else None

    @property
    def cfg(self):
        if self._cfg is None and self.d.get("cfg"):
            self._cfg = CFG(self, self.d["cfg"])
        return self._cfg


class Facts:
    def __init__(self, data):
        self.data = data
        self.types = data.get("types", [])
        self.diags = data.get("diags", [])
        self.tu = data.get("tu")
        self.functions = [Function(self, f) for f in data.get("functions", [])]
        self._by_decl = None
        self._specs = None

    def by_decl(self, decl_id):
        """the dumped function whose `decl` id is decl_id (== `cdecl` of a call resolved to it, `op_decl` /
        an entry of `op_specs` of a Lambda node, `spec_of` of a lambda specialisation); None if not dumped"""
        if self._by_decl is None:
            idx = {}
            for f in self.functions:
                if f.decl is not None:
                    idx.setdefault(f.decl, f)
            self._by_decl = idx
        return self._by_decl.get(decl_id)

    def lambda_specs(self, x):
        """instantiated call operators (tk 'inst': resolved body + CFG, same qn as the pattern) of a generic
        lambda, in dump order.  x = Lambda node, the pattern call-operator Function (or one of its
        specialisations), or the pattern's decl id (`op_decl`).  [] for a non-generic lambda.  The
        specialisation called at a given site is `facts.by_decl(call["cdecl"])`."""
        if isinstance(x, Function):
            pid = x.spec_of if x.spec_of is not None else x.decl
        elif isinstance(x, dict):
            pid = x.get("op_decl")
        else:
            pid = x
        if self._specs is None:
            idx = {}
            for f in self.functions:
                if f.spec_of is not None:
                    idx.setdefault(f.spec_of, []).append(f)
            self._specs = idx
        return list(self._specs.get(pid, []))

    def find(self, qn_re=None, name=None, cls_re=None, file_re=None, tk=None, full_re=None):
        out = []
        for f in self.functions:
            if qn_re is not None and not re.search(qn_re, f.qn):
                continue
            if full_re is not None and not re.search(full_re, f.full):
                continue
            if name is not None and f.name != name:
                continue
            if cls_re is not None and not re.search(cls_re, f.cls):
                continue
            if file_re is not None and not re.search(file_re, f.file):
                continue
            if tk is not None and f.tk not in (tk if isinstance(tk, (list, tuple, set)) else (tk,)):
                continue
            out.append(f)
        return out

    def errors_in_repo(self):
        return [e for e in self.diags if e["file"].startswith(REPO + "/")]

    def errors_outside_repo(self):
        return [e for e in self.diags if not e["file"].startswith(REPO + "/")]


# -------------------------------------------------------------------------------------------------
# CFG
# -------------------------------------------------------------------------------------------------

class CFG:
    """clang CFG of one function.  Blocks carry the ids of 'interesting' statements (calls,
    assignments, inc/dec, decls, returns, throws) in execution order."""

    def __init__(self, fn, d):
        self.fn = fn
        self.entry = d["entry"]
        self.exit = d["exit"]
        self.blocks = {b["id"]: b for b in d["blocks"]}
        self.succ = {}
        self.pred = {b: [] for b in self.blocks}
        for b in d["blocks"]:
            ss = [s for s in b.get("succ", []) if s is not None]
            self.succ[b["id"]] = ss
        for b, ss in self.succ.items():
            for s in ss:
                self.pred.setdefault(s, []).append(b)
        self._dom = None
        self._pdom = None
        self._where = None

    def block_of(self, stmt_id):
        if self._where is None:
            self._where = {}
            for b in self.blocks.values():
                for pos, e in enumerate(b["el"]):
                    self._where.setdefault(e, (b["id"], pos))
        return self._where.get(stmt_id)

    def reachable(self, start=None, avoid=()):
        start = self.entry if start is None else start
        seen = set()
        st = [start]
        while st:
            b = st.pop()
            if b in seen or b in avoid:
                continue
            seen.add(b)
            st.extend(self.succ.get(b, []))
        return seen

    def noreturn_blocks(self):
        return {b["id"] for b in self.blocks.values() if b.get("noreturn")}

    def normal_exit_preds(self):
        """blocks that flow into EXIT by a normal return (not via noreturn call / throw)"""
        out = []
        for p in self.pred.get(self.exit, []):
            b = self.blocks[p]
            if b.get("noreturn"):
                continue
            if any((self.fn.by_id(e) or {}).get("k") == "Throw" for e in b["el"]):
                continue
            out.append(p)
        return out

    def _dominators(self, succ, pred, root):
        nodes = self.reachable_from(root, succ)
        dom = {n: set(nodes) for n in nodes}
        dom[root] = {root}
        changed = True
        order = list(nodes)
        while changed:
            changed = False
            for n in order:
                if n == root:
                    continue
                ps = [p for p in pred.get(n, []) if p in nodes]
                if not ps:
                    new = {n}
                else:
                    new = set.intersection(*[dom[p] for p in ps]) | {n}
                if new != dom[n]:
                    dom[n] = new
                    changed = True
        return dom

    @staticmethod
    def reachable_from(root, succ):
        seen = []
        s = set()
        st = [root]
        while st:
            b = st.pop()
            if b in s:
                continue
            s.add(b)
            seen.append(b)
            st.extend(succ.get(b, []))
        return seen

    @property
    def dom(self):
        if self._dom is None:
            self._dom = self._dominators(self.succ, self.pred, self.entry)
        return self._dom

    @property
    def pdom(self):
        if self._pdom is None:
            self._pdom = self._dominators(self.pred, self.succ, self.exit)
        return self._pdom

    def stmt_dominates(self, a_id, b_id):
        """statement a is executed on every path from entry to statement b"""
        wa, wb = self.block_of(a_id), self.block_of(b_id)
        if wa is None or wb is None:
            return False
        if wa[0] == wb[0]:
            return wa[1] < wb[1]
        return wa[0] in self.dom.get(wb[0], ())

    def must_pass(self, pred_stmt, target_blocks=None, start=None):
        """True iff every path from `start` (entry) to each of target_blocks (default: normal exits)
        passes a statement for which pred_stmt(node) holds.  Computed by removing the marked blocks
        (with intra-block position handling for the start/target block) and testing reachability."""
        start = self.entry if start is None else start
        if target_blocks is None:
            target_blocks = self.normal_exit_preds()
        marked = set()
        for b in self.blocks.values():
            for e in b["el"]:
                n = self.fn.by_id(e)
                if n is not None and pred_stmt(n):
                    marked.add(b["id"])
                    break
        bad = []
        reach = self.reachable(start, avoid=marked)
        for t in target_blocks:
            if t in reach:
                bad.append(t)
        return (len(bad) == 0), bad

    def path_to(self, target, avoid=()):
        """some path of block ids entry→target avoiding blocks (for reports)"""
        from collections import deque
        q = deque([self.entry])
        par = {self.entry: None}
        while q:
            b = q.popleft()
            if b == target:
                p = []
                while b is not None:
                    p.append(b)
                    b = par[b]
                return p[::-1]
            for s in self.succ.get(b, []):
                if s not in par and s not in avoid:
                    par[s] = b
                    q.append(s)
        return None

    def block_lines(self, path):
        out = []
        for b in path or []:
            for e in self.blocks[b]["el"]:
                n = self.fn.by_id(e)
                if n:
                    out.append(n.get("l"))
        return out


# -------------------------------------------------------------------------------------------------
# verdicts / evidence
# -------------------------------------------------------------------------------------------------

def load_known():
    p = os.path.join(VERIF, "known_findings.json")
    if not os.path.exists(p):
        return {"findings": [], "fixed": []}
    return json.load(open(p))


class Check:
    """Obligation bookkeeping for one property check run."""

    def __init__(self, pid, tier="quick", level="other"):
        self.pid = pid
        self.tier = tier
        self.level = level
        self.t0 = time.time()
        self.seed = int(os.environ.get("VERIF_SEED", "0") or 0)
        self.obligations = []      # (rule, key, ok, detail)
        self.violations = []
        self.broken = []
        self.rule_counts = {}
        self.rule_docs = {}
        self.min_instances = {}
        self.samples = []
        self.analysed = {"tus": [], "functions": 0}
        self.assumptions = []
        self.notes = []
        self.known = [k for k in load_known().get("findings", []) if k.get("property") == pid]
        self.known_hit = []
        self.nontrivial = set()

    # --- declaring rules ------------------------------------------------------------------------
    def rule(self, name, doc, min_instances=1):
        self.rule_docs[name] = doc
        self.min_instances[name] = min_instances
        self.rule_counts.setdefault(name, 0)

    def tu(self, facts):
        self.analysed["tus"].append({"tu": rel(facts.tu) if facts.tu and facts.tu.startswith(REPO) else os.path.relpath(facts.tu, VERIF) if facts.tu else None,
                                     "functions": len(facts.functions), "parse_s": facts.data.get("parse_s"),
                                     "flags": facts.data.get("flags")})
        self.analysed["functions"] += len(facts.functions)

    # --- recording ------------------------------------------------------------------------------
    def ob(self, rule, key, ok, detail="", file=None, line=None, sample=None, trivial=False):
        """one rule instance.  key identifies the instance independent of line numbers."""
        if rule not in self.rule_docs:
            raise RuntimeError("undeclared rule " + rule)
        self.rule_counts[rule] += 1
        if not trivial:
            self.nontrivial.add((rule, key))
        rec = {"rule": rule, "key": key, "ok": bool(ok), "detail": detail,
               "loc": "%s:%s" % (rel(file), line) if file else None}
        self.obligations.append(rec)
        if sample is not None and len([s for s in self.samples if s.get("rule") == rule]) < 3:
            self.samples.append({"rule": rule, "key": key, "loc": rec["loc"], "ok": bool(ok), "what": sample})
        elif len([s for s in self.samples if s.get("rule") == rule]) < 2:
            self.samples.append({"rule": rule, "key": key, "loc": rec["loc"], "ok": bool(ok), "what": detail[:300]})
        if not ok:
            self.violations.append(rec)
        return ok

    def incomplete(self, rule, what):
        """analysis could not decide (unrecognised construct, vanished anchor): exit 2"""
        self.broken.append({"rule": rule, "what": what})

    def note(self, s):
        self.notes.append(s)

    def assume(self, s):
        if s not in self.assumptions:
            self.assumptions.append(s)

    # --- finishing ------------------------------------------------------------------------------
    def _match_known(self, v):
        for k in self.known:
            if k.get("rule") == v["rule"] and k.get("key") == v["key"]:
                return k
        return None

    def finish(self, explanation, trusted_base=None, exhaustive=False, extra=None):
        for r, m in self.min_instances.items():
            if self.rule_counts.get(r, 0) < m:
                self.broken.append({"rule": r, "what": "only %d instances found, %d confirmed by hand on the pinned tree (anchor vanished or extraction failed)" % (self.rule_counts.get(r, 0), m)})
        new = []
        for v in self.violations:
            k = self._match_known(v)
            if k is not None:
                self.known_hit.append((k, v))
            else:
                new.append(v)
        os.makedirs(os.path.join(OUT, self.pid), exist_ok=True)
        for k, v in self.known_hit:
            print("KNOWN-FINDING: property=%s rule=%s %s — %s (%s)" % (self.pid, v["rule"], v["key"], k.get("what", ""), v["loc"]))
        replay_paths = []
        for n, v in enumerate(new):
            rp = os.path.join(OUT, self.pid, "violation-%03d.json" % n)
            with open(rp, "w") as f:
                json.dump({"property": self.pid, "rule": v["rule"], "rule_doc": self.rule_docs.get(v["rule"]),
                           "instance": v["key"], "loc": v["loc"], "detail": v["detail"]}, f, indent=1)
            replay_paths.append(rp)
            print("VIOLATION property=%s replay=%s" % (self.pid, rp))
            print("  rule=%s instance=%s at %s: %s" % (v["rule"], v["key"], v["loc"], v["detail"]))
        for b in self.broken:
            print("ANALYSIS-BROKEN property=%s rule=%s: %s" % (self.pid, b["rule"], b["what"]))
        nob = len(self.obligations)
        disc = nob - len(self.violations)
        cov = {
            "explanation": explanation,
            "obligations": nob,
            "discharged": disc,
            "evaluations": max(nob, 1),
            "distinct_nontrivial": len(self.nontrivial),
            "rule": "one obligation per (rule, instance key); non-trivial = the rule had a non-vacuous condition to check on that instance; distinct by (rule, key)",
            "samples": self.samples[:40] if self.samples else [{"note": "no instances"}],
            "checker_cmd": "./check %s --tier %s" % (self.pid, self.tier),
            "trusted_base": trusted_base or ["clang 14 front end (AST, template instantiation, CFG)", "featx plugin fact extraction", "rule tables in /verif/checks (transcribed from the repository, see DESIGN.md)"],
            "exhaustive": bool(exhaustive),
            "rules": {r: {"doc": self.rule_docs[r], "instances": self.rule_counts.get(r, 0), "min_instances": self.min_instances.get(r, 0)} for r in self.rule_docs},
            "analysed": self.analysed,
            "known_findings_hit": [{"rule": v["rule"], "key": v["key"]} for k, v in self.known_hit],
            "analysis_incomplete": self.broken,
            "notes": self.notes,
        }
        if extra:
            cov.update(extra)
        ev = {
            "property_id": self.pid,
            "tier": self.tier,
            "seed": self.seed,
            "level": self.level,
            "coverage": cov,
            "assumptions": self.assumptions,
            "wall_s": round(time.time() - self.t0, 2),
            "violations": len(new),
        }
        os.makedirs(EVIDENCE_DIR, exist_ok=True)
        with open(os.path.join(EVIDENCE_DIR, self.pid + ".json"), "w") as f:
            json.dump(ev, f, indent=1, sort_keys=False)
            f.write("\n")
        print("%s tier=%s: %d obligations over %d rules, %d discharged, %d known findings, %d new violations, %d analysis problems, %.1fs" % (
            self.pid, self.tier, nob, len(self.rule_docs), disc, len(self.known_hit), len(new), len(self.broken), time.time() - self.t0))
        if new:
            return 1
        if self.broken:
            return 2
        return 0
