"""lib/norm_c05.py — normalisations of clang fact trees applied *before* shape-sensitive rules look at a function.

Written for checks/c05.py (round 5: behaviour-preserving refactorings must not change a verdict), but generic:
nothing in here knows about LAFEM.  Every transformation is semantics preserving on the statement tree or it is
not applied at all (the construct is then left as it is and the client rule decides what to do with it - normally
`analysis incomplete`).  The original facts are never mutated: changed nodes are copies.

  normalized(facts, fn, ...)   -> featlib.Function with the three passes below applied (cached)
  inline_calls(...)            bounded-depth inlining of repo helpers at statement level
                                 helper(args);   T x = helper(args);   lhs op= helper(args);   return helper(args);
                               (non-virtual, non-recursive, one `return` at the end; reference parameters are replaced by
                               the argument, value parameters by a fresh local; callee locals are renamed per call site)
  expand_algorithms(...)       std::copy / copy_n / fill / fill_n statements -> the index loops they stand for
  canonical_loops(...)         for / while loops with an index or lock-step pointer induction (`for(p = b; p != e; ++p, ++q)`,
                               hoisted end pointer, `!=` bound, post-increment, advance at the end of the body)
                               -> for(I i(0); i < N; ++i) with every `*p` / `p[k]` rewritten to base[i (+k)]
  decision_groups(...)         switch / if-else-if chain / sequence of terminating ifs over one enum value -> [(labels, stmts)]
  GV*                          guarded values: the value of a local that is updated under conditions, or returned by a pure
                               helper with several returns, as a decision tree over canonical conditions
"""
import copy
import itertools

import featlib
from featlib import walk, render

_fresh = itertools.count(1)


class NotRecognised(Exception):
    pass


def fresh_decl():
    return -next(_fresh)


def strip_cast(n):
    while n is not None and n.get("k") == "Cast":
        n = n.get("e")
    return n


def unwrap(n):
    """through casts and single-argument constructions"""
    while n is not None:
        if n.get("k") == "Cast":
            n = n.get("e")
        elif n.get("k") in ("Construct", "TempObj") and len(n.get("a", [])) == 1:
            n = n["a"][0]
        else:
            break
    return n


def is_zero(n):
    n = unwrap(n)
    return n is not None and n.get("k") == "Int" and int(n["v"]) == 0


def is_one(n):
    n = unwrap(n)
    return n is not None and n.get("k") == "Int" and int(n["v"]) == 1


LOOPS = ("For", "While", "Do", "ForRange")


# -------------------------------------------------------------------------------------------------
# statement-tree rebuilding
# -------------------------------------------------------------------------------------------------

def _map_slot(x, f):
    if x is None:
        return None
    out = _map_stmt(x, f)
    if len(out) == 1:
        return out[0]
    return {"k": "Block", "s": out, "l": x.get("l")}


def _map_stmt(s, f):
    k = s.get("k")
    if k == "Block":
        new = []
        for x in s.get("s", []):
            new.extend(_map_stmt(x, f))
        if len(new) != len(s.get("s", [])) or any(a is not b for a, b in zip(new, s.get("s", []))):
            s = dict(s)
            s["s"] = new
        return f(s)
    if k == "If":
        t, e = _map_slot(s.get("then"), f), _map_slot(s.get("else"), f)
        if t is not s.get("then") or e is not s.get("else"):
            s = dict(s)
            s["then"] = t
            if e is not None:
                s["else"] = e
        return f(s)
    if k in LOOPS or k in ("Switch", "OMP"):
        b = _map_slot(s.get("body"), f)
        if b is not s.get("body"):
            s = dict(s)
            s["body"] = b
        return f(s)
    if k in ("Case", "Default"):
        sub = s.get("s")
        if isinstance(sub, dict):
            b = _map_slot(sub, f)
            if b is not sub:
                s = dict(s)
                s["s"] = b
        elif isinstance(sub, list):
            new = []
            for x in sub:
                new.extend(_map_stmt(x, f))
            if len(new) != len(sub) or any(a is not b for a, b in zip(new, sub)):
                s = dict(s)
                s["s"] = new
        return f(s)
    return f(s)


def map_stmts(body, f):
    """rebuild the statement tree bottom-up; f(stmt) -> list of statements that replace it"""
    if body is None:
        return None
    out = _map_stmt(body, f)
    if len(out) == 1 and out[0].get("k") == "Block":
        return out[0]
    return {"k": "Block", "s": out, "l": body.get("l")}


def stmts_of(n):
    if n is None:
        return []
    if n.get("k") == "Block":
        return list(n.get("s", []))
    return [n]


def replace_node(node, new):
    """in-place replacement of the content of a (copied!) node"""
    node.clear()
    node.update(new)


# -------------------------------------------------------------------------------------------------
# modification sites / constant locals of a statement tree
# -------------------------------------------------------------------------------------------------

class Ctx:
    """positions, parents and modification sites of the locals of one statement tree"""

    def __init__(self, body, params=()):
        self.body = body
        self.par = {}
        self.pos = {}
        self.end = {}
        self.decl = {}
        self.mods = {}
        order = 0
        for n in walk(body):
            self.pos[id(n)] = order
            order += 1
            for c in featlib.children(n):
                self.par[id(c)] = n
        # end position of each subtree
        for n in walk(body):
            self.end[id(n)] = self.pos[id(n)]
        for n in reversed(list(walk(body))):
            p = self.par.get(id(n))
            if p is not None and self.end[id(n)] > self.end[id(p)]:
                self.end[id(p)] = self.end[id(n)]
        self.refs = {}
        for n in walk(body):
            k = n.get("k")
            if k == "Ref" and n.get("dk") in ("local", "param"):
                self.refs.setdefault(n.get("d"), []).append(n)
            if k == "Var" and n.get("d") is not None:
                self.decl[n["d"]] = n
            tgt = None
            if k == "Assign":
                tgt = strip_cast(n["lhs"])
            elif k == "Un" and n.get("op") in ("++", "--"):
                tgt = strip_cast(n["e"])
            elif k == "Un" and n.get("op") == "&" and not n.get("post"):
                tgt = strip_cast(n["e"])
            elif k == "OpCall" and n.get("op") in ("=", "+=", "-=", "++", "--") and n.get("a"):
                tgt = strip_cast(n["a"][0])
            if tgt is not None and tgt.get("k") == "Ref" and tgt.get("dk") in ("local", "param"):
                self.mods.setdefault(tgt["d"], []).append(n)
        # a non-const reference bound to a local, or a local passed to a non-const reference parameter, may modify it
        for n in walk(body):
            if n.get("k") == "Var" and n.get("ref") and not n.get("const") and n.get("init") is not None:
                t = strip_cast(n["init"])
                if t is not None and t.get("k") == "Ref" and t.get("dk") in ("local", "param"):
                    self.mods.setdefault(t["d"], []).append(n)

    def ancestors(self, n):
        out = []
        x = n
        while id(x) in self.par:
            x = self.par[id(x)]
            out.append(x)
        return out

    def inside(self, n, root):
        return self.pos[id(root)] <= self.pos.get(id(n), -1) <= self.end[id(root)]

    def may_precede(self, site, target):
        """may `site` be executed before `target` is entered?  (conservative: True unless excluded)"""
        if id(site) not in self.pos or id(target) not in self.pos:
            return True
        if self.inside(site, target):
            return False
        a = [site] + self.ancestors(site)
        b = set(id(x) for x in [target] + self.ancestors(target))
        lca = None
        below_site = None
        for x in a:
            if id(x) in b:
                lca = x
                break
            below_site = x
        if lca is None:
            return True
        # a loop around both: the site may run in an earlier iteration
        for x in [lca] + self.ancestors(lca):
            if x.get("k") in LOOPS:
                return True
        if lca.get("k") == "If":
            in_then = lca.get("then") is not None and self.inside(site, lca["then"])
            in_else = lca.get("else") is not None and self.inside(site, lca["else"])
            t_then = lca.get("then") is not None and self.inside(target, lca["then"])
            t_else = lca.get("else") is not None and self.inside(target, lca["else"])
            if (in_then and t_else) or (in_else and t_then):
                return False
        return self.pos[id(site)] < self.pos[id(target)]

    def used_after(self, d, node):
        """is the local read or written after `node` was left (or may `node` be re-entered)?"""
        if any(x.get("k") in LOOPS for x in self.ancestors(node)):
            return True
        return any(self.pos.get(id(r), -1) > self.end[id(node)] for r in self.refs.get(d, []))

    def const_init(self, d):
        """initialiser of a local that is never modified after its declaration"""
        v = self.decl.get(d)
        if v is None or v.get("init") is None or self.mods.get(d):
            return None
        return v["init"]

    def resolve(self, n, depth=0):
        n = strip_cast(n)
        while n is not None and n.get("k") == "Ref" and n.get("dk") == "local" and depth < 8:
            ini = self.const_init(n["d"])
            if ini is None:
                break
            n = strip_cast(ini)
            depth += 1
        return n


# -------------------------------------------------------------------------------------------------
# helper inlining
# -------------------------------------------------------------------------------------------------

def _fn_index(facts):
    idx = facts.__dict__.get("_norm_fn_index")
    if idx is None:
        idx = {}
        for f in facts.functions:
            if f.tk != "pattern" and f.body is not None and f.d.get("decl") is not None:
                idx.setdefault(f.d["decl"], f)
        facts.__dict__["_norm_fn_index"] = idx
    return idx


def callee_function(facts, call):
    cd = call.get("cdecl")
    if cd is None:
        return None
    return _fn_index(facts).get(cd)


SIMPLE_ARG = ("Ref", "Member", "Int", "Bool", "Float", "SizeOf", "This", "Null", "Str", "Char")


def _simple_arg(a):
    """side-effect free expression whose value cannot change while the callee runs (as far as the callee's own parameters go)"""
    a = strip_cast(a)
    if a is None:
        return False
    k = a.get("k")
    if k in SIMPLE_ARG:
        if k == "Member":
            return a.get("b") is None or _simple_arg(a["b"])
        return True
    if k == "MCall" and not a.get("a") and a.get("cconst") and (a.get("obj") is None or _simple_arg(a["obj"])):
        return True
    if k == "Un" and a.get("op") in ("&", "*", "-") and not a.get("post"):
        return _simple_arg(a["e"])
    if k in ("Index",):
        return _simple_arg(a["b"]) and _simple_arg(a["idx"])
    if k == "Bin" and a.get("op") in ("+", "-", "*"):
        return _simple_arg(a["lhs"]) and _simple_arg(a["rhs"])
    return False


def _returns(body):
    return [n for n in walk(body, prune=lambda x: x.get("k") == "Lambda") if n.get("k") == "Return"]


def fold_guard_returns(stmts):
    """`if(c) return; rest...` (void function, no else) at the top level of a body -> `if(!c) { rest... }`, repeatedly; a trailing plain
    `return;` is dropped.  Returns the new statement list (copies where changed); other returns are left alone."""
    stmts = list(stmts)
    while stmts and stmts[-1].get("k") == "Return" and stmts[-1].get("e") is None:
        stmts.pop()
    for i, s_ in enumerate(stmts):
        if s_.get("k") == "If" and s_.get("else") is None:
            th = stmts_of(s_.get("then"))
            if len(th) == 1 and th[0].get("k") == "Return" and th[0].get("e") is None:
                rest = fold_guard_returns(stmts[i + 1:])
                neg = {"k": "Un", "op": "!", "e": s_["c"], "l": s_.get("l"), "t": s_["c"].get("t")}
                return stmts[:i] + [{"k": "If", "l": s_.get("l"), "c": neg, "then": {"k": "Block", "l": s_.get("l"), "s": rest}, "norm": True}]
    return stmts


class Inliner:
    def __init__(self, facts, want, max_depth=3):
        self.facts = facts
        self.want = want          # want(call, callee Function) -> bool
        self.max_depth = max_depth
        self.count = 0
        self.log = []

    def body_of(self, call, chain, need_value):
        """-> (prefix statements, value expression or None) or None if the call is not inlined"""
        if call.get("k") not in ("Call", "MCall", "OpCall") or len(chain) >= self.max_depth:
            return None
        g = callee_function(self.facts, call)
        is_lambda = call.get("k") == "OpCall"
        if is_lambda:
            # only the call operator of a lambda (func(args) on a closure object defined in the same file)
            if call.get("op") != "()" or call.get("ccls") != "<lambda>" or g is None or not call.get("a"):
                return None
        if g is None or g.d.get("virtual") or g.full in chain or (not is_lambda and not self.want(call, g)):
            return None
        if call.get("k") == "MCall":
            o = strip_cast(call.get("obj")) if call.get("obj") is not None else None
            if o is not None and o.get("k") != "This":
                return None
        args = call.get("a", [])[1:] if is_lambda else call.get("a", [])
        if len(args) != len(g.params):
            return None
        gbody = g.body
        if not need_value:
            # early `if(c) return;` guards of a void helper are nested instead
            folded = fold_guard_returns(stmts_of(gbody))
            if len(_returns({"k": "Block", "s": folded})) < len(_returns(gbody)):
                gbody = {"k": "Block", "s": folded, "l": gbody.get("l")}
        rets = _returns(gbody)
        top = stmts_of(gbody)
        if need_value:
            if len(rets) != 1 or not top or top[-1] is not rets[0] or rets[0].get("e") is None:
                return None
        else:
            if len(rets) > 1 or (rets and (not top or top[-1] is not rets[0])):
                return None
        if any(n.get("k") in ("Try", "Lambda") for n in walk(gbody)):
            return None
        body = copy.deepcopy(gbody)
        ctx = Ctx(body)
        # rename the callee's own locals per call site
        ren = {}
        for n in walk(body):
            if n.get("k") == "Var" and n.get("d") is not None:
                ren[n["d"]] = fresh_decl()
        prefix = []
        subst = {}
        by_ref_locals = set()
        for p, a in zip(g.params, args):
            if (g.type(p["t"]) or "").rstrip().endswith("&"):
                t = strip_cast(a)
                if t is not None and t.get("k") == "Ref":
                    by_ref_locals.add(t.get("d"))
        for p, a in zip(g.params, args):
            pt = (g.type(p["t"]) or "").rstrip()
            modified = bool(ctx.mods.get(p["d"]))
            a0 = strip_cast(a)
            if pt.endswith("&") and (_simple_arg(a) or (a0 is not None and a0.get("k") in ("Ref", "Member", "Index", "This"))):
                subst[p["d"]] = a
            elif not modified and _simple_arg(a) and not (a0.get("k") == "Ref" and a0.get("d") in by_ref_locals):
                subst[p["d"]] = a
            else:
                nd = fresh_decl()
                ren[p["d"]] = nd
                prefix.append({"k": "Decl", "l": call.get("l"), "vars": [{"k": "Var", "n": p["n"], "d": nd, "t": p["t"], "l": call.get("l"), "init": copy.deepcopy(a)}]})
        for n in list(walk(body)):
            if n.get("k") == "Var" and n.get("d") in ren:
                n["d"] = ren[n["d"]]
            elif n.get("k") == "Ref" and n.get("dk") in ("local", "param"):
                if n.get("d") in subst:
                    replace_node(n, copy.deepcopy(subst[n["d"]]))
                elif n.get("d") in ren:
                    n["d"] = ren[n["d"]]
                    n["dk"] = "local"
        stmts = stmts_of(body)
        value = None
        if rets:
            last = stmts[-1]
            stmts = stmts[:-1]
            if need_value:
                value = last["e"]
            elif last.get("e") is not None and any(featlib.is_call(x) or x.get("k") in ("Assign",) for x in walk(last["e"])):
                stmts.append(last["e"])
        self.count += 1
        self.log.append(g.full)
        # inline inside the inlined statements
        sub = self.run_list(prefix + stmts, chain + [g.full])
        return sub, value

    def run_list(self, stmts, chain):
        blk = map_stmts({"k": "Block", "s": stmts}, lambda s: self.stmt(s, chain))
        return stmts_of(blk)

    def stmt(self, s, chain):
        k = s.get("k")
        if k in ("Call", "MCall") or (k == "OpCall" and s.get("op") == "()"):
            r = self.body_of(s, chain, False)
            if r is not None:
                return [{"k": "Block", "l": s.get("l"), "s": r[0], "inlined": s.get("cfull") or s.get("callee")}]
            return [s]
        slot = None
        if k == "Decl" and len(s.get("vars", [])) == 1 and s["vars"][0].get("init") is not None:
            slot = ("vars", 0, "init")
        elif k == "Assign":
            slot = ("rhs",)
        elif k == "Return" and s.get("e") is not None:
            slot = ("e",)
        if slot is None:
            return [s]
        x = s
        for key in slot:
            x = x[key]
        call = unwrap(x)
        if call is None or call.get("k") not in ("Call", "MCall"):
            return [s]
        r = self.body_of(call, chain, True)
        if r is None:
            return [s]
        s2 = copy.deepcopy(s)
        x = s2
        for key in slot:
            x = x[key]
        c2 = unwrap(x)
        replace_node(c2, r[1])
        return r[0] + [s2]


def inline_calls(facts, body, want, max_depth=3):
    inl = Inliner(facts, want, max_depth)
    new = map_stmts(body, lambda s: inl.stmt(s, []))
    return new, inl.log


# -------------------------------------------------------------------------------------------------
# std algorithms -> loops
# -------------------------------------------------------------------------------------------------

def _mk_ref(name, d, t=None, dk="local"):
    return {"k": "Ref", "n": name, "d": d, "dk": dk, "t": t}


def _mk_for(ivar_d, ivar_t, bound, body_stmts, line):
    return {"k": "For", "l": line, "norm": True,
            "init": {"k": "Decl", "l": line, "vars": [{"k": "Var", "n": "__i", "d": ivar_d, "t": ivar_t, "l": line, "init": {"k": "Int", "v": "0", "l": line}}]},
            "c": {"k": "Bin", "op": "<", "l": line, "lhs": _mk_ref("__i", ivar_d, ivar_t), "rhs": bound},
            "inc": {"k": "Un", "op": "++", "l": line, "e": _mk_ref("__i", ivar_d, ivar_t)},
            "body": {"k": "Block", "l": line, "s": body_stmts}}


def _plus(a, b, line=None):
    if is_zero(b):
        return a
    if is_zero(a):
        return b
    return {"k": "Bin", "op": "+", "lhs": a, "rhs": b, "l": line, "t": a.get("t")}


def _container_iter(n):
    """X.begin() / std::begin(X) / X.cbegin() / X.data() -> ('begin', X);  X.end() / std::end(X) -> ('end', X)"""
    n = unwrap(n)
    if n is None:
        return None
    if n.get("k") == "MCall" and not n.get("a") and n.get("n") in ("begin", "cbegin", "data", "end", "cend"):
        return ("end" if n["n"] in ("end", "cend") else "begin", n.get("obj"), n["n"])
    if n.get("k") == "Call" and n.get("callee") in ("std::begin", "std::cbegin", "std::end", "std::cend") and len(n.get("a", [])) == 1:
        return ("end" if n["callee"] in ("std::end", "std::cend") else "begin", n["a"][0], n["callee"])
    return None


def _elem_of(ptr, i, line, store=False):
    """expression for element i of the sequence that starts at `ptr` -> node, or None"""
    it = _container_iter(ptr)
    if it is not None and it[0] == "begin":
        return {"k": "OpCall", "op": "[]", "a": [copy.deepcopy(it[1]), i], "l": line, "callee": "operator[]", "norm": True}
    p = strip_cast(ptr)
    if p is None:
        return None
    if p.get("k") == "Un" and p.get("op") == "&" and not p.get("post"):
        e = strip_cast(p["e"])
        if e.get("k") == "Index":
            return {"k": "Index", "b": copy.deepcopy(e["b"]), "idx": _plus(i, copy.deepcopy(e["idx"]), line), "l": line, "t": e.get("t")}
        if e.get("k") == "OpCall" and e.get("op") == "[]" and len(e.get("a", [])) == 2:
            e2 = copy.deepcopy(e)
            e2["a"][1] = _plus(i, e2["a"][1], line)
            return e2
        return None
    if p.get("k") == "Bin" and p.get("op") == "+":
        l, r = p["lhs"], p["rhs"]
        base = _elem_of(l, _plus(i, copy.deepcopy(r), line), line)
        if base is not None:
            return base
    if p.get("k") in ("Ref", "Member", "MCall"):
        return {"k": "Index", "b": copy.deepcopy(ptr), "idx": i, "l": line}
    return None


def _range_count(first, last, ctx):
    """number of elements of [first, last) -> node or None"""
    a, b = _container_iter(first), _container_iter(last)
    if a is not None and b is not None and a[0] == "begin" and b[0] == "end" and render(a[1]) == render(b[1]):
        return {"k": "MCall", "n": "size", "callee": "size", "obj": copy.deepcopy(a[1]), "a": [], "cconst": True, "l": first.get("l"), "norm": True}
    lb = ctx.resolve(last) if ctx is not None else strip_cast(last)
    if lb is not None and lb.get("k") == "Bin" and lb.get("op") == "+":
        fa = ctx.resolve(first) if ctx is not None else strip_cast(first)
        if render(strip_cast(lb["lhs"])) == render(strip_cast(first)) or render(ctx.resolve(lb["lhs"]) if ctx else lb["lhs"]) == render(fa):
            return copy.deepcopy(lb["rhs"])
    return None


def expand_algorithms(body):
    ctx = Ctx(body)

    def f(s):
        if s.get("k") != "Call":
            return [s]
        cal = s.get("callee") or ""
        a = s.get("a", [])
        line = s.get("l")
        iv = fresh_decl()
        i = _mk_ref("__i", iv)
        if cal in ("std::copy", "std::copy_n") and len(a) == 3:
            if cal == "std::copy":
                n = _range_count(a[0], a[1], ctx)
                dst = a[2]
            else:
                n = copy.deepcopy(a[1])
                dst = a[2]
            if n is None:
                return [s]
            src_e = _elem_of(a[0], copy.deepcopy(i), line)
            d0 = unwrap(dst)
            if d0 is not None and d0.get("k") == "Call" and d0.get("callee") == "std::back_inserter" and len(d0.get("a", [])) == 1 and src_e is not None:
                st = {"k": "MCall", "n": "push_back", "callee": "push_back", "obj": copy.deepcopy(d0["a"][0]), "a": [src_e], "l": line, "norm": True}
                return [_mk_for(iv, n.get("t"), n, [st], line)]
            dst_e = _elem_of(dst, copy.deepcopy(i), line, store=True)
            if src_e is None or dst_e is None:
                return [s]
            return [_mk_for(iv, n.get("t"), n, [{"k": "Assign", "op": "=", "lhs": dst_e, "rhs": src_e, "l": line}], line)]
        if cal in ("std::fill", "std::fill_n") and len(a) == 3:
            if cal == "std::fill":
                n = _range_count(a[0], a[1], ctx)
                val = a[2]
            else:
                n = copy.deepcopy(a[1])
                val = a[2]
            if n is None:
                return [s]
            dst_e = _elem_of(a[0], copy.deepcopy(i), line, store=True)
            if dst_e is None:
                return [s]
            return [_mk_for(iv, n.get("t"), n, [{"k": "Assign", "op": "=", "lhs": dst_e, "rhs": copy.deepcopy(val), "l": line}], line)]
        return [s]
    return map_stmts(body, f)


# -------------------------------------------------------------------------------------------------
# canonical loops
# -------------------------------------------------------------------------------------------------

def _comma_list(n):
    n = strip_cast(n)
    if n is None:
        return []
    if n.get("k") == "Bin" and n.get("op") == ",":
        return _comma_list(n["lhs"]) + _comma_list(n["rhs"])
    return [n]


def _advance_of(n):
    """++x / x++ / x += 1 / x = x + 1 -> decl id of x, else None"""
    n = strip_cast(n)
    if n is None:
        return None
    if n.get("k") == "Un" and n.get("op") == "++":
        e = strip_cast(n["e"])
        if e.get("k") == "Ref" and e.get("dk") in ("local", "param"):
            return e["d"]
    if n.get("k") == "Assign" and n.get("op") == "+=" and is_one(n["rhs"]):
        e = strip_cast(n["lhs"])
        if e.get("k") == "Ref" and e.get("dk") in ("local", "param"):
            return e["d"]
    if n.get("k") == "Assign" and n.get("op") == "=":
        e, r = strip_cast(n["lhs"]), unwrap(n["rhs"])
        if e.get("k") == "Ref" and r is not None and r.get("k") == "Bin" and r.get("op") == "+":
            for x, y in ((r["lhs"], r["rhs"]), (r["rhs"], r["lhs"])):
                if strip_cast(x).get("k") == "Ref" and strip_cast(x).get("d") == e["d"] and is_one(y):
                    return e["d"]
    return None


def _is_pointer(t):
    return (t or "").rstrip().endswith("*")


def is_canonical_for(s):
    if s.get("k") != "For":
        return False
    ini, cond, inc = s.get("init"), strip_cast(s.get("c")), strip_cast(s.get("inc"))
    if ini is None or ini.get("k") != "Decl" or len(ini["vars"]) != 1 or not is_zero(ini["vars"][0].get("init")):
        return False
    d = ini["vars"][0]["d"]
    if not (cond is not None and cond.get("k") == "Bin" and cond.get("op") == "<" and strip_cast(cond["lhs"]).get("k") == "Ref" and strip_cast(cond["lhs"]).get("d") == d):
        return False
    if not (inc is not None and inc.get("k") == "Un" and inc.get("op") == "++" and not inc.get("post") and strip_cast(inc["e"]).get("d") == d):
        return False
    return True


def canonical_loop(s, ctx, typeof):
    """s: For / While node of the tree ctx was built for -> list of statements (canonical for + cursor fix-ups) or raises NotRecognised"""
    k = s.get("k")
    if k not in ("For", "While"):
        raise NotRecognised("not a for/while loop")
    body = stmts_of(s.get("body"))
    line = s.get("l")
    incs = _comma_list(s.get("inc")) if k == "For" else []
    # advances at the end of the body belong to the increment
    body = list(body)
    tail = []
    while body and _advance_of(body[-1]) is not None:
        tail.insert(0, body.pop())
    incs = tail + incs
    if not incs:
        raise NotRecognised("no induction step")
    adv = []
    for x in incs:
        d = _advance_of(x)
        if d is None or d in adv:
            raise NotRecognised("increment '%s' is not a unit advance of one variable" % render(x))
        adv.append(d)
    # the cursors are not touched elsewhere in the body / condition
    for b in body:
        for n in walk(b):
            t = None
            if n.get("k") == "Assign":
                t = strip_cast(n["lhs"])
            elif n.get("k") == "Un" and n.get("op") in ("++", "--", "&"):
                t = strip_cast(n["e"])
            if t is not None and t.get("k") == "Ref" and t.get("d") in adv:
                raise NotRecognised("cursor '%s' is modified inside the loop body" % t.get("n"))
            if n.get("k") in ("Continue",):
                # with the advance at the end of the body a `continue` would skip it
                if tail:
                    raise NotRecognised("continue in a loop that advances at the end of its body")
            if n.get("k") == "Lambda":
                raise NotRecognised("lambda in loop body")
    # declarations of the for-init
    init_vars = {}
    pre = []
    ini = s.get("init") if k == "For" else None
    if ini is not None:
        if ini.get("k") == "Decl":
            for v in ini["vars"]:
                init_vars[v["d"]] = v
        elif ini.get("k") == "Assign" and ini.get("op") == "=" and strip_cast(ini["lhs"]).get("k") == "Ref":
            pre.append(ini)
        else:
            raise NotRecognised("for-init '%s'" % render(ini))
    cond = strip_cast(s.get("c"))
    if cond is None or cond.get("k") != "Bin" or cond.get("op") not in ("<", "!=", ">"):
        raise NotRecognised("loop condition '%s'" % render(cond))
    lhs, rhs = cond["lhs"], cond["rhs"]
    if cond["op"] == ">":
        lhs, rhs = rhs, lhs
    cv = strip_cast(lhs)
    if not (cv.get("k") == "Ref" and cv.get("d") in adv):
        if cond["op"] == "!=" and strip_cast(rhs).get("k") == "Ref" and strip_cast(rhs).get("d") in adv:
            lhs, rhs = rhs, lhs
            cv = strip_cast(lhs)
        else:
            raise NotRecognised("loop condition '%s' does not test an advancing variable" % render(cond))
    ctrl = cv["d"]
    # the bound must be loop invariant
    for x in walk(rhs):
        if x.get("k") == "Ref" and x.get("dk") in ("local", "param") and (x.get("d") in adv or any(ctx.inside(m, s) for m in ctx.mods.get(x.get("d"), []))):
            raise NotRecognised("bound '%s' is not loop invariant" % render(rhs))

    def start_of(d):
        """-> (expression the cursor starts from, declared inside the for-init?)"""
        if d in init_vars:
            if init_vars[d].get("init") is None:
                raise NotRecognised("cursor without initialiser")
            return init_vars[d]["init"], True
        for p_ in pre:
            if strip_cast(p_["lhs"]).get("d") == d:
                return p_["rhs"], False
        return None, False

    ctrl_type = typeof(cv) or ""
    ctrl_start, ctrl_inside = start_of(ctrl)
    if _is_pointer(ctrl_type) or "iterator" in ctrl_type:
        # pointer induction: bound = start + N
        e = ctx.resolve(rhs)
        if e is None or e.get("k") != "Bin" or e.get("op") != "+":
            raise NotRecognised("end pointer '%s' is not <start> + <count>" % render(rhs))

        def same_start(x):
            x0 = strip_cast(x)
            if x0.get("k") == "Ref" and x0.get("d") == ctrl and not ctrl_inside:
                # the end pointer was computed from the cursor itself: it must still have that value when the loop is entered
                rr = strip_cast(rhs)
                site = s
                if rr.get("k") == "Ref" and rr.get("dk") == "local" and rr["d"] in ctx.decl:
                    site = ctx.decl[rr["d"]]
                for m in ctx.mods.get(ctrl, []):
                    if ctx.inside(m, s):
                        continue
                    if ctx.may_precede(m, s) and not ctx.may_precede(m, site):
                        return False
                return ctrl_start is None
            if ctrl_start is not None:
                return render(ctx.resolve(x)) == render(ctx.resolve(ctrl_start))
            return False
        if same_start(e["lhs"]):
            trip = e["rhs"]
        elif same_start(e["rhs"]):
            trip = e["lhs"]
        else:
            raise NotRecognised("end pointer '%s' is not built from the start of the cursor" % render(e))
        trip = copy.deepcopy(trip)
    else:
        if ctrl_start is None:
            # declared before the loop: `Index i(0); while(i < n) {...; ++i;}`
            v = ctx.decl.get(ctrl)
            if v is None or not is_zero(v.get("init")):
                raise NotRecognised("start of '%s' unknown" % cv.get("n"))
            for m in ctx.mods.get(ctrl, []):
                if not ctx.inside(m, s) and ctx.may_precede(m, s):
                    raise NotRecognised("'%s' may be modified before the loop" % cv.get("n"))
        elif not is_zero(ctrl_start):
            raise NotRecognised("loop does not start at 0")
        trip = copy.deepcopy(rhs)
    # ---- rewrite
    iv = fresh_decl()
    it = trip.get("t")
    reuse = None
    if ctrl in init_vars and not _is_pointer(ctrl_type) and "iterator" not in ctrl_type:
        iv, it, reuse = ctrl, init_vars[ctrl].get("t"), init_vars[ctrl]
    iname = reuse["n"] if reuse else "__i"

    def iref():
        return _mk_ref(iname, iv, it)
    base = {}
    post = []
    for d in adv:
        if d == iv:
            continue
        st, inside = start_of(d)
        v = init_vars.get(d) or ctx.decl.get(d)
        vt = typeof({"t": v.get("t")}) if v is not None else ""
        name = v["n"] if v is not None else "?"
        if st is not None and inside:
            base[d] = ("expr", st)
        elif d == ctrl and not (_is_pointer(vt) or "iterator" in (vt or "")):
            # index variable declared before the loop, known to be 0 when the loop is entered
            base[d] = ("expr", {"k": "Int", "v": "0", "l": line})
            if ctx.used_after(d, s):
                post.append({"k": "Assign", "op": "+=", "l": line, "lhs": _mk_ref(name, d, v.get("t") if v else None), "rhs": copy.deepcopy(trip), "norm": True})
        else:
            base[d] = ("self", _mk_ref(name, d, v.get("t") if v else None, "local" if d in ctx.decl or d in init_vars else "param"))
            if ctx.used_after(d, s):
                post.append({"k": "Assign", "op": "+=", "l": line, "lhs": copy.deepcopy(base[d][1]), "rhs": copy.deepcopy(trip), "norm": True})
        base[d] = base[d] + (_is_pointer(vt) or "iterator" in (vt or ""),)
    new_body = copy.deepcopy(body)

    def rewrite(n):
        """replace uses of the cursors below n (in place on the copy)"""
        for key in list(n.keys()):
            v = n[key]
            if isinstance(v, dict) and "k" in v:
                n[key] = rw(v)
            elif isinstance(v, list):
                n[key] = [rw(x) if isinstance(x, dict) and "k" in x else x for x in v]
        return n

    def elem(d, off, line_):
        kind, b, isptr = base[d]
        idx = iref() if off is None else _plus(iref(), off, line_)
        e = _elem_of(copy.deepcopy(b), idx, line_)
        if e is None:
            raise NotRecognised("cursor base '%s'" % render(b))
        return e

    def rw(n):
        k_ = n.get("k")
        if k_ == "Un" and n.get("op") == "*" and not n.get("post"):
            e = strip_cast(n["e"])
            if e.get("k") == "Ref" and e.get("d") in base and base[e["d"]][2]:
                return elem(e["d"], None, n.get("l"))
        if k_ == "Index":
            b = strip_cast(n["b"])
            if b.get("k") == "Ref" and b.get("d") in base and base[b["d"]][2]:
                return elem(b["d"], rw(copy.deepcopy(n["idx"])), n.get("l"))
        if k_ == "Ref" and n.get("d") in base:
            kind, b, isptr = base[n["d"]]
            return _plus(copy.deepcopy(b), iref(), n.get("l"))
        return rewrite(n)
    new_body = [rw(b) for b in new_body]
    if post:
        # leaving the loop early would leave the cursors somewhere else than start + N
        own_break = any(x.get("k") == "Break" for b in body for x in walk(b, prune=lambda y: y.get("k") in LOOPS or y.get("k") == "Switch"))
        if own_break or any(x.get("k") in ("Return", "Throw") for b in body for x in walk(b)):
            raise NotRecognised("loop may be left early while cursors declared outside are used afterwards")
    loop = _mk_for(iv, it, trip, new_body, line)
    if reuse is not None:
        loop["init"]["vars"][0]["n"] = reuse["n"]
    loop["orig"] = k
    # declarations of the for-init that are not cursors stay in front (e.g. a hoisted end pointer)
    keep = [v for d, v in init_vars.items() if d not in adv]
    out = []
    if keep:
        out.append({"k": "Decl", "l": line, "vars": keep})
    out.extend(pre)
    out.append(loop)
    out.extend(post)
    return out


def canonical_loops(body, typeof, log=None):
    ctx = Ctx(body)

    # positions in ctx refer to the original nodes: loops are rewritten bottom-up, inner loops first; an outer loop whose
    # body changed is a copy whose positions are unknown -> it is looked up through the original it was copied from
    orig = {}

    def g(s):
        o = orig.get(id(s), s)
        if s.get("k") not in ("For", "While") or is_canonical_for(s):
            return [s]
        if id(o) not in ctx.pos:
            return [s]
        try:
            s_eff = s
            if s is not o:
                # body was rebuilt: positions of the loop node itself are those of the original
                ctx.pos[id(s)] = ctx.pos[id(o)]
                ctx.end[id(s)] = ctx.end[id(o)]
                if id(o) in ctx.par:
                    ctx.par[id(s)] = ctx.par[id(o)]
            return canonical_loop(s_eff, ctx, typeof)
        except NotRecognised as e:
            if log is not None:
                log.append("loop at line %s: %s" % (s.get("l"), e))
            return [s]

    # wrap map_stmts so that copies remember their originals
    def _map(s):
        k = s.get("k")
        before = s
        if k == "Block":
            new = []
            for x in s.get("s", []):
                new.extend(_map(x))
            if len(new) != len(s.get("s", [])) or any(a is not b for a, b in zip(new, s.get("s", []))):
                s = dict(s)
                s["s"] = new
        elif k == "If":
            t = _slot(s.get("then"))
            e = _slot(s.get("else"))
            if t is not s.get("then") or e is not s.get("else"):
                s = dict(s)
                s["then"] = t
                if e is not None:
                    s["else"] = e
        elif k in LOOPS or k in ("Switch", "OMP"):
            b = _slot(s.get("body"))
            if b is not s.get("body"):
                s = dict(s)
                s["body"] = b
        elif k in ("Case", "Default"):
            sub = s.get("s")
            if isinstance(sub, dict):
                b = _slot(sub)
                if b is not sub:
                    s = dict(s)
                    s["s"] = b
            elif isinstance(sub, list):
                new = []
                for x in sub:
                    new.extend(_map(x))
                if len(new) != len(sub) or any(a is not b for a, b in zip(new, sub)):
                    s = dict(s)
                    s["s"] = new
        if s is not before:
            orig[id(s)] = orig.get(id(before), before)
        return g(s)

    def _slot(x):
        if x is None:
            return None
        out = _map(x)
        if len(out) == 1:
            return out[0]
        return {"k": "Block", "s": out, "l": x.get("l")}
    out = _map(body)
    if len(out) == 1 and out[0].get("k") == "Block":
        return out[0]
    return {"k": "Block", "s": out, "l": body.get("l")}


# -------------------------------------------------------------------------------------------------
# normalised functions
# -------------------------------------------------------------------------------------------------

class NormFunction(featlib.Function):
    """a Function whose body was normalised; node ids / the CFG of the original do not apply to rewritten statements"""

    def __init__(self, fn, body, log):
        d = dict(fn.d)
        d["body"] = body
        d.pop("cfg", None)
        featlib.Function.__init__(self, fn.facts, d)
        self.original = fn
        self.norm_log = log

    @property
    def cfg(self):
        return None


def normalized(facts, fn, inline=None, algorithms=True, loops=True, max_depth=3):
    """-> fn itself if nothing applies, else a NormFunction.  inline: predicate want(call, callee) or None"""
    key = ("_norm", id(fn), id(inline) if inline is not None else 0, algorithms, loops)
    cache = facts.__dict__.setdefault("_norm_cache", {})
    if key in cache:
        return cache[key]
    body = fn.body
    log = []
    if body is None:
        cache[key] = fn
        return fn
    new = body
    if inline is not None:
        new, inl = inline_calls(facts, new, inline, max_depth)
        log.extend("inlined %s" % x for x in inl)
    if algorithms:
        new = expand_algorithms(new)
    if loops:
        new = canonical_loops(new, lambda n: fn.type(n.get("t")), log)
    changed = new is not body and _differs(new, body)
    res = NormFunction(fn, new, log) if changed else fn
    cache[key] = res
    return res


def _differs(a, b):
    if a is b:
        return False
    if a.get("k") != b.get("k"):
        return True
    ca, cb = list(featlib.children(a)), list(featlib.children(b))
    if len(ca) != len(cb):
        return True
    return any(_differs(x, y) for x, y in zip(ca, cb))


# -------------------------------------------------------------------------------------------------
# decision tables: switch / if-chain over one enum value
# -------------------------------------------------------------------------------------------------

def _terminates(stmts):
    """does the statement list always leave the enclosing function / abort at its end?"""
    if not stmts:
        return False
    last = stmts[-1]
    k = last.get("k")
    if k in ("Return", "Throw"):
        return True
    if featlib.is_call(last) and last.get("noreturn"):
        return True
    if k == "Block":
        return _terminates(stmts_of(last))
    if k == "If" and last.get("else") is not None:
        return _terminates(stmts_of(last.get("then"))) and _terminates(stmts_of(last.get("else")))
    return False


def enum_tests(cond, is_scrutinee):
    """`x == E`, `E == x`, `a || b` of those -> set of enum qualified names (with values), else None"""
    c = strip_cast(cond)
    if c is None:
        return None
    if c.get("k") == "Bin" and c.get("op") == "||":
        a, b = enum_tests(c["lhs"], is_scrutinee), enum_tests(c["rhs"], is_scrutinee)
        if a is None or b is None:
            return None
        return a | b
    if c.get("k") in ("Bin", "OpCall") and c.get("op") == "==":
        l, r = (c["lhs"], c["rhs"]) if c.get("k") == "Bin" else (c["a"][0], c["a"][1])
        for x, y in ((l, r), (r, l)):
            x0, y0 = strip_cast(x), strip_cast(y)
            if is_scrutinee(x0) and y0 is not None and y0.get("k") == "Ref" and y0.get("dk") == "enum" and y0.get("qn"):
                return {(y0["qn"], y0.get("v"))}
            if is_scrutinee(x0) and y0 is not None and y0.get("k") == "Int":
                return {(str(int(y0["v"])), y0.get("v"))}
    return None


def if_chain_groups(stmts, is_scrutinee):
    """statements of a function body (or of a block) -> [(set of labels | {'default'}, [statements])] if they form a
    dispatch `if(x == A) ... else if(x == B || x == C) ... else ...` or `if(x == A) {...; return;} if(x == B) {...; return;} rest`,
    else None.  Label values are returned in the second result: label -> int."""
    groups, values = [], {}
    i = 0
    stmts = list(stmts)
    started = False
    while i < len(stmts):
        s = stmts[i]
        if s.get("k") != "If":
            if started:
                break
            i += 1
            continue
        labs = enum_tests(s.get("c"), is_scrutinee)
        if labs is None:
            if started:
                break
            i += 1
            continue
        started = True
        cur = s
        while True:
            labs = enum_tests(cur.get("c"), is_scrutinee)
            if labs is None:
                return None
            for q, v in labs:
                values[q] = v
            groups.append((set(q for q, _ in labs), stmts_of(cur.get("then"))))
            e = cur.get("else")
            if e is None:
                break
            es = stmts_of(e)
            if len(es) == 1 and es[0].get("k") == "If" and enum_tests(es[0].get("c"), is_scrutinee) is not None:
                cur = es[0]
                continue
            groups.append(({"default"}, es))
            return groups, values
        # no else: the chain continues with the following statement only if this branch cannot fall through
        if not _terminates(groups[-1][1]):
            # plain `if(x == A) {...}` followed by something else: not a complete dispatch
            if i + 1 < len(stmts):
                return None
            return groups, values
        i += 1
    if not groups:
        return None
    rest = stmts[i:]
    if rest:
        groups.append(({"default"}, rest))
    return groups, values


# -------------------------------------------------------------------------------------------------
# guarded values
# -------------------------------------------------------------------------------------------------

def gv_leaf(text):
    return ("leaf", text)


def gv_node(cond, t, e):
    if t == e:
        return t
    return ("if", cond, t, e)


def gv_text(t):
    if t[0] == "leaf":
        return t[1]
    return "(%s ? %s : %s)" % (t[1], gv_text(t[2]), gv_text(t[3]))


def gv_map(t, f):
    if t[0] == "leaf":
        return f(t[1])
    return gv_node(t[1], gv_map(t[2], f), gv_map(t[3], f))


def gv_prune(t, decide):
    """decide(cond text) -> True / False / None"""
    if t[0] == "leaf":
        return t
    v = decide(t[1])
    if v is True:
        return gv_prune(t[2], decide)
    if v is False:
        return gv_prune(t[3], decide)
    return gv_node(t[1], gv_prune(t[2], decide), gv_prune(t[3], decide))


def gv_leaves(t):
    if t[0] == "leaf":
        return [t[1]]
    return gv_leaves(t[2]) + gv_leaves(t[3])


def _binop_text(op, a, b):
    xs = sorted([a, b]) if op in ("|", "&", "+", "*") else [a, b]
    return "(%s %s %s)" % (xs[0], op, xs[1])


class GVEval:
    """symbolic evaluation of straight-line code with if/else over a set of tracked locals.
    canon(expr, env_placeholders) must render an expression canonically with every tracked local d rendered as PH(d);
    norm_cond(cond) -> (canonical text, polarity)."""

    def __init__(self, canon, norm_cond, tracked):
        self.canon = canon
        self.norm_cond = norm_cond
        self.tracked = set(tracked)

    @staticmethod
    def ph(d):
        return "\x01%s\x02" % d

    def expr(self, e, env):
        text = self.canon(e)
        out = gv_leaf(text)
        # distribute over the trees of the tracked locals that occur
        for d in sorted(self.tracked, key=str):
            p = self.ph(d)
            if p not in text and not any(p in l for l in gv_leaves(out)):
                continue
            val = env.get(d)
            if val is None:
                raise NotRecognised("value of a tracked local used before it is defined")

            def subst(leaf, val=val, p=p):
                if p not in leaf:
                    return gv_leaf(leaf)
                return gv_map(val, lambda vtxt: gv_leaf(leaf.replace(p, vtxt)))
            out = gv_map(out, subst)
        return out

    def cond(self, c, env):
        text, pol = self.norm_cond(c)
        if "\x01" in text:
            raise NotRecognised("condition depends on a tracked local")
        return text, pol

    def run(self, stmts, env):
        """-> tree of the returned value, or None if control falls through (env updated)"""
        stmts = list(stmts)
        for idx, s in enumerate(stmts):
            k = s.get("k")
            if k == "Block":
                r = self.run(stmts_of(s), env)
                if r is not None:
                    return r
                continue
            if k == "Return":
                if s.get("e") is None:
                    raise NotRecognised("return without value")
                return self.expr(s["e"], env)
            if k == "Decl":
                for v in s["vars"]:
                    if v["d"] in self.tracked:
                        if v.get("init") is None:
                            raise NotRecognised("tracked local without initialiser")
                        env[v["d"]] = self.expr(v["init"], env)
                continue
            if k == "Assign":
                l = strip_cast(s["lhs"])
                if l.get("k") == "Ref" and l.get("d") in self.tracked:
                    if s["op"] == "=":
                        env[l["d"]] = self.expr(s["rhs"], env)
                    else:
                        op = s["op"][:-1]
                        rhs = self.expr(s["rhs"], env)
                        cur = env.get(l["d"])
                        if cur is None:
                            raise NotRecognised("compound assignment to an undefined local")
                        env[l["d"]] = gv_map(cur, lambda a: gv_map(rhs, lambda b: gv_leaf(_binop_text(op, a, b))))
                    continue
                if any(x.get("k") == "Ref" and x.get("d") in self.tracked for x in walk(s["lhs"])):
                    raise NotRecognised("store through a tracked local")
                continue
            if k == "If":
                text, pol = self.cond(s["c"], env)
                et, ee = dict(env), dict(env)
                rt = self.run(stmts_of(s.get("then")), et)
                re_ = self.run(stmts_of(s.get("else")), ee) if s.get("else") is not None else None
                if not pol:
                    et, ee, rt, re_ = ee, et, re_, rt
                if rt is None and re_ is None:
                    for d in set(et) | set(ee):
                        a, b = et.get(d), ee.get(d)
                        if a is None or b is None:
                            env.pop(d, None)
                        else:
                            env[d] = gv_node(text, a, b)
                    continue
                rest = stmts[idx + 1:]
                if rt is None:
                    rt = self.run(rest, et)
                if re_ is None:
                    re_ = self.run(rest, ee)
                if rt is None or re_ is None:
                    raise NotRecognised("a path without a return value")
                return gv_node(text, rt, re_)
            if k in LOOPS or k in ("Switch", "Try"):
                for x in walk(s):
                    t = None
                    if x.get("k") == "Assign":
                        t = strip_cast(x["lhs"])
                    elif x.get("k") == "Un" and x.get("op") in ("++", "--", "&"):
                        t = strip_cast(x["e"])
                    if t is not None and t.get("k") == "Ref" and t.get("d") in self.tracked:
                        raise NotRecognised("tracked local modified in a %s" % k)
                    if x.get("k") == "Return":
                        raise NotRecognised("return inside a %s" % k)
                continue
            # expression statements: must not modify a tracked local
            for x in walk(s):
                if x.get("k") == "Un" and x.get("op") in ("++", "--", "&") and strip_cast(x["e"]).get("d") in self.tracked:
                    raise NotRecognised("tracked local modified by '%s'" % render(x))
        return None
