"""norm_c03: semantic normalisation helpers for the sorted-merge rules of C03 (usable by other checks).

* Frame / frames_of(): *helper inlining*.  A Frame is one activation of a function; a call to a helper that is
  defined in the repository (static member / member on this / free function of kernel/lafem, non-virtual, body
  available, bounded depth, non-recursive) opens a child frame whose parameters are bound to the caller's argument
  nodes.  Frame.resolve() follows never-reassigned locals AND never-reassigned bound parameters across frames, so
  `data_x` inside `_add_scaled_row(DT_* data_x, ...)` denotes `this->val()` of the anchor function, `kj_end` denotes
  `row_ptr_b[k+1]`, a by-reference cursor parameter denotes the caller's variable (Frame.vid()).
* MergeInterp: a path interpreter over the statement trees (If / While / For / Break / Continue / Return / calls
  into helpers with their status return) that enumerates the paths of ONE generic iteration of every loop, carries
  three-valued facts (cursor inside its row, relation of the two current column indices, allow_incomplete, values
  of bool/int bookkeeping locals), prunes contradictory paths and decides the 'no silent drop' rule on every
  path.  Loop conditions with several conjuncts, refusals moved behind the loop, early return instead of break,
  for instead of while, negated guards with swapped branches, status flags and extracted helpers are all the same
  set of paths.  Anything else (do-while, switch, side effects inside conditions, cursors handed to unknown code)
  raises Unknown -> the caller reports analysis-incomplete.
"""
import re

from featlib import walk, render, is_call
from lafem_roles import Unknown, strip, Locals, perspective, strip_targs

MAX_DEPTH = 3
ACCESS_ARRAYS = ("row_ptr", "col_ind", "val", "elements")


def prog_of(facts):
    """decl id -> Function (bodies only) of one TU"""
    p = getattr(facts, "_norm_prog", None)
    if p is None:
        p = {}
        for f in facts.functions:
            if f.tk != "pattern" and f.body is not None and f.d.get("decl") is not None:
                p.setdefault(f.d["decl"], f)
        facts._norm_prog = p
    return p


def _mutable_ref(t):
    t = (t or "").strip()
    return t.endswith("&") and not t.startswith("const ") and "&&" not in t


class Frame:
    """one activation of a function; parameters bound to (argument node, caller frame)"""

    def __init__(self, fn, bind=None, parent=None, call=None):
        self.fn = fn
        self.loc = Locals(fn)
        self.bind = bind or {}
        self.parent = parent
        self.call = call
        self.uid = () if parent is None else parent.uid + (call.get("i"),)
        self.root = self if parent is None else parent.root
        self.params = {p["d"]: p for p in fn.params}
        self._children = {}
        self._loopchain = None

    # -- helper inlining ---------------------------------------------------------------------------
    def callee(self, call):
        """Function to inline for this call node, or None (opaque call)"""
        if call.get("k") not in ("Call", "MCall") or call.get("noreturn"):
            return None
        f = prog_of(self.fn.facts).get(call.get("cdecl"))
        if f is None or f.body is None or f.d.get("virtual") or len(self.uid) >= MAX_DEPTH:
            return None
        if call.get("k") == "MCall":
            if not call.get("a"):
                return None            # accessor
            o = strip(call.get("obj")) if call.get("obj") is not None else None
            if o is not None and o.get("k") != "This":
                return None
        fr = self
        while fr is not None:
            if fr.fn is f:
                return None            # recursion
            fr = fr.parent
        rootcls = strip_targs(self.root.fn.cls)
        if f.cls:
            if strip_targs(f.cls) != rootcls:
                return None
        elif "/kernel/lafem/" not in (f.file or ""):
            return None
        if len(call.get("pn", [])) != len(call.get("a", [])) or len(f.params) != len(call.get("a", [])):
            return None
        return f

    def child(self, call):
        c = self._children.get(call.get("i"))
        if c is None:
            f = self.callee(call)
            if f is None:
                return None
            c = Frame(f, {p["d"]: (a, self) for p, a in zip(f.params, call["a"])}, self, call)
            self._children[call.get("i")] = c
        return c

    def frames(self):
        """this frame and every frame reachable through inlinable calls"""
        yield self
        for n in self.fn.nodes():
            if n.get("k") in ("Call", "MCall") and self.callee(n) is not None:
                yield from self.child(n).frames()

    # -- values --------------------------------------------------------------------------------------
    def resolve(self, n, via=None):
        """strip wrappers; replace single-assignment locals by their initialiser and never-written bound parameters
        by the caller's argument -> (node, frame of that node).  `via` collects the (frame uid, decl) passed through."""
        fr = self
        n = strip(n)
        depth = 0
        while n is not None and n.get("k") == "Ref" and depth < 24:
            d = n.get("d")
            if n.get("dk") == "local":
                v = fr.loc.var.get(d)
                if v is None or d in fr.loc.written or v.get("init") is None:
                    return n, fr
                if via is not None:
                    via.append((fr.uid, d))
                n = strip(v["init"])
            elif n.get("dk") == "param" and d in fr.bind and d not in fr.loc.written:
                if via is not None:
                    via.append((fr.uid, d))
                n, fr = fr.bind[d]
                n = strip(n)
            else:
                return n, fr
            depth += 1
        return n, fr

    def vid(self, n):
        """identity of the variable a Ref denotes (by-reference parameters / reference locals -> the aliased variable)"""
        n = strip(n)
        if n is None or n.get("k") != "Ref":
            return None
        d = n.get("d")
        if n.get("dk") == "param" and d in self.bind and d in self.params and _mutable_ref(self.fn.type(self.params[d]["t"])):
            m, fr = self.bind[d]
            return fr.vid(m)
        if n.get("dk") == "local":
            v = self.loc.var.get(d)
            if v is not None and v.get("ref") and v.get("init") is not None and strip(v["init"]).get("k") == "Ref" and _mutable_ref(self.fn.type(v.get("t"))):
                return self.vid(v["init"])
        return (self.uid, d)

    def is_var(self, n):
        """Ref to a variable that is written after its definition (a cursor / counter / flag)"""
        n = strip(n)
        if n is None or n.get("k") != "Ref" or n.get("dk") not in ("local", "param"):
            return False
        d = n.get("d")
        if d in self.loc.written:
            return True
        if n.get("dk") == "param" and d in self.bind and d in self.params and _mutable_ref(self.fn.type(self.params[d]["t"])):
            m, fr = self.bind[d]
            return fr.is_var(m)
        return False

    def objkey(self, o):
        if o is None:
            return "this" if self.parent is None else self.parent_this()
        m, fr = self.resolve(o)
        if m is None or m.get("k") == "This":
            return "this" if fr.parent is None else fr.parent_this()
        if m.get("k") == "Un" and m.get("op") == "*":
            return fr.objkey(m.get("e"))
        if m.get("k") == "Ref":
            return m["n"]
        return render(m)

    def parent_this(self):
        # helpers are only inlined when called on this / as static members: `this` of a helper is the anchor's this
        return "this"

    def accessor(self, n, via=None):
        """-> dict(obj, name, persp, node, cls) if n denotes `obj.name<persp>()` (through locals and bound parameters)"""
        m, fr = self.resolve(n, via)
        if m is not None and m.get("k") == "MCall" and not m.get("a"):
            return {"obj": fr.objkey(m.get("obj")), "name": m.get("n"), "persp": perspective(m), "node": m, "cls": m.get("ccls", "")}
        return None

    def array_index(self, n, via=None):
        """Index node (possibly behind locals / parameters) -> (accessor of the array, index node, frame of the index)"""
        m, fr = self.resolve(n, via)
        if m is not None and m.get("k") == "Index":
            a = fr.accessor(m["b"], via)
            if a is not None:
                return a, m["idx"], fr
        return None

    # -- structure -------------------------------------------------------------------------------------
    def loop_chains(self):
        """node id -> list of the loop statements of this function enclosing the node (outermost first)"""
        if self._loopchain is None:
            out = {}

            def visit(n, chain):
                if not isinstance(n, dict):
                    return
                if "i" in n:
                    out[n["i"]] = chain
                k = n.get("k")
                if k == "Lambda":
                    return
                sub = chain + [n] if k in ("For", "While", "Do", "ForRange") else chain
                from featlib import children
                for ch in children(n):
                    # the init statement of a for loop is executed once, outside the iteration
                    visit(ch, chain if (k == "For" and ch is n.get("init")) else sub)
            visit(self.fn.body, [])
            self._loopchain = out
        return self._loopchain


# =====================================================================================================
# path interpreter for the merge loops
# =====================================================================================================
AI = ("AI",)
ALLREL = frozenset("<=>")
_SWAP = {"<": ">", ">": "<", "<=": ">=", ">=": "<=", "==": "==", "!=": "!="}
_RELSET = {"<": frozenset("<"), "<=": frozenset("<="), "==": frozenset("="), "!=": frozenset("<>"), ">": frozenset(">"), ">=": frozenset(">=")}


class St:
    """facts known on the current path"""
    __slots__ = ("facts", "col", "env", "served", "nadv", "ai_iter", "pending", "stale", "ldeps", "breads", "merge")

    def __init__(self):
        self.facts = {}        # atom -> bool
        self.col = {}          # (x cursor vid, b cursor vid) -> subset of '<=>' (column of X slot rel column of B entry)
        self.env = {}          # vid -> bool / int value of a bookkeeping local
        self.served = set()    # cursors whose current entry took part in the accumulate statement
        self.nadv = 0          # advances of the B cursor in the current iteration
        self.ai_iter = False   # allow_incomplete became known to be true inside the current iteration
        self.pending = []      # exits of the merge loop not yet judged (judged at the end of the enclosing iteration)
        self.stale = set()     # single-assignment locals whose initialiser read a cursor that moved since
        self.ldeps = {}        # local vid -> variables its initialiser depends on
        self.breads = {}       # local vid -> B cursors at which its value read b.val()
        self.merge = 0         # nesting depth of merge-loop iterations being executed

    def copy(self):
        s = St()
        s.facts = dict(self.facts)
        s.col = dict(self.col)
        s.env = dict(self.env)
        s.served = set(self.served)
        s.nadv = self.nadv
        s.ai_iter = self.ai_iter
        s.pending = list(self.pending)
        s.stale = set(self.stale)
        s.ldeps = dict(self.ldeps)
        s.breads = dict(self.breads)
        s.merge = self.merge
        return s

    def invalidate(self, v):
        """variable v received a new value"""
        for a in [a for a in self.facts if len(a) > 1 and a[1] == v]:
            del self.facts[a]
        for k in [k for k in self.col if v in k]:
            del self.col[k]
        self.served.discard(v)
        self.env.pop(v, None)
        for l, deps in self.ldeps.items():
            if v in deps:
                self.stale.add(l)


class MergeInterp:
    def __init__(self, fn, bobj="b", ai_name="allow_incomplete"):
        self.fn = fn
        self.root = Frame(fn)
        self.bobj = bobj
        self.ai_name = ai_name
        self.problems = set()
        self.unmodelled = set()
        self.n_adv = set()
        self.budget = 200000
        self.scan()

    # -- static discovery -------------------------------------------------------------------------------
    def writes_x(self, n, fr):
        """statement node that modifies this->val()[cursor] -> the Index node of the target"""
        tgt = None
        k = n.get("k")
        if k == "Assign":
            tgt = n["lhs"]
        elif k == "OpCall" and n.get("op") in ("+=", "-=", "=", "*=", "/=") and n.get("a"):
            tgt = n["a"][0]
        elif k == "Call" and n.get("a"):
            pt = n.get("pt", [])
            if pt and _mutable_ref(fr.fn.type(pt[0])):
                tgt = n["a"][0]
        elif k == "MCall" and n.get("obj") is not None and not n.get("cconst") and n.get("a"):
            tgt = n["obj"]
        if tgt is None:
            return None
        t = strip(tgt)
        if t.get("k") == "Index":
            a = fr.accessor(t["b"])
            if a and a["obj"] == "this" and a["name"] == "val":
                return t
        return None

    def scan(self):
        accs = []
        xc, bc = set(), set()
        self.frames = list(self.root.frames())
        for fr in self.frames:
            for n in fr.fn.nodes():
                k = n.get("k")
                if k in ("Assign", "OpCall", "Call", "MCall"):
                    t = self.writes_x(n, fr)
                    if t is not None:
                        accs.append((fr, n, t))
                if k == "Index":
                    a = fr.accessor(n["b"])
                    ix = strip(n["idx"])
                    if a and a["name"] in ("val", "col_ind") and fr.is_var(ix):
                        if a["obj"] == "this":
                            xc.add(fr.vid(ix))
                        elif a["obj"] == self.bobj:
                            bc.add(fr.vid(ix))
                if k in ("Do", "Switch", "ForRange", "Try", "Goto", "Label") and fr is not self.root:
                    raise Unknown("%s statement in helper %s (line %s)" % (k, fr.fn.name, n.get("l")))
        if len(accs) != 1:
            raise Unknown("%d statements write this->val()[.] in %s and the helpers it calls, expected the accumulate statement of the merge loop" % (len(accs), self.fn.name))
        self.acc_fr, self.acc, tgt = accs[0]
        ix = strip(tgt["idx"])
        if not self.acc_fr.is_var(ix):
            raise Unknown("the accumulate statement (line %s) does not address this->val() by a cursor variable" % self.acc.get("l"))
        self.xcur = self.acc_fr.vid(ix)
        self.xname = ix.get("n")
        if len(bc) != 1:
            raise Unknown("%d cursor variables subscript %s.val()/col_ind(), expected the B cursor" % (len(bc), self.bobj))
        self.bcur = list(bc)[0]
        if xc != {self.xcur}:
            raise Unknown("this->val()/col_ind() are subscripted by %d cursor variables" % len(xc))
        self.bname = "?"
        for fr in self.frames:
            for n in fr.fn.nodes():
                if n.get("k") == "Ref" and fr.is_var(n) and fr.vid(n) == self.bcur:
                    self.bname = n.get("n")
        # the merge loop: innermost loop around the accumulate statement (through call sites if it sits in a helper)
        fr, nid = self.acc_fr, self.acc.get("i")
        self.merge_loop = None
        while fr is not None:
            chain = fr.loop_chains().get(nid, [])
            if chain:
                self.merge_loop = (fr.uid, chain[-1].get("i"))
                self.merge_node, self.merge_fr = chain[-1], fr
                break
            if fr.parent is None:
                break
            nid = fr.call.get("i")
            fr = fr.parent
        if self.merge_loop is None:
            raise Unknown("the accumulate statement (line %s) is not inside a loop" % self.acc.get("l"))
        if self.merge_node.get("k") not in ("While", "For"):
            raise Unknown("the merge loop (line %s) is a %s statement" % (self.merge_node.get("l"), self.merge_node.get("k")))

    # -- facts -------------------------------------------------------------------------------------------
    def in_region(self, st):
        return st.merge > 0 or bool(st.pending)

    def note(self, st, text):
        if self.in_region(st):
            self.unmodelled.add(text)

    def problem(self, text):
        self.problems.add(text)

    def is_ai(self, n, fr):
        m, f2 = fr.resolve(n)
        return m is not None and m.get("k") == "Ref" and m.get("dk") == "param" and f2.parent is None and m.get("n") == self.ai_name

    def classify(self, n, fr, st):
        """relational leaf -> ('inrow', atom, implied-if-true, implied-if-false) | ('col', key, set-if-true, set-if-false) | None"""
        op = n.get("op")
        if n.get("k") != "Bin" or op not in _SWAP:
            return None
        via = []
        sides = []
        for s in (n["lhs"], n["rhs"]):
            s0 = strip(s)
            if fr.is_var(s0):
                sides.append(("var", fr.vid(s0), None))
                continue
            ai = fr.array_index(s, via)
            if ai is not None:
                a, idx, f2 = ai
                sides.append(("arr", a, (idx, f2)))
                continue
            sides.append((None, None, None))
        if any(v in st.stale for v in via):
            return None
        (k0, v0, x0), (k1, v1, x1) = sides
        if k0 == "arr" and k1 == "var":
            (k0, v0, x0), (k1, v1, x1) = (k1, v1, x1), (k0, v0, x0)
            op = _SWAP[op]
        if k0 == "var" and k1 == "arr" and v1["name"] == "row_ptr":
            atom = ("inrow", v0, v1["obj"])
            imp = {"<": (True, False), ">=": (False, True), "!=": (True, False), "==": (False, True), ">": (False, None), "<=": (None, False)}[op]
            return ("inrow", atom, imp[0], imp[1])
        if k0 == "arr" and k1 == "arr" and v0["name"] == "col_ind" and v1["name"] == "col_ind":
            (i0, f0), (i1, f1) = x0, x1
            if not (f0.is_var(i0) and f1.is_var(i1)):
                return None
            c0, c1 = (v0["obj"], f0.vid(i0)), (v1["obj"], f1.vid(i1))
            if c0[0] != "this":
                c0, c1 = c1, c0
                op = _SWAP[op]
            if c0[0] != "this" or c1[0] != self.bobj:
                return None
            t = _RELSET[op]
            return ("col", (c0[1], c1[1]), t, ALLREL - t)
        return None

    def side_effect_free(self, n):
        for y in walk(n):
            if y.get("k") == "Assign" or (y.get("k") == "Un" and y.get("op") in ("++", "--")) or y.get("k") == "Lambda":
                return False
            if y.get("k") == "OpCall" and y.get("op") in ("=", "+=", "-=", "*=", "/=", "++", "--"):
                return False
        return True

    def deref_check(self, n, fr, st):
        """every dereference of a cursor in n happens with the cursor known to be inside its row"""
        if st.merge <= 0:
            return
        for y in walk(n):
            if y.get("k") != "Index":
                continue
            ix = strip(y["idx"])
            if not fr.is_var(ix):
                continue
            v = fr.vid(ix)
            a = fr.accessor(y["b"])
            if not a or a["name"] not in ("val", "col_ind"):
                continue
            if v == self.xcur and a["obj"] == "this" and st.facts.get(("inrow", v, "this")) is not True:
                self.problem("line %s: %s dereferences the X cursor without a check against row_ptr(this)[i+1] on this path (runs into the next row of X)" % (y.get("l"), render(y)))
            if v == self.bcur and a["obj"] == self.bobj and st.facts.get(("inrow", v, self.bobj)) is not True:
                self.problem("line %s: %s dereferences the B cursor without a check against the end of its row of %s on this path (entries of the next row of %s would be merged)" % (y.get("l"), render(y), self.bobj, self.bobj))

    def assume_ai(self, st, val):
        st.facts[AI] = val
        if val and st.merge > 0:
            st.ai_iter = True

    def eval_cond(self, n, fr, st):
        """-> [(bool, St)]: the truth values the condition can take on this path, each with the facts it implies"""
        self.budget -= 1
        if self.budget < 0:
            raise Unknown("path enumeration exceeds its budget")
        n = strip(n)
        k = n.get("k")
        if k == "Bool":
            return [(bool(n["v"]), st)]
        if k == "Int":
            return [(int(n["v"]) != 0, st)]
        if k == "Un" and n.get("op") == "!":
            return [(not v, s) for v, s in self.eval_cond(n["e"], fr, st)]
        if k == "Bin" and n.get("op") in ("&&", "||"):
            out = []
            for v, s in self.eval_cond(n["lhs"], fr, st):
                if v == (n["op"] == "||"):
                    out.append((v, s))
                else:
                    out.extend(self.eval_cond(n["rhs"], fr, s))
            return out
        if k == "Cond":
            out = []
            for v, s in self.eval_cond(n["c"], fr, st):
                out.extend(self.eval_cond(n["then"] if v else n["else"], fr, s))
            return out
        if k == "Bin" and n.get("op") in ("==", "!="):
            for a, b in ((n["lhs"], n["rhs"]), (n["rhs"], n["lhs"])):
                b0 = strip(b)
                if b0.get("k") == "Bool":
                    want = bool(b0["v"]) == (n["op"] == "==")
                    return [(v == want, s) for v, s in self.eval_cond(a, fr, st)]
                a0 = strip(a)
                if b0.get("k") == "Int" and a0.get("k") == "Ref" and fr.vid(a0) in st.env:
                    return [((st.env[fr.vid(a0)] == int(b0["v"])) == (n["op"] == "=="), st)]
        if k == "Ref":
            v = fr.vid(n)
            if v in st.env:
                return [(bool(st.env[v]), st)]
            if self.is_ai(n, fr):
                cur = st.facts.get(AI)
                if cur is not None:
                    return [(cur, st)]
                out = []
                for val in (True, False):
                    s = st.copy()
                    self.assume_ai(s, val)
                    out.append((val, s))
                return out
            via = []
            m, f2 = fr.resolve(n, via)
            if m is not n and not any(x in st.stale for x in via):
                return self.eval_cond(m, f2, st)
        if k in ("Call", "MCall") and fr.callee(n) is not None:
            out = []
            for o, s in self.call(n, fr, st):
                if o[0] == "return" and o[1] is not None:
                    out.append((o[1], s))
                elif o[0] != "abort":
                    raise Unknown("helper `%s` used as a condition returns no boolean the rule can follow (line %s)" % (fr.callee(n).name, n.get("l")))
            return out
        if not self.side_effect_free(n):
            raise Unknown("condition `%s` has side effects (line %s)" % (render(n)[:60], n.get("l")))
        if any(y.get("k") in ("Call", "MCall") and fr.callee(y) is not None for y in walk(n)):
            raise Unknown("helper call nested in the condition `%s` (line %s)" % (render(n)[:60], n.get("l")))
        self.deref_check(n, fr, st)
        c = self.classify(n, fr, st)
        out = []
        if c is None:
            self.note(st, "condition `%s` (line %s)" % (render(n)[:50], n.get("l")))
            return [(True, st.copy()), (False, st.copy())]
        if c[0] == "inrow":
            _, atom, it, if_ = c
            cur = st.facts.get(atom)
            for val, imp in ((True, it), (False, if_)):
                if imp is not None and cur is not None and imp != cur:
                    continue
                s = st.copy()
                if imp is not None:
                    s.facts[atom] = imp
                out.append((val, s))
            return out
        _, key, tt, ff = c
        cur = st.col.get(key, ALLREL)
        for val, rs in ((True, tt), (False, ff)):
            r2 = cur & rs
            if not r2:
                continue
            s = st.copy()
            s.col[key] = r2
            out.append((val, s))
        return out

    # -- statements ----------------------------------------------------------------------------------------
    def call(self, n, fr, st):
        """execute an inlinable helper -> [(('return', value)|('abort',), St)]"""
        ch = fr.child(n)
        st = st.copy()
        for p, a in zip(ch.fn.params, n["a"]):
            pv = (ch.uid, p["d"])
            self.deref_check(a, fr, st)
            st.invalidate(pv)
            st.ldeps[pv] = self.deps_of(a, fr, st)
            st.stale.discard(pv)
            st.breads[pv] = self.b_reads(a, fr, st)
            a0 = strip(a)
            if a0.get("k") == "Bool":
                st.env[pv] = bool(a0["v"])
        out = []
        for o, s in self.exec(ch.fn.body, ch, st):
            if o[0] == "return":
                out.append((o, s))
            elif o[0] == "abort":
                out.append((o, s))
            elif o[0] == "normal":
                out.append((("return", None), s))
            else:
                raise Unknown("%s escapes helper %s" % (o[0], ch.fn.name))
        return out

    def deps_of(self, n, fr, st):
        out = set()
        for y in walk(n):
            if y.get("k") == "Ref" and y.get("dk") in ("local", "param"):
                if fr.is_var(y):
                    out.add(fr.vid(y))
                out |= st.ldeps.get((fr.uid, y.get("d")), set())
        return out

    def b_reads(self, n, fr, st):
        """B cursors at which the value of expression n reads b.val()"""
        out = set()
        for y in walk(n):
            if y.get("k") == "Index":
                a = fr.accessor(y["b"])
                if a and a["obj"] == self.bobj and a["name"] == "val":
                    ix = strip(y["idx"])
                    out.add(fr.vid(ix) if fr.is_var(ix) else ("?", render(ix)))
            if y.get("k") == "Ref" and y.get("dk") in ("local", "param"):
                out |= st.breads.get((fr.uid, y.get("d")), set())
        return out

    def by_one(self, n, fr):
        if n.get("k") == "Un":
            return n.get("op") == "++"
        if n.get("k") == "Assign":
            r = strip(n["rhs"])
            if n.get("op") == "+=":
                return r.get("k") == "Int" and int(r["v"]) == 1
            if n.get("op") == "=" and r.get("k") == "Bin" and r.get("op") == "+":
                x1, x2 = strip(r["lhs"]), strip(r["rhs"])
                if x2.get("k") == "Ref":
                    x1, x2 = x2, x1
                return x1.get("k") == "Ref" and fr.vid(x1) == fr.vid(n["lhs"]) and x2.get("k") == "Int" and int(x2["v"]) == 1
        return False

    def on_write(self, n, fr, st, v):
        """a scalar variable is written by statement n"""
        if v == self.bcur:
            if st.merge > 0:
                self.n_adv.add(n.get("i"))
                if v not in st.served and st.facts.get(AI) is not True:
                    self.problem("line %s: `%s` skips an entry of %s that was not accumulated and allow_incomplete is not known to be true on this path (silent drop)" % (n.get("l"), render(n), self.bobj))
                if not self.by_one(n, fr):
                    self.problem("line %s: `%s` moves the B cursor by something other than one entry: entries of %s are passed over without being examined (only the ONE entry without a slot may be dropped)" % (n.get("l"), render(n), self.bobj))
                st.nadv += 1
                if st.nadv > 1:
                    self.problem("some path through one iteration advances the B cursor %d times (line %s): an entry of %s is passed over without being compared" % (st.nadv, n.get("l"), self.bobj))
            elif st.pending:
                self.unmodelled.add("B cursor modified after the merge loop (line %s)" % n.get("l"))
        elif v == self.xcur:
            if st.merge > 0:
                key = (self.xcur, self.bcur)
                less = st.col.get(key, ALLREL) <= frozenset("<")
                if st.ai_iter:
                    self.problem("line %s: `%s` on the allow_incomplete path: the only permitted effect there is `++%s` (drop the one entry without a slot)" % (n.get("l"), render(n)[:60], self.bname))
                if not (v in st.served or less):
                    self.problem("line %s: `%s` passes over a slot of X that was neither served nor has a smaller column than the current entry of %s (a later entry of %s may belong there)" % (n.get("l"), render(n), self.bobj, self.bobj))
                if not self.by_one(n, fr):
                    self.problem("line %s: `%s` moves the X cursor by something other than one slot" % (n.get("l"), render(n)))
            elif st.pending:
                self.unmodelled.add("X cursor modified after the merge loop (line %s)" % n.get("l"))
        elif st.merge > 0 and st.ai_iter:
            self.problem("line %s: `%s` on the allow_incomplete path: the only permitted effect there is `++%s` (drop the one entry without a slot)" % (n.get("l"), render(n)[:60], self.bname))
        st.invalidate(v)

    def on_acc(self, n, fr, st):
        if st.merge <= 0:
            raise Unknown("accumulate statement reached outside the merge loop")
        self.deref_check(n, fr, st)
        if st.ai_iter:
            self.problem("line %s: `%s` on the allow_incomplete path: the only permitted effect there is `++%s` (drop the one entry without a slot)" % (n.get("l"), render(n)[:60], self.bname))
        rel = st.col.get((self.xcur, self.bcur), ALLREL)
        if rel != frozenset("="):
            if "=" not in rel:
                self.problem("line %s: the accumulate statement runs where col_ind(this)[X cursor] %s col_ind(%s)[B cursor], not where the columns are equal" % (n.get("l"), "/".join(sorted(rel)), self.bobj))
            else:
                self.unmodelled.add("equality of the two column indices is not established by a condition the rule models before the accumulate statement (line %s)" % n.get("l"))
        reads = self.b_reads(n, fr, st)
        if self.bcur not in reads:
            if reads:
                self.problem("line %s: the accumulate statement reads %s.val() at another index than the B cursor `%s`" % (n.get("l"), self.bobj, self.bname))
            else:
                self.unmodelled.add("the value added by the accumulate statement (line %s) is not traced to %s.val()" % (n.get("l"), self.bobj))
        st.served |= {self.xcur, self.bcur}

    def effect(self, n, fr, st):
        """expression statement -> [(outcome, St)]"""
        k = n.get("k")
        if is_call(n) and n.get("noreturn"):
            return [(("abort",), st)]
        if fr is self.acc_fr and n.get("i") == self.acc.get("i"):
            st = st.copy()
            self.on_acc(n, fr, st)
            return [(("normal",), st)]
        if k == "Un" and n.get("op") in ("++", "--") and strip(n["e"]).get("k") == "Ref":
            st = st.copy()
            self.on_write(n, fr, st, fr.vid(n["e"]))
            return [(("normal",), st)]
        if k == "Assign" and strip(n["lhs"]).get("k") == "Ref":
            v = fr.vid(n["lhs"])
            if not self.side_effect_free(n["rhs"]):
                raise Unknown("nested side effects in `%s` (line %s)" % (render(n)[:60], n.get("l")))
            self.deref_check(n["rhs"], fr, st)
            r = strip(n["rhs"])
            outs = []
            if n.get("op") == "=" and (r.get("k") == "Bool" or self.is_ai(r, fr) or (r.get("k") == "Un" and r.get("op") == "!")) and v not in (self.xcur, self.bcur):
                for val, s in self.eval_cond(r, fr, st):
                    s = s.copy()
                    self.on_write(n, fr, s, v)
                    s.env[v] = val
                    outs.append((("normal",), s))
                return outs
            st = st.copy()
            self.on_write(n, fr, st, v)
            if n.get("op") == "=" and r.get("k") == "Int":
                st.env[v] = int(r["v"])
            return [(("normal",), st)]
        if k in ("Call", "MCall") and fr.callee(n) is not None:
            outs = []
            for o, s in self.call(n, fr, st):
                outs.append(((("normal",) if o[0] == "return" else o), s))
            return outs
        # opaque expression statement
        if not all(self.side_effect_free(a) for a in n.get("a", [])):
            raise Unknown("nested side effects in `%s` (line %s)" % (render(n)[:60], n.get("l")))
        st = st.copy()
        self.deref_check(n, fr, st)
        for y in walk(n):
            if is_call(y):
                for a_ in y.get("a", []) + ([y["obj"]] if y.get("obj") is not None else []):
                    a_ = strip(a_)
                    if a_.get("k") == "Un" and a_.get("op") == "&":
                        a_ = strip(a_["e"])
                    if a_.get("k") == "Ref" and fr.is_var(a_) and fr.vid(a_) in (self.xcur, self.bcur):
                        self.unmodelled.add("cursor passed to `%s` (line %s)" % (y.get("callee", "?")[:50], y.get("l")))
            if y.get("k") == "Lambda":
                self.note(st, "lambda at line %s" % y.get("l"))
        if st.merge > 0 and st.ai_iter and k in ("Assign", "Call", "MCall", "OpCall", "Un"):
            self.problem("line %s: `%s` on the allow_incomplete path: the only permitted effect there is `++%s` (drop the one entry without a slot)" % (n.get("l"), render(n)[:60], self.bname))
        # value flow into locals (temp.set_mat_mat_mult(omega, data_b[lj]); t = ...)
        tgt = None
        if k == "MCall" and n.get("obj") is not None:
            tgt = strip(n["obj"])
        elif k == "Assign":
            tgt = strip(n["lhs"])
        elif k == "OpCall" and n.get("a"):
            tgt = strip(n["a"][0])
        while tgt is not None and tgt.get("k") in ("Index", "Member"):
            tgt = strip(tgt.get("b"))
        if tgt is not None and tgt.get("k") == "Ref" and tgt.get("dk") == "local":
            lv = (fr.uid, tgt.get("d"))
            st.breads[lv] = st.breads.get(lv, set()) | self.b_reads(n, fr, st)
        return [(("normal",), st)]

    def judge_pending(self, st, where):
        """the iteration of the loop enclosing the merge (or the function) ends: every way the merge loop was left is judged"""
        for rec in st.pending:
            bleft = st.facts.get(("inrow", self.bcur, self.bobj))
            if bleft is False:
                continue
            ai = st.facts.get(AI)
            xin = st.facts.get(("inrow", self.xcur, "this"))
            if ai is not True:
                self.problem("line %s: %s leaves the merge loop with entries of %s left and allow_incomplete not known to be true, and no XABORTM follows on this path (silent drop)" % (rec["line"], rec["how"], self.bobj))
            if xin is not False:
                self.problem("line %s: %s abandons the rest of row %s although the X cursor is not known to be at the end of its row (X cursor >= row_ptr(this)[i+1] does not control this exit): later entries of %s that do have a slot in X lose their contribution" % (rec["line"], rec["how"], self.bobj, self.bobj))
        st.pending = []

    def written_in(self, n, fr):
        out = set()
        opaque = False
        for y in walk(n):
            k = y.get("k")
            if k == "Assign" and strip(y["lhs"]).get("k") == "Ref":
                out.add(fr.vid(y["lhs"]))
            elif k == "Un" and y.get("op") in ("++", "--") and strip(y["e"]).get("k") == "Ref":
                out.add(fr.vid(y["e"]))
            elif k in ("Call", "MCall") and fr.callee(y) is not None:
                # a helper writes the caller's variables only through by-reference parameters / addresses
                f = fr.callee(y)
                for p, a in zip(f.params, y.get("a", [])):
                    a0 = strip(a)
                    if a0.get("k") == "Un" and a0.get("op") == "&":
                        a0 = strip(a0["e"])
                    if a0.get("k") == "Ref" and a0.get("dk") in ("local", "param") and ("*" in fr.fn.type(p["t"]) or _mutable_ref(f.type(p["t"]))) and fr.is_var(a0):
                        out.add(fr.vid(a0))
        return out, opaque

    def loop(self, n, fr, st):
        is_merge = (fr.uid, n.get("i")) == self.merge_loop
        states = [st]
        if n.get("k") == "For" and n.get("init") is not None:
            states = []
            for o, s in self.exec(n["init"], fr, st):
                if o[0] != "normal":
                    raise Unknown("loop initialiser at line %s" % n.get("l"))
                states.append(s)
        written, opaque = self.written_in(n, fr)
        results = []
        for s0 in states:
            # bookkeeping locals (flags) that are written in the loop keep their value from before the loop at the start of
            # every iteration iff every iteration that reaches the back edge leaves them unchanged (checked inductively;
            # `flag = true; break;` never reaches the back edge)
            keep = {v for v in written if v in s0.env and v not in (self.xcur, self.bcur)}
            while True:
                snap = (set(self.problems), set(self.unmodelled), set(self.n_adv))
                res, back = self.loop_once(n, fr, s0, written, keep, is_merge)
                bad = {v for v in keep if any(sb.env.get(v, None) != s0.env[v] or v not in sb.env for sb in back)}
                if not bad:
                    break
                keep -= bad
                self.problems, self.unmodelled, self.n_adv = snap
            results.extend(res)
        return results

    def loop_once(self, n, fr, s0, written, keep, is_merge):
        results, back = [], []
        s = s0.copy()
        for v in written:
            if v in keep:
                val = s.env[v]
                s.invalidate(v)
                s.env[v] = val
            else:
                s.invalidate(v)
        if is_merge:
            s.merge += 1
            s.served, s.nadv, s.ai_iter = set(), 0, False
            if s.pending:
                raise Unknown("merge loop entered with an unjudged exit of a previous merge")

        def leave(s2, how, line):
            s2 = s2.copy()
            if is_merge:
                s2.merge -= 1
                s2.pending.append({"how": how, "line": line})
            return s2
        conds = self.eval_cond(n["c"], fr, s) if n.get("c") is not None else [(True, s)]
        for val, s1 in conds:
            if not val:
                results.append((("normal",), leave(s1, "the loop condition `%s`" % render(n["c"])[:70], n.get("l"))))
                continue
            for o, s2 in self.exec(n["body"], fr, s1):
                if o[0] in ("normal", "continue"):
                    ends = [(("normal",), s2)]
                    if n.get("k") == "For" and n.get("inc") is not None:
                        ends = self.exec(n["inc"], fr, s2)
                    for o3, s3 in ends:
                        if not is_merge and s3.pending:
                            self.judge_pending(s3, n)
                        back.append(s3)
                elif o[0] == "break":
                    s3 = leave(s2, "`break`", o[1] if len(o) > 1 else n.get("l"))
                    if not is_merge and s3.pending:
                        self.judge_pending(s3, n)
                    results.append((("normal",), s3))
                elif o[0] == "return":
                    s3 = leave(s2, "`return`", o[2] if len(o) > 2 else n.get("l"))
                    results.append((o, s3))
                elif o[0] == "abort":
                    pass
        return results, back

    def exec(self, n, fr, st):
        """-> [(outcome, St)], outcome = ('normal',) | ('break', line) | ('continue',) | ('return', value, line) | ('abort',)"""
        self.budget -= 1
        if self.budget < 0:
            raise Unknown("path enumeration exceeds its budget")
        if n is None:
            return [(("normal",), st)]
        k = n.get("k")
        if k == "Block":
            states, outs = [st], []
            for s in n.get("s", []):
                nxt = []
                for cur in states:
                    for o, s2 in self.exec(s, fr, cur):
                        if o[0] == "normal":
                            nxt.append(s2)
                        else:
                            outs.append((o, s2))
                states = nxt
                if not states:
                    break
            return outs + [(("normal",), s) for s in states]
        if k == "If":
            outs = []
            for val, s1 in self.eval_cond(n["c"], fr, st):
                br = n.get("then") if val else n.get("else")
                if br is None:
                    outs.append((("normal",), s1))
                else:
                    outs.extend(self.exec(br, fr, s1))
            return outs
        if k in ("While", "For"):
            return self.loop(n, fr, st)
        if k == "Break":
            return [(("break", n.get("l")), st)]
        if k == "Continue":
            return [(("continue",), st)]
        if k == "Return":
            e = n.get("e")
            if e is None:
                return [(("return", None, n.get("l")), st)]
            rt = fr.fn.type(fr.fn.d.get("ret")) if fr.fn.d.get("ret") is not None else ""
            if rt.replace("const ", "").strip() in ("bool", "_Bool"):
                return [(("return", v, n.get("l")), s) for v, s in self.eval_cond(e, fr, st)]
            if not self.side_effect_free(e):
                raise Unknown("return expression with side effects (line %s)" % n.get("l"))
            return [(("return", None, n.get("l")), st)]
        if k == "Decl":
            st = st.copy()
            states = [st]
            for v in n.get("vars", []):
                lv = (fr.uid, v["d"])
                nxt = []
                for s in states:
                    s.stale.discard(lv)
                    s.invalidate(lv)
                    ini = v.get("init")
                    if ini is None:
                        nxt.append(s)
                        continue
                    i0 = strip(ini)
                    if i0.get("k") in ("Call", "MCall") and fr.callee(i0) is not None:
                        for o, s2 in self.call(i0, fr, s):
                            if o[0] == "abort":
                                continue
                            s2 = s2.copy()
                            if o[1] is not None:
                                s2.env[lv] = o[1]
                            nxt.append(s2)
                        continue
                    if not self.side_effect_free(ini):
                        raise Unknown("initialiser of `%s` has side effects (line %s)" % (v.get("n"), v.get("l")))
                    if any(y.get("k") in ("Call", "MCall") and fr.callee(y) is not None for y in walk(ini)):
                        raise Unknown("helper call nested in the initialiser of `%s` (line %s)" % (v.get("n"), v.get("l")))
                    self.deref_check(ini, fr, s)
                    s.ldeps[lv] = self.deps_of(ini, fr, s)
                    s.breads[lv] = self.b_reads(ini, fr, s)
                    t = fr.fn.type(v.get("t")).replace("const ", "").strip()
                    if t in ("bool", "_Bool") and v["d"] in fr.loc.written:
                        for val, s2 in self.eval_cond(ini, fr, s):
                            s2 = s2.copy()
                            s2.env[lv] = val
                            nxt.append(s2)
                        continue
                    if i0.get("k") == "Int" and v["d"] in fr.loc.written:
                        s.env[lv] = int(i0["v"])
                    nxt.append(s)
                states = nxt
            return [(("normal",), s) for s in states]
        if k in ("Do", "Switch", "ForRange", "Try", "Goto", "Label", "OMP"):
            if self.contains_region(n, fr):
                raise Unknown("%s statement at line %s" % (k, n.get("l")))
            st = st.copy()
            written, opaque = self.written_in(n, fr)
            for v in written:
                st.invalidate(v)
            return [(("normal",), st)]
        if k in ("Un", "Assign", "Call", "MCall", "OpCall", "Construct", "TempObj", "Cast", "Bin", "Member", "Ref", "Index", "Cond", "Delete", "New", "Throw"):
            if k == "Throw":
                return [(("abort",), st)]
            return self.effect(n, fr, st)
        if k in ("Null", "Int", "Bool", "Str"):
            return [(("normal",), st)]
        raise Unknown("statement kind %s at line %s" % (k, n.get("l")))

    def contains_region(self, n, fr):
        """the statement contains the merge loop / the accumulate statement / a call into a helper"""
        for y in walk(n):
            if fr is self.acc_fr and y.get("i") == self.acc.get("i"):
                return True
            if y.get("k") in ("Call", "MCall") and fr.callee(y) is not None:
                return True
            if y.get("k") == "Index":
                ix = strip(y["idx"])
                if fr.is_var(ix) and fr.vid(ix) in (self.xcur, self.bcur):
                    return True
        return False

    def run(self):
        for o, s in self.exec(self.fn.body, self.root, St()):
            if s.pending:
                self.judge_pending(s, None)
        return sorted(self.problems), sorted(self.unmodelled)
