"""norm_c16: normalisation helpers over featx fact trees (written for C16, usable by any check).

1. Standard-library spellings of element-wise container loops as the loops they stand for:
   `container_effects(node, env)` describes what a call writes into which container
   (std::fill / fill_n / iota / copy / copy_n / copy_backward / move / transform / swap, vector::insert / assign /
   push_back / emplace_back / resize / swap), `iter_source(node, env)` resolves an iterator / pointer expression
   (`v.begin() + n`, `std::next(it)`, `&v[i]`, `v.data()`, a local `auto it = v.begin()`, `std::back_inserter(v)`) to the
   container it ranges over, `elem_access(node, env)` recognises every spelling of "one element of container X"
   (`X[i]`, `X.at(i)`, `X.front()`, `*it`, `it[k]`, `X.data()[i]`).
2. `DefEnv`: single-definition locals (copy propagation) and reference aliases of a function.
3. `exits_region(stmt)` / `guarded_statements(block)`: early-exit normal form: after `if(c) return/continue/break;`
   the remaining statements of the block execute under `!c` (the same decision as the nested `if(!c) { ... }`).

Nothing here decides a property; the helpers only put different spellings of the same construct into one form.
"""
import featlib
from featlib import walk

ITER_GETTERS = {"begin", "end", "cbegin", "cend", "rbegin", "rend", "crbegin", "crend", "data"}
STD_ITER_FUNCS = {"std::begin", "std::end", "std::cbegin", "std::cend", "std::rbegin", "std::rend", "std::next", "std::prev",
                  "std::make_move_iterator", "std::make_reverse_iterator", "std::data"}
OUT_INSERTERS = {"std::back_inserter", "std::front_inserter", "std::inserter"}
ELEM_GETTERS = {"at", "front", "back"}
PERMUTING = {"std::sort", "std::stable_sort", "std::reverse", "std::rotate", "std::partial_sort", "std::nth_element", "std::shuffle",
             "std::random_shuffle", "std::inplace_merge", "std::next_permutation", "std::prev_permutation"}


def strip_targs(s):
    out, depth = [], 0
    for ch in s or "":
        if ch == "<":
            depth += 1
        elif ch == ">":
            depth -= 1
        elif depth == 0:
            out.append(ch)
    return "".join(out)


def strip(n):
    """value-preserving wrappers removed: casts, std::move / std::forward, single-argument copy construction"""
    while isinstance(n, dict):
        k = n.get("k")
        if k in ("Cast", "Paren") and n.get("e") is not None:
            n = n["e"]
        elif k == "Call" and strip_targs(n.get("callee")) in ("std::move", "std::forward", "std::as_const") and len(n.get("a") or []) == 1:
            n = n["a"][0]
        elif k == "InitList" and len(n.get("a") or []) == 1:
            n = n["a"][0]
        else:
            break
    return n


class DefEnv:
    """definitions of the locals of one function: `defs[d]` = list of defining expressions (initialiser and every
    plain assignment), `refs[d]` = initialiser of a reference local (an alias of what it is bound to)"""

    def __init__(self, fn):
        self.fn = fn
        self.defs, self.refs, self.types = {}, {}, {}
        for n in fn.nodes():
            k = n.get("k")
            if k == "Var" and n.get("d") is not None:
                ty = fn.type(n.get("t")) if n.get("t") is not None else ""
                self.types[n["d"]] = ty
                if n.get("init") is not None:
                    if n.get("ref") or ty.rstrip().endswith("&"):
                        self.refs[n["d"]] = n["init"]
                    self.defs.setdefault(n["d"], []).append(n["init"])
            elif k == "Assign" and n.get("op") == "=" and (strip(n.get("lhs")) or {}).get("k") == "Ref":
                self.defs.setdefault(strip(n["lhs"])["d"], []).append(n.get("rhs"))
            elif k == "OpCall" and n.get("op") == "=" and len(n.get("a") or []) == 2 and (strip(n["a"][0]) or {}).get("k") == "Ref":
                self.defs.setdefault(strip(n["a"][0])["d"], []).append(n["a"][1])

    def alias(self, n, depth=0):
        """n with reference locals replaced by what they are bound to"""
        n = strip(n)
        while isinstance(n, dict) and n.get("k") == "Ref" and n.get("d") in self.refs and depth < 8:
            n = strip(self.refs[n["d"]])
            depth += 1
        return n

    def single_def(self, d):
        v = self.defs.get(d) or []
        return v[0] if len(v) == 1 else None


def same_object(a, b, env=None):
    """two expressions denote the same object (after alias resolution): same local, or the same member chain of this"""
    if env is not None:
        a, b = env.alias(a), env.alias(b)
    else:
        a, b = strip(a), strip(b)
    if not isinstance(a, dict) or not isinstance(b, dict) or a.get("k") != b.get("k"):
        return False
    if a["k"] == "Ref":
        return a.get("d") is not None and a.get("d") == b.get("d")
    if a["k"] == "This":
        return True
    if a["k"] == "Member":
        ab, bb = a.get("b"), b.get("b")
        return a.get("n") == b.get("n") and ((ab is None and bb is None) or same_object(ab or {"k": "This"}, bb or {"k": "This"}, env))
    return False


def iter_source(n, env, depth=0):
    """container expression an iterator / pointer / inserter expression ranges over, or None"""
    n = env.alias(n) if env is not None else strip(n)
    if not isinstance(n, dict) or depth > 8:
        return None
    k = n.get("k")
    if k == "MCall" and n.get("n") in ITER_GETTERS and n.get("obj") is not None:
        return env.alias(n["obj"]) if env is not None else strip(n["obj"])
    if k == "Call":
        c = strip_targs(n.get("callee"))
        if (c in STD_ITER_FUNCS or c in OUT_INSERTERS) and n.get("a"):
            a0 = n["a"][0]
            if c in OUT_INSERTERS or c in ("std::begin", "std::end", "std::cbegin", "std::cend", "std::rbegin", "std::rend", "std::data"):
                s = iter_source(a0, env, depth + 1)
                return s if s is not None else (env.alias(a0) if env is not None else strip(a0))
            return iter_source(a0, env, depth + 1)
    if k == "OpCall" and n.get("op") in ("+", "-", "++", "--", "+=", "-=") and n.get("a"):
        return iter_source(n["a"][0], env, depth + 1)
    if k == "Bin" and n.get("op") in ("+", "-"):
        return iter_source(n.get("lhs"), env, depth + 1) or (iter_source(n.get("rhs"), env, depth + 1) if n.get("op") == "+" else None)
    if k == "Un" and n.get("op") in ("++", "--"):
        return iter_source(n.get("e"), env, depth + 1)
    if k == "Un" and n.get("op") == "&":
        ea = elem_access(n.get("e"), env, depth + 1)
        return ea
    if k in ("Construct", "TempObj") and len(n.get("a") or []) == 1:
        return iter_source(n["a"][0], env, depth + 1)      # iterator conversion (iterator -> const_iterator)
    if k == "Ref" and env is not None and n.get("dk") in ("local", "param"):
        defs = env.defs.get(n.get("d")) or []
        srcs = [iter_source(x, env, depth + 1) for x in defs]
        if srcs and all(s is not None for s in srcs) and all(same_object(s, srcs[0], env) for s in srcs[1:]):
            return srcs[0]
        # a pointer local defined once by an expression that is not an iterator expression (`const T* p = g.get_ptr();`):
        # the array is whatever that expression yields
        ty = (env.types.get(n.get("d")) or "").rstrip()
        if len(defs) == 1 and (ty.endswith("*") or ty.endswith("* const")):
            d0 = strip(defs[0])
            if isinstance(d0, dict) and d0.get("k") in ("MCall", "Call", "Member", "Ref"):
                return d0
    return None


def elem_access(n, env, depth=0):
    """container X if n denotes one element of X: X[i], X.at(i), X.front(), X.back(), *it, it[k], X.data()[i]"""
    n = env.alias(n) if env is not None else strip(n)
    if not isinstance(n, dict) or depth > 8:
        return None
    k = n.get("k")
    if k == "MCall" and n.get("n") in ELEM_GETTERS and n.get("obj") is not None:
        return env.alias(n["obj"]) if env is not None else strip(n["obj"])
    if k == "OpCall" and n.get("op") == "[]" and n.get("a"):
        s = iter_source(n["a"][0], env, depth + 1)
        return s if s is not None else (env.alias(n["a"][0]) if env is not None else strip(n["a"][0]))
    if k == "Index":
        s = iter_source(n.get("b"), env, depth + 1)
        return s if s is not None else (env.alias(n.get("b")) if env is not None else strip(n.get("b")))
    if k == "Un" and n.get("op") == "*":
        return iter_source(n.get("e"), env, depth + 1)
    if k == "OpCall" and n.get("op") == "*" and len(n.get("a") or []) == 1:
        return iter_source(n["a"][0], env, depth + 1)
    return None


def container_effects(n, env):
    """what the call node n stores into which container.  -> list of dicts
        {dst: container expr, mode: 'elements' | 'append' | 'whole', src: (kind, payload...)}
    src kinds: ('value', expr) every stored element is the value of expr; ('range', container) the stored elements are
    elements of that container; ('counter', start) consecutive counter values; ('transform', container, callable) f(element);
    ('permute',) the container's own elements in another order; ('unknown', text).  [] if n is not such a call."""
    if not isinstance(n, dict):
        return []
    k = n.get("k")
    out = []
    A = n.get("a") or []

    def cont_of(x):
        return env.alias(x) if env is not None else strip(x)

    if k == "MCall" and n.get("obj") is not None:
        name = n.get("n")
        X = cont_of(n["obj"])
        if name in ("push_back", "emplace_back", "push_front", "emplace_front") and len(A) == 1:
            out.append({"dst": X, "mode": "append", "src": ("value", A[0])})
        elif name == "insert" and len(A) == 2:
            out.append({"dst": X, "mode": "append", "src": ("value", A[1])})
        elif name == "insert" and len(A) == 3:
            s = iter_source(A[1], env)
            if s is not None:
                out.append({"dst": X, "mode": "append", "src": ("range", s)})
            else:
                out.append({"dst": X, "mode": "append", "src": ("value", A[2])})      # insert(pos, count, value)
        elif name == "assign" and len(A) == 2:
            s = iter_source(A[0], env)
            out.append({"dst": X, "mode": "whole", "src": ("range", s) if s is not None else ("value", A[1])})
        elif name == "resize" and len(A) == 2:
            out.append({"dst": X, "mode": "append", "src": ("value", A[1])})
        elif name == "swap" and len(A) == 1:
            Y = cont_of(A[0])
            out.append({"dst": X, "mode": "whole", "src": ("range", Y)})
            out.append({"dst": Y, "mode": "whole", "src": ("range", X)})
        return out
    if k != "Call":
        return out
    c = strip_targs(n.get("callee"))
    if not c.startswith("std::"):
        return out
    if c == "std::swap" and len(A) == 2:
        X, Y = cont_of(A[0]), cont_of(A[1])
        return [{"dst": X, "mode": "whole", "src": ("range", Y)}, {"dst": Y, "mode": "whole", "src": ("range", X)}]
    if c in ("std::fill", "std::iota") and len(A) == 3:
        X = iter_source(A[0], env)
        if X is not None:
            out.append({"dst": X, "mode": "elements", "src": ("value", A[2]) if c == "std::fill" else ("counter", A[2])})
    elif c == "std::fill_n" and len(A) == 3:
        X = iter_source(A[0], env)
        if X is not None:
            out.append({"dst": X, "mode": "elements", "src": ("value", A[2])})
    elif c in ("std::copy", "std::move", "std::copy_backward", "std::move_backward", "std::reverse_copy", "std::copy_n", "std::copy_if", "std::partial_sort_copy", "std::unique_copy", "std::remove_copy", "std::remove_copy_if") and len(A) >= 3:
        S = iter_source(A[0], env)
        X = iter_source(A[2], env)
        if X is not None:
            mode = "append" if strip_targs((strip(A[2]) or {}).get("callee")) in OUT_INSERTERS else "elements"
            out.append({"dst": X, "mode": mode, "src": ("range", S) if S is not None else ("unknown", featlib.render(A[0])[:60])})
    elif c == "std::transform" and len(A) in (4, 5):
        S = iter_source(A[0], env)
        X = iter_source(A[-2], env)
        if X is not None:
            mode = "append" if strip_targs((strip(A[-2]) or {}).get("callee")) in OUT_INSERTERS else "elements"
            out.append({"dst": X, "mode": mode, "src": ("transform", S, A[-1]) if len(A) == 4 else ("unknown", "binary std::transform")})
    elif c in ("std::generate", "std::generate_n", "std::for_each", "std::partial_sum", "std::adjacent_difference", "std::exclusive_scan", "std::inclusive_scan", "std::replace", "std::replace_if") and A:
        X = iter_source(A[0] if c not in ("std::partial_sum", "std::adjacent_difference", "std::exclusive_scan", "std::inclusive_scan") else A[2] if len(A) > 2 else A[0], env)
        if X is not None:
            out.append({"dst": X, "mode": "elements", "src": ("unknown", c)})
    elif c in PERMUTING and A:
        X = iter_source(A[0], env)
        if X is not None:
            out.append({"dst": X, "mode": "elements", "src": ("permute",)})
    return out


def lambda_returns(lam):
    """the return expressions of a lambda node (k == 'Lambda'), its parameter declaration ids"""
    rets = []
    if not isinstance(lam, dict) or lam.get("k") != "Lambda":
        return None, []
    for x in walk(lam.get("body")):
        if x.get("k") == "Return" and x.get("e") is not None:
            rets.append(x["e"])
    params = [p.get("d") for p in (lam.get("params") or []) if isinstance(p, dict)]
    return rets, params


# -------------------------------------------------------------------------------------------------------------------
# early-exit normal form
# -------------------------------------------------------------------------------------------------------------------

def exits_region(st):
    """kind of unconditional exit a statement ends with: 'return' | 'continue' | 'break' | 'throw' | None"""
    while isinstance(st, dict) and st.get("k") == "Block":
        s = st.get("s") or []
        if not s:
            return None
        st = s[-1]
    if not isinstance(st, dict):
        return None
    k = st.get("k")
    if k == "Return":
        return "return"
    if k == "Continue":
        return "continue"
    if k == "Break":
        return "break"
    if k == "Throw":
        return "throw"
    if featlib.is_call(st) and st.get("noreturn"):
        return "throw"
    if k == "If" and st.get("else") is not None:
        a, b = exits_region(st.get("then")), exits_region(st.get("else"))
        if a and b:
            return a if a == b else "return"
    return None


def guarded_statements(block):
    """statements of a block with the early-exit guards accumulated before them:
    yields (statement, [(condition node, polarity)]) where the listed conditions hold when the statement is reached
    because an earlier `if(c) <exit>;` (no else / else falls through) did not leave the block."""
    guards = []
    for st in (block.get("s") or []) if isinstance(block, dict) and block.get("k") == "Block" else [block]:
        yield st, list(guards)
        if isinstance(st, dict) and st.get("k") == "If" and st.get("c") is not None:
            t_exit = exits_region(st.get("then"))
            e_exit = exits_region(st.get("else")) if st.get("else") is not None else None
            if t_exit and not e_exit:
                guards.append((st["c"], False))
            elif e_exit and not t_exit:
                guards.append((st["c"], True))
