"""symex: engine E11 — symbolic evaluation of straight-line / constant-bound FEAT3 code over exact
polynomials (shared by checks C15 and C16).

This is *not* an interpreter for FEAT3 programs.  It translates formula lists (basis function
evaluators, trafo evaluators, operator `eval` bodies, the small dense loops of Tiny::Vector/Matrix)
from the featx fact base into exact multivariate polynomials with rational coefficients:

  * every memory location is addressed by (root, path) where the root is a parameter of the entry
    function, its `this` object, or a local of some inlined frame, and the path is the sequence of
    field names and subscripts (constant integers, or the name of a symbolic integer such as
    `this.ek[0][1]`);
  * reading a location of an *input* (parameter / this) that was never written yields a fresh
    polynomial symbol named after the location; reading an unwritten local is an error;
  * calls whose callee has a body in the fact base are inlined (callee identity by declaration id,
    arguments bound by the callee's parameter types: references alias, values copy);
  * control flow must fold: loop bounds and branch conditions have to be constants, otherwise
    NotClosedForm is raised and the caller reports the function as 'not covered' / analysis
    incomplete.  Nothing is guessed.

Spellings that are evaluated as the construct they stand for (round 5, behaviour-preserving refactorings):
  * pointer cursors (class Ptr): `T* p = &a[k]` / `p = a` / `++p` / `p += n` / `*p` / `p[i]` / `p->m` / `p - q` /
    `p != q` address the cells of the array `a`, i.e. a cursor loop is the index loop over the same cells;
  * for / while / do-while alike, `switch` on a constant selector as the if-chain over its labels (fall-through,
    break), range-for over built-in arrays of constant extent, local (non-generic) lambdas inlined at their call
    with the defining frame's variables visible, empty statements;
  * std::fill / fill_n / copy / copy_n / copy_backward / iota on pointer ranges of constant extent, std::swap of
    scalars, std::min / std::max of constants;
  * AbsSymEx: variables advancing together (`++j, ++p` in one increment clause, top-level `++k;` of a while body)
    are ONE induction variable, loop conditions are normalised (`n > k` = `k < n`, `k != n` of an up-counting
    variable = `k < n`, cursors compared by offset), scalars passed by value to calls that are not inlined are
    passed as the value they have at the call;
  * PredEx: the accepted set of a bool predicate by enumeration of its execution paths (early returns, nested ifs,
    continue, ?:, bool locals / accumulators, helper predicates, |x| comparisons).
"""
from fractions import Fraction
import re


class NotClosedForm(Exception):
    pass


# -------------------------------------------------------------------------------------------------
# exact sparse polynomials
# -------------------------------------------------------------------------------------------------

class Poly:
    """multivariate polynomial with Fraction coefficients; monomial = sorted tuple of (symbol, exponent)"""
    __slots__ = ("t",)

    def __init__(self, t=None):
        self.t = t if t is not None else {}

    @staticmethod
    def const(c):
        c = Fraction(c)
        return Poly({(): c}) if c != 0 else Poly({})

    @staticmethod
    def sym(name):
        return Poly({((name, 1),): Fraction(1)})

    @staticmethod
    def of(x):
        if isinstance(x, Poly):
            return x
        if isinstance(x, bool):
            return Poly.const(int(x))
        if isinstance(x, (int, Fraction)):
            return Poly.const(x)
        raise NotClosedForm("not a number: %r" % (x,))

    def is_zero(self):
        return not self.t

    def is_const(self):
        return not self.t or (len(self.t) == 1 and () in self.t)

    def const_value(self):
        """Fraction if constant else None"""
        if not self.t:
            return Fraction(0)
        if len(self.t) == 1 and () in self.t:
            return self.t[()]
        return None

    def as_int(self):
        c = self.const_value()
        if c is None or c.denominator != 1:
            raise NotClosedForm("constant integer expected, got %s" % self)
        return int(c)

    def single_symbol(self):
        """name if the polynomial is exactly one symbol, else None"""
        if len(self.t) == 1:
            (m, c), = self.t.items()
            if c == 1 and len(m) == 1 and m[0][1] == 1:
                return m[0][0]
        return None

    def symbols(self):
        s = set()
        for m in self.t:
            for n, e in m:
                s.add(n)
        return s

    def degree(self, names=None):
        d = 0
        for m in self.t:
            d = max(d, sum(e for n, e in m if names is None or n in names))
        return d

    def __add__(self, o):
        o = Poly.of(o)
        r = dict(self.t)
        for m, c in o.t.items():
            v = r.get(m, 0) + c
            if v == 0:
                r.pop(m, None)
            else:
                r[m] = v
        return Poly(r)

    __radd__ = __add__

    def __neg__(self):
        return Poly({m: -c for m, c in self.t.items()})

    def __sub__(self, o):
        return self + (-Poly.of(o))

    def __rsub__(self, o):
        return Poly.of(o) + (-self)

    @staticmethod
    def _mmul(a, b):
        if not a:
            return b
        if not b:
            return a
        d = dict(a)
        for n, e in b:
            d[n] = d.get(n, 0) + e
        return tuple(sorted(d.items()))

    def __mul__(self, o):
        o = Poly.of(o)
        if not self.t or not o.t:
            return Poly({})
        r = {}
        mm = Poly._mmul
        for m1, c1 in self.t.items():
            for m2, c2 in o.t.items():
                m = mm(m1, m2)
                v = r.get(m, 0) + c1 * c2
                if v == 0:
                    r.pop(m, None)
                else:
                    r[m] = v
        return Poly(r)

    __rmul__ = __mul__

    def __truediv__(self, o):
        o = Poly.of(o)
        c = o.const_value()
        if c is None:
            raise NotClosedForm("division by the non-constant expression %s" % o)
        if c == 0:
            raise NotClosedForm("division by zero")
        return Poly({m: v / c for m, v in self.t.items()})

    def __pow__(self, n):
        r = Poly.const(1)
        for _ in range(n):
            r = r * self
        return r

    def __eq__(self, o):
        if not isinstance(o, (Poly, int, Fraction)):
            return NotImplemented
        return self.t == Poly.of(o).t

    def __hash__(self):
        return hash(frozenset(self.t.items()))

    def diff(self, name):
        r = {}
        for m, c in self.t.items():
            for k, (n, e) in enumerate(m):
                if n == name:
                    nm = m[:k] + (((n, e - 1),) if e > 1 else ()) + m[k + 1:]
                    r[nm] = r.get(nm, 0) + c * e
                    break
        return Poly({m: c for m, c in r.items() if c != 0})

    def subs(self, mapping):
        """substitute symbols by Poly / numbers (simultaneously)"""
        if not mapping:
            return self
        mp = {k: Poly.of(v) for k, v in mapping.items()}
        out = Poly({})
        cache = {}
        for m, c in self.t.items():
            term = Poly.const(c)
            rest = []
            for n, e in m:
                if n in mp:
                    key = (n, e)
                    if key not in cache:
                        cache[key] = mp[n] ** e
                    term = term * cache[key]
                else:
                    rest.append((n, e))
            if rest:
                term = term * Poly({tuple(rest): Fraction(1)})
            out = out + term
        return out

    def __repr__(self):
        return self.__str__()

    def __str__(self):
        if not self.t:
            return "0"
        parts = []
        for m, c in sorted(self.t.items(), key=lambda kv: (sum(e for _, e in kv[0]), kv[0])):
            ms = "*".join(n if e == 1 else "%s^%d" % (n, e) for n, e in m)
            if not ms:
                parts.append(str(c))
            elif c == 1:
                parts.append(ms)
            elif c == -1:
                parts.append("-" + ms)
            else:
                parts.append("%s*%s" % (c, ms))
        s = " + ".join(parts).replace("+ -", "- ")
        return s if len(s) < 400 else s[:400] + " ..."


ZERO = Poly({})
ONE = Poly.const(1)


# -------------------------------------------------------------------------------------------------
# locations
# -------------------------------------------------------------------------------------------------

class Loc:
    """an lvalue: root object + access path"""
    __slots__ = ("root", "path")

    def __init__(self, root, path=()):
        self.root = root
        self.path = tuple(path)

    def child(self, e):
        return Loc(self.root, self.path + (e,))

    def key(self):
        return (self.root, self.path)

    def __repr__(self):
        return loc_name(self)


def path_str(path):
    out = []
    for e in path:
        if isinstance(e, int):
            out.append("[%d]" % e)
        elif isinstance(e, str) and e.startswith("#"):
            out.append("[%s]" % e[1:])
        else:
            out.append("." + str(e))
    return "".join(out)


def loc_name(loc):
    r = loc.root
    rs = r if isinstance(r, str) else "%s%s" % (r[0], "_".join(str(x) for x in r[1:]))
    return rs + path_str(loc.path)


def is_input_root(root):
    return isinstance(root, str)


class Ptr:
    """pointer VALUE (cursor): element number `off` (Poly) of the array object `base`; off None = the object
    `base` itself (address of a non-array object: no arithmetic).  A pointer variable is a location whose stored
    value is a Ptr; `*p`, `p[i]`, `p->m`, `++p`, `p + n`, `p - q`, `p != q` are decided on (base, off), so that a
    cursor loop `for(p = &a[k]; ...; ++p) *p = v` writes exactly the cells the index loop `a[k++] = v` writes.
    Pointers the evaluator did not see being formed (parameters, members, results of unmodelled calls) keep the
    older convention: the location stands for the array it points to."""
    __slots__ = ("base", "off")

    def __init__(self, base, off):
        self.base, self.off = base, off

    def target(self, extra=None):
        if self.off is None:
            if extra is not None and not (extra.const_value() == 0):
                raise NotClosedForm("arithmetic on a pointer to the single object %s" % loc_name(self.base))
            return self.base
        o = self.off if extra is None else self.off + extra
        c = o.const_value()
        if c is not None:
            if c.denominator != 1:
                raise NotClosedForm("non-integer pointer offset %s" % c)
            return self.base.child(int(c))
        return self.base.child("#" + str(o))

    def shift(self, d):
        if self.off is None:
            raise NotClosedForm("arithmetic on a pointer to the single object %s" % loc_name(self.base))
        return Ptr(self.base, self.off + d)

    def __eq__(self, o):
        return isinstance(o, Ptr) and self.base.key() == o.base.key() and self.off == o.off

    def __hash__(self):
        return hash((self.base.key(), self.off))

    def __repr__(self):
        return "&" + loc_name(self.target())


def is_ptr_type(ty):
    t = ty.rstrip()
    for q in ("const", "__restrict", "volatile"):
        if t.endswith(q):
            t = t[:-len(q)].rstrip()
    return t.endswith("*")


class Store:
    """(root, path) -> value, indexed by root so that aggregate operations only scan one object"""

    def __init__(self):
        self.m = {}

    def __contains__(self, k):
        d = self.m.get(k[0])
        return d is not None and k[1] in d

    def __getitem__(self, k):
        return self.m[k[0]][k[1]]

    def __setitem__(self, k, v):
        d = self.m.get(k[0])
        if d is None:
            d = self.m[k[0]] = {}
        d[k[1]] = v

    def __delitem__(self, k):
        del self.m[k[0]][k[1]]

    def get(self, k, default=None):
        d = self.m.get(k[0])
        if d is None:
            return default
        return d.get(k[1], default)

    def root(self, r):
        return self.m.get(r) or {}

    def drop_root(self, r):
        self.m.pop(r, None)


def walk_nodes(n):
    """all dict nodes below n (generic: every dict / list valued field)"""
    st = [n]
    while st:
        x = st.pop()
        if isinstance(x, dict):
            if "k" in x:
                yield x
            st.extend(v for v in x.values() if isinstance(v, (dict, list)))
        elif isinstance(x, list):
            st.extend(x)


class _Return(Exception):
    def __init__(self, v):
        self.v = v


class _Break(Exception):
    pass


class _Continue(Exception):
    pass


INT_TYPES = {"int", "unsigned int", "long", "unsigned long", "FEAT::Index", "Index", "std::size_t", "size_t",
             "unsigned long long", "long long", "short", "unsigned short", "char", "unsigned char", "std::uint64_t", "std::uint32_t",
             "bool"}


def is_int_type(ty):
    t = ty.replace("const ", "").replace("volatile ", "").strip()
    return t in INT_TYPES


def is_ref_type(ty):
    """reference, pointer and array parameters alias the argument object"""
    t = ty.rstrip()
    if t.endswith("const"):
        t = t[:-5].rstrip()
    return t.endswith("&") or t.endswith("*") or t.endswith("]") or t.endswith("__restrict")


def is_scalar_type(ty):
    t = ty.replace("const ", "").replace("volatile ", "").replace("&", "").strip()
    return t in INT_TYPES or t in ("double", "float", "long double", "__float128", "FEAT::Real") or t.endswith("::DataType") or t.endswith("*")


class SymEx:
    """symbolic evaluator over a list of Facts.  Inputs of the entry function are named roots
    ("P0", "P1", ..., "this"); see module doc."""

    MAX_STEPS = 3_000_000

    # storage members of the small dense algebra classes are transparent: point.v[0] is addressed as
    # point[0], independent of how the (single) data member of Tiny::Vector/Matrix/Tensor3 is called
    TRANSPARENT = re.compile(r"^FEAT::Tiny::(Vector|Matrix|Tensor3)<.*>::[A-Za-z_]\w*$")

    def __init__(self, facts_list, opaque=None, no_inline=None):
        self.facts_list = facts_list
        self.by_decl = {}
        for fi, facts in enumerate(facts_list):
            for f in facts.functions:
                if f.tk == "pattern" or f.body is None:
                    continue
                d = f.d.get("decl")
                if d is not None:
                    self.by_decl[(id(facts), d)] = f
        self.opaque = opaque          # callable(symex, call_node, callee, this_loc, args, fn) -> value | None
        self.no_inline = no_inline    # regex of callees never inlined (handed to `opaque`)
        self.store = Store()
        self.links = Store()          # (root, path) of a copy -> Loc of the (input) original
        self.link_src = {}            # source root -> number of links into it
        self.frame_roots = []         # stack of lists: roots of locals/by-value parameters of the active frames
        self.steps = 0
        self.frames = 0
        self.temps = 0
        self.inlined = set()
        self.trace_writes = None      # optional list of (Loc, line)
        self.allow_recip = False      # division by a non-constant polynomial p -> factor symbol RECIPn with recips[RECIPn] = p
        self.recips = {}

    # --- memory ---------------------------------------------------------------------------------
    def read(self, loc):
        k = loc.key()
        if k in self.store:
            return self.store[k]
        p = loc.path
        for n in range(len(p), -1, -1):
            src = self.links.get((loc.root, p[:n]))
            if src is not None:
                return self.read(Loc(src.root, src.path + p[n:]))
        if is_input_root(loc.root):
            return Poly.sym(loc_name(loc))
        raise NotClosedForm("read of the uninitialised local location %s" % loc_name(loc))

    def write(self, loc, v, line=None):
        k = loc.key()
        if self.link_src.get(loc.root):
            for r, d in self.links.m.items():
                for p, src in d.items():
                    if src.root == loc.root and (src.path == loc.path[:len(src.path)] or loc.path == src.path[:len(loc.path)]):
                        raise NotClosedForm("write to %s which is aliased by a copy" % loc_name(loc))
        self.store[k] = v
        if self.trace_writes is not None:
            self.trace_writes.append((loc, line))

    def sub_entries(self, loc):
        n = len(loc.path)
        for p, v in list(self.store.root(loc.root).items()):
            if p[:n] == loc.path:
                yield p[n:], v

    def copy_agg(self, dst, src, line=None):
        """aggregate copy dst <- src (snapshot of written cells, link for unwritten input cells)"""
        n = len(dst.path)
        d = self.store.root(dst.root)
        for pth in [pth for pth in d if pth[:n] == dst.path]:
            del d[pth]
        d = self.links.root(dst.root)
        for pth in [pth for pth in d if pth[:n] == dst.path]:
            self.link_src[d[pth].root] -= 1
            del d[pth]
        ents = list(self.sub_entries(src))
        for rest, v in ents:
            self.store[(dst.root, dst.path + rest)] = v
            if self.trace_writes is not None:
                self.trace_writes.append((Loc(dst.root, dst.path + rest), line))
        # unwritten cells: resolve through links / inputs
        base = src
        p = src.path
        for m in range(len(p), -1, -1):
            l2 = self.links.get((src.root, p[:m]))
            if l2 is not None:
                base = Loc(l2.root, l2.path + p[m:])
                break
        if is_input_root(base.root) or base is not src:
            self.links[dst.key()] = base
            self.link_src[base.root] = self.link_src.get(base.root, 0) + 1

    def new_temp(self, what="T"):
        self.temps += 1
        return Loc((what, self.temps))

    def outputs(self, root):
        """{path: value} of everything written below the root"""
        return dict(self.store.root(root))

    def drop_frame(self, roots, keep=None):
        for r in roots:
            if keep is not None and r == keep:
                continue
            self.store.drop_root(r)
            d = self.links.m.pop(r, None)
            if d:
                for src in d.values():
                    self.link_src[src.root] -= 1

    # --- helpers ----------------------------------------------------------------------------------
    def tick(self):
        self.steps += 1
        if self.steps > self.MAX_STEPS:
            raise NotClosedForm("step limit exceeded (data-dependent loop?)")

    def rv(self, v):
        if isinstance(v, Loc):
            return self.read(v)
        return v

    def num(self, v):
        v = self.rv(v)
        if isinstance(v, Poly):
            return v
        if isinstance(v, (bool, int, Fraction)):
            return Poly.of(v)
        raise NotClosedForm("number expected, got %r" % (v,))

    def truth(self, v):
        v = self.rv(v)
        if isinstance(v, bool):
            return v
        if isinstance(v, Poly):
            c = v.const_value()
            if c is None:
                raise NotClosedForm("branch/loop condition is not a constant: %s" % v)
            return c != 0
        raise NotClosedForm("condition not constant: %r" % (v,))

    def lookup(self, call, fn):
        d = call.get("cdecl")
        if d is None or fn is None:
            return None
        return self.by_decl.get((id(fn.facts), d))

    # --- pointer cursors ----------------------------------------------------------------------------
    def ptr_of(self, x):
        """the pointer value denoted by x (a Ptr, or a location holding one), else None"""
        if isinstance(x, Ptr):
            return x
        if isinstance(x, Loc):
            v = self.store.get(x.key())
            if isinstance(v, Ptr):
                return v
        return None

    def deref(self, x):
        """object a pointer expression points to; locations that hold no pointer value stand for their pointee"""
        p = self.ptr_of(x)
        return p.target() if p is not None else x

    @staticmethod
    def _strip_casts(n):
        while isinstance(n, dict) and n.get("k") == "Cast" and n.get("e") is not None:
            n = n["e"]
        return n

    def as_ptr(self, x, node):
        """value to store into a pointer variable that is initialised / assigned from x (syntax: node)"""
        p = self.ptr_of(x)
        if p is not None:
            return p
        if isinstance(x, Loc):
            n0 = self._strip_casts(node)
            if isinstance(n0, dict) and n0.get("k") == "Un" and n0.get("op") == "&":
                return Ptr(x, None)
            return Ptr(x, Poly.const(0))      # array decay / pointer-valued accessor: first element of the array x stands for
        return x

    def ptr_arith(self, op, a0, b0, pa, pb, n):
        """pointer +/- integer, pointer difference and comparison within one array"""
        def as_p(x, other):
            p = self.ptr_of(x)
            if p is None and isinstance(x, Loc) and other is not None and other.base.key() == x.key():
                return Ptr(x, Poly.const(0))
            return p
        if op in ("+", "-") and pa is not None and pb is None and not (isinstance(b0, Loc) and b0.key() == pa.base.key()):
            d = self.num(b0)
            return pa.shift(d if op == "+" else -d)
        if op == "+" and pb is not None and pa is None:
            return pb.shift(self.num(a0))
        qa, qb = as_p(a0, pb), as_p(b0, pa)
        if qa is not None and qb is not None and qa.base.key() == qb.base.key() and qa.off is not None and qb.off is not None:
            if op == "-":
                return qa.off - qb.off
            if op in ("<", ">", "<=", ">=", "==", "!="):
                return self.arith(op, qa.off, qb.off, "bool", n, None)
        raise NotClosedForm("pointer expression %s %s %s not within one array (line %s)" % (a0, op, b0, n.get("l")))

    # --- entry ------------------------------------------------------------------------------------
    def run(self, fn, args=None, this="this", prefix="P"):
        """evaluate fn with input roots; args: list of Loc / values per parameter (default: roots
        <prefix>0, <prefix>1, ...).  The state persists, so several member functions of one object can be
        run in sequence (e.g. prepare, then map_point) with different root prefixes.
        returns the returned value (or None)"""
        env = {}
        if args is None:
            args = [Loc("%s%d" % (prefix, i)) for i in range(len(fn.params))]
        for p, a in zip(fn.params, args):
            if isinstance(a, Loc):
                env[p["d"]] = a
            else:
                t = self.new_temp("V")
                self.store[t.key()] = a
                env[p["d"]] = t
        if this is not None:
            env["this"] = this if isinstance(this, Loc) else Loc(this)
        self.inlined.add(fn.full)
        try:
            if fn.d.get("ctor") and "this" in env:
                self.run_inits(fn, env, env["this"])
            self.exec(fn.body, env, fn)
        except _Return as r:
            return r.v
        return None

    # --- statements -------------------------------------------------------------------------------
    def exec(self, n, env, fn):
        self.tick()
        if n is None:
            return
        k = n["k"]
        if k == "Block":
            for s in n["s"]:
                self.exec(s, env, fn)
        elif k == "Decl":
            for v in n["vars"]:
                self.declare(v, env, fn)
        elif k == "If":
            if n.get("init"):
                self.exec(n["init"], env, fn)
            if self.truth(self.eval(n["c"], env, fn)):
                self.exec(n.get("then"), env, fn)
            elif n.get("else") is not None:
                self.exec(n["else"], env, fn)
        elif k == "For":
            if n.get("init"):
                self.exec(n["init"], env, fn)
            while True:
                self.tick()
                if n.get("c") is not None and not self.truth(self.eval(n["c"], env, fn)):
                    break
                try:
                    self.exec(n["body"], env, fn)
                except _Break:
                    break
                except _Continue:
                    pass
                if n.get("inc") is not None:
                    self.eval(n["inc"], env, fn)
        elif k == "While":
            while self.truth(self.eval(n["c"], env, fn)):
                self.tick()
                try:
                    self.exec(n["body"], env, fn)
                except _Break:
                    break
                except _Continue:
                    pass
        elif k == "Do":
            while True:
                self.tick()
                try:
                    self.exec(n["body"], env, fn)
                except _Break:
                    break
                except _Continue:
                    pass
                if not self.truth(self.eval(n["c"], env, fn)):
                    break
        elif k == "Switch":
            self.exec_switch(n, env, fn)
        elif k == "ForRange":
            self.exec_for_range(n, env, fn)
        elif k in ("Case", "Default"):
            # a label reached by falling through from the previous case
            self.exec(n.get("s"), env, fn)
        elif k == "Null_":
            return
        elif k == "Break":
            raise _Break()
        elif k == "Continue":
            raise _Continue()
        elif k == "Return":
            raise _Return(self.eval(n["e"], env, fn) if n.get("e") is not None else None)
        elif k in ("Try", "OMP", "Throw"):
            raise NotClosedForm("control construct %s at %s:%s" % (k, fn.file, n.get("l")))
        else:
            self.eval(n, env, fn)

    def exec_switch(self, n, env, fn):
        """switch on a constant selector = the if-chain over its case labels (fall-through and break honoured)"""
        if n.get("init"):
            self.exec(n["init"], env, fn)
        sel = self.num(self.eval(n["c"], env, fn)).const_value()
        if sel is None:
            raise NotClosedForm("switch selector is not a constant (%s:%s)" % (fn.file, n.get("l")))
        body = n.get("body") or {}
        stmts = (body.get("s") or []) if body.get("k") == "Block" else [body]

        def labels(st):
            vals = []
            while isinstance(st, dict) and st.get("k") in ("Case", "Default"):
                vals.append("default" if st["k"] == "Default" else self.num(self.eval(st["v"], env, fn)).const_value())
                st = st.get("s")
            return vals, st
        start = dflt = None
        for i, st in enumerate(stmts):
            vals, _ = labels(st)
            if sel in [v for v in vals if v != "default"]:
                start = i
                break
            if "default" in vals and dflt is None:
                dflt = i
        if start is None:
            start = dflt
        if start is None:
            return
        try:
            for st in stmts[start:]:
                _, inner = labels(st)
                self.exec(inner, env, fn)
        except _Break:
            pass

    def exec_for_range(self, n, env, fn):
        """range-for over a built-in array of constant extent = the index loop over its elements"""
        rng = self.eval(n["range"], env, fn)
        ty = fn.ntype(n["range"]) or ""
        # built-in array: the extents are the bracket groups at the END of the type (`const Cls<A, B>::DataType[2]`, `int[3][2]`)
        m = re.search(r"((?:\[\d+\])+)\s*$", ty.replace("(&)", ""))
        if m:
            m = re.match(r"\[(\d+)\]", m.group(1))
        if m is None:
            m = re.search(r"^(?:const )?std::array<.*, (\d+)>(?: &| const &)?$", ty.strip())      # std::array<T, N> = T[N]
        if not isinstance(rng, Loc) or not m:
            raise NotClosedForm("range-for over %s, which is not a built-in array of constant extent (%s:%s)" % (ty or "?", fn.file, n.get("l")))
        var = n.get("var") or {}
        vty = fn.type(var["t"]) if var.get("t") is not None else ""
        for i in range(int(m.group(1))):
            self.tick()
            elem = rng.child(i)
            if var.get("ref") or vty.rstrip().endswith("&"):
                env[var["d"]] = elem
            else:
                self.frames += 1
                loc = Loc(("L", var.get("n"), self.frames))
                if self.frame_roots:
                    self.frame_roots[-1].append(loc.root)
                self.copy_agg(loc, elem, n.get("l"))
                env[var["d"]] = loc
            try:
                self.exec(n["body"], env, fn)
            except _Break:
                break
            except _Continue:
                pass

    def declare(self, v, env, fn):
        ty = fn.type(v["t"])
        init = v.get("init")
        if v.get("ref") or ty.rstrip().endswith("&"):
            x = self.eval(init, env, fn)
            if isinstance(x, list) and len(x) == 1:
                x = x[0]      # `const T& r{expr};`
            if not isinstance(x, Loc):
                t = self.new_temp("V")
                self.store[t.key()] = x
                x = t
            env[v["d"]] = x
            return
        self.frames += 1
        loc = Loc(("L", v["n"], self.frames))
        if self.frame_roots:
            self.frame_roots[-1].append(loc.root)
        env[v["d"]] = loc
        if init is None:
            return
        if init.get("k") in ("Construct", "TempObj"):
            self.construct(init, env, fn, loc)
            return
        x = self.eval(init, env, fn)
        if init.get("k") == "InitList" and isinstance(x, list):
            if len(x) == 1 and not ty.rstrip().endswith("]") and not isinstance(x[0], list) and "std::array<" not in ty:
                x = x[0]      # `T v{expr};`
                init = (init.get("a") or [init])[0]
            else:
                self._store_list(loc, x)
                return
        if is_ptr_type(ty):
            # a pointer cursor: the variable holds (array, offset); see class Ptr
            pv = self.as_ptr(x, init)
            if isinstance(pv, Ptr):
                self.store[loc.key()] = pv
                return
        if isinstance(x, Ptr):
            self.store[loc.key()] = x
            return
        if isinstance(x, Loc):
            # scalar or aggregate copy alike: written cells are snapshotted, unwritten input cells linked
            self.copy_agg(loc, x, v.get("l"))
            return
        self.write(loc, x, v.get("l"))

    def _store_list(self, loc, x):
        for i, e in enumerate(x):
            if isinstance(e, list):
                self._store_list(loc.child(i), e)
            else:
                self.write(loc.child(i), self.rv(e))

    # --- expressions ------------------------------------------------------------------------------
    def eval(self, n, env, fn):
        self.tick()
        k = n["k"]
        if k == "Int":
            return Poly.const(int(n["v"]))
        if k == "Float":
            txt = (n.get("text") or n["v"]).strip().rstrip("fFlLqQ")
            try:
                return Poly.const(Fraction(txt))
            except ValueError:
                raise NotClosedForm("floating literal %r" % txt)
        if k == "Bool":
            return Poly.const(1 if n["v"] else 0)
        if k == "Char":
            return Poly.const(int(n["v"]))
        if k == "Str":
            return n["v"]
        if k == "Null":
            return Poly.const(0)
        if k == "This":
            if "this" not in env:
                raise NotClosedForm("'this' without object")
            return env["this"]
        if k == "Ref":
            d = n.get("d")
            if d in env:
                return env[d]
            if "v" in n:
                return Poly.const(int(n["v"]))
            raise NotClosedForm("reference to %s (%s) which is not a local, parameter or integer constant (line %s)" % (n.get("qn") or n.get("n"), n.get("dk"), n.get("l")))
        if k == "Member":
            if "v" in n:
                return Poly.const(int(n["v"]))
            if not n.get("field"):
                # extent constants of the small dense algebra classes read through an object (`hess.l`, `a.m`): static
                # constexpr members whose value is the corresponding template argument
                mt = re.match(r"^FEAT::Tiny::(Vector|Matrix|Tensor3)<[^,<>]+((?:, -?\d+)+)>::(\w+)$", n.get("qn", ""))
                if mt:
                    ints = [int(x) for x in re.findall(r"-?\d+", mt.group(2))]
                    names = {"Vector": ["n", "s"], "Matrix": ["m", "n", "sm", "sn"], "Tensor3": ["l", "m", "n", "sl", "sm", "sn"]}[mt.group(1)]
                    if mt.group(3) in names:
                        i = names.index(mt.group(3))
                        half = len(names) // 2
                        if i < len(ints):
                            return Poly.const(ints[i])
                        if i - half < len(ints) and i >= half:
                            return Poly.const(ints[i - half])      # stride defaults to the extent
            b = n.get("b")
            base = self.eval(b, env, fn) if b is not None else env.get("this")
            if b is not None:
                base = self.deref(base)
            if not isinstance(base, Loc):
                raise NotClosedForm("member %s of a non-object (line %s)" % (n.get("n"), n.get("l")))
            if n.get("field") and self.TRANSPARENT.match(n.get("qn", "")):
                return base
            return base.child(n["n"])
        if k == "Index":
            base = self.eval(n["b"], env, fn)
            pb = self.ptr_of(base)
            if pb is not None:
                return pb.target(self.num(self.eval(n["idx"], env, fn)))
            if not isinstance(base, Loc):
                # `i[a]` / subscript with the pointer on the right
                other = self.eval(n["idx"], env, fn)
                po = self.ptr_of(other)
                if po is not None:
                    return po.target(self.num(base))
                raise NotClosedForm("subscript of a non-object (line %s)" % n.get("l"))
            return base.child(self.index_elem(self.eval(n["idx"], env, fn)))
        if k == "Cast":
            to = n.get("to", "")
            x = self.eval(n["e"], env, fn)
            if to == "void":
                return None
            if isinstance(x, Ptr):
                return x
            if isinstance(x, Loc) and x.key() not in self.store and not is_int_type(to):
                return x
            v = self.rv(x)
            if isinstance(v, Poly) and (is_int_type(to) or is_int_type(fn.ntype(n))):
                c = v.const_value()
                if c is not None and c.denominator != 1:
                    q = abs(c.numerator) // c.denominator
                    return Poly.const(q if c >= 0 else -q)
            return v
        if k == "Un":
            return self.unary(n, env, fn)
        if k == "Bin":
            return self.binary(n, env, fn)
        if k == "Assign":
            lv = self.eval(n["lhs"], env, fn)
            if not isinstance(lv, Loc):
                raise NotClosedForm("assignment to a non-lvalue (line %s)" % n.get("l"))
            r = self.eval(n["rhs"], env, fn)
            ty = fn.ntype(n)
            pl = self.ptr_of(lv)
            if pl is not None or (is_ptr_type(ty or "") and (self.ptr_of(r) is not None or self._is_addr_or_array(n["rhs"], r, fn))):
                # assignment to a pointer cursor
                if n["op"] == "=":
                    nv = self.as_ptr(r, n["rhs"])
                elif n["op"] in ("+=", "-=") and pl is not None:
                    d = self.num(r)
                    nv = pl.shift(d if n["op"] == "+=" else -d)
                else:
                    raise NotClosedForm("pointer assignment %s (line %s)" % (n["op"], n.get("l")))
                self.write(lv, nv, n.get("l"))
                return lv
            # a built-in assignment is always scalar (class types assign through operator=)
            rv = self.rv(r)
            if n["op"] != "=":
                rv = self.arith(n["op"][:-1], self.num(lv), self.num(rv), ty, n, fn)
            self.write(lv, rv, n.get("l"))
            return lv
        if k == "Cond":
            return self.eval(n["then"] if self.truth(self.eval(n["c"], env, fn)) else n["else"], env, fn)
        if k in ("Call", "MCall", "OpCall"):
            return self.call(n, env, fn)
        if k in ("Construct", "TempObj"):
            return self.construct(n, env, fn, None)
        if k == "InitList":
            a = n.get("a", [])
            ty = (fn.ntype(n) or "").replace("const ", "").strip()
            if ty.startswith("std::array<") and len(a) == 1 and a[0].get("k") == "InitList" and not (fn.ntype(a[0]) or "").replace("const ", "").strip().startswith("std::array<"):
                # std::array<T, N>{{ ... }}: the inner braces initialise the wrapped built-in array
                return self.eval(a[0], env, fn)
            return [self.eval(x, env, fn) for x in a]
        if k == "Lambda":
            # the closure object; its call operator is inlined at the call with the defining frame's variables visible
            return self.new_temp("LAMBDA")
        if k == "SizeOf" and "v" in n:
            return Poly.const(int(n["v"]))
        if k == "ValueInit":
            return Poly.const(0)
        raise NotClosedForm("unsupported construct %s at %s:%s" % (k, fn.file if fn else "?", n.get("l")))

    def index_elem(self, v):
        p = self.num(v)
        c = p.const_value()
        if c is not None:
            if c.denominator != 1:
                raise NotClosedForm("non-integer subscript %s" % c)
            return int(c)
        return "#" + str(p)

    def unary(self, n, env, fn):
        op = n["op"]
        if op in ("++", "--"):
            lv = self.eval(n["e"], env, fn)
            if not isinstance(lv, Loc):
                raise NotClosedForm("inc/dec of a non-lvalue")
            pl = self.ptr_of(lv)
            if pl is not None:
                self.write(lv, pl.shift(Poly.const(1 if op == "++" else -1)), n.get("l"))
                return pl if n.get("post") else lv
            old = self.num(lv)
            self.write(lv, old + (1 if op == "++" else -1), n.get("l"))
            return old if n.get("post") else lv
        if op == "&":
            e0 = self._strip_casts(n["e"])
            if isinstance(e0, dict) and e0.get("k") == "Index":
                # address of an array element: a cursor into that array
                base = self.eval(e0["b"], env, fn)
                idx = self.num(self.eval(e0["idx"], env, fn))
                pb = self.ptr_of(base)
                if pb is not None:
                    return pb.shift(idx)
                if isinstance(base, Loc):
                    return Ptr(base, idx)
        x = self.eval(n["e"], env, fn)
        if op == "*":
            return self.deref(x)
        if op == "&":
            return x
        if op == "-":
            return -self.num(x)
        if op == "+":
            return self.num(x)
        if op == "!":
            return Poly.const(0 if self.truth(x) else 1)
        if op == "~":
            return Poly.const(~self.num(x).as_int())
        raise NotClosedForm("unary operator " + op)

    def binary(self, n, env, fn):
        op = n["op"]
        if op == "&&":
            return Poly.const(1 if (self.truth(self.eval(n["lhs"], env, fn)) and self.truth(self.eval(n["rhs"], env, fn))) else 0)
        if op == "||":
            return Poly.const(1 if (self.truth(self.eval(n["lhs"], env, fn)) or self.truth(self.eval(n["rhs"], env, fn))) else 0)
        if op == ",":
            self.eval(n["lhs"], env, fn)
            return self.eval(n["rhs"], env, fn)
        a0 = self.eval(n["lhs"], env, fn)
        b0 = self.eval(n["rhs"], env, fn)
        pa, pb = self.ptr_of(a0), self.ptr_of(b0)
        if pa is None and pb is None and op in ("+", "-") and is_ptr_type(fn.ntype(n) or ""):
            # arithmetic on a decayed array / a pointer the evaluator did not see being formed
            if isinstance(a0, Loc) and self._is_addr_or_array(n["lhs"], a0, fn):
                pa = Ptr(a0, Poly.const(0))
            elif op == "+" and isinstance(b0, Loc) and self._is_addr_or_array(n["rhs"], b0, fn):
                pb = Ptr(b0, Poly.const(0))
        if pa is not None or pb is not None:
            return self.ptr_arith(op, a0, b0, pa, pb, n)
        a = self.num(a0)
        b = self.num(b0)
        return self.arith(op, a, b, fn.ntype(n), n, fn)

    def _is_addr_or_array(self, node, x, fn):
        """x (value of node) is a location used as a pointer: array / pointer typed expression or &object"""
        if not isinstance(x, Loc):
            return False
        n0 = self._strip_casts(node)
        if isinstance(n0, dict) and n0.get("k") == "Un" and n0.get("op") == "&":
            return True
        t = (fn.ntype(n0) or "").rstrip() if isinstance(n0, dict) and fn is not None else ""
        return is_ptr_type(t) or t.endswith("]")

    def arith(self, op, a, b, ty, n, fn):
        if op == "+":
            return a + b
        if op == "-":
            return a - b
        if op == "*":
            return a * b
        if op == "/":
            if is_int_type(ty):
                ai, bi = a.as_int(), b.as_int()
                if bi == 0:
                    raise NotClosedForm("integer division by zero")
                q = abs(ai) // abs(bi)
                return Poly.const(q if (ai >= 0) == (bi >= 0) else -q)
            if self.allow_recip and b.const_value() is None:
                for nm, pb in self.recips.items():
                    if pb == b:
                        return a * Poly.sym(nm)
                nm = "RECIP%d" % len(self.recips)
                self.recips[nm] = b
                return a * Poly.sym(nm)
            return a / b
        if op in ("<", ">", "<=", ">=", "==", "!="):
            d = (a - b).const_value()
            if d is None:
                raise NotClosedForm("comparison of non-constant values %s %s %s (line %s)" % (a, op, b, n.get("l")))
            r = {"<": d < 0, ">": d > 0, "<=": d <= 0, ">=": d >= 0, "==": d == 0, "!=": d != 0}[op]
            return Poly.const(1 if r else 0)
        if op in ("%", "<<", ">>", "&", "|", "^"):
            ai, bi = a.as_int(), b.as_int()
            if op == "%":
                if bi == 0:
                    raise NotClosedForm("modulo by zero")
                r = abs(ai) % abs(bi)
                return Poly.const(r if ai >= 0 else -r)
            return Poly.const({"<<": lambda: ai << bi, ">>": lambda: ai >> bi, "&": lambda: ai & bi,
                               "|": lambda: ai | bi, "^": lambda: ai ^ bi}[op]())
        raise NotClosedForm("binary operator " + op)

    # --- calls ------------------------------------------------------------------------------------
    MATH = {"FEAT::Math::sqr": lambda a: a * a, "FEAT::Math::cub": lambda a: a * a * a}

    def call(self, n, env, fn):
        callee = n.get("callee", "")
        k = n["k"]
        if callee in self.MATH and len(n.get("a", [])) == 1:
            return self.MATH[callee](self.num(self.eval(n["a"][0], env, fn)))
        if callee in ("FEAT::Math::sqrt", "std::sqrt"):
            a = self.num(self.eval(n["a"][0], env, fn))
            c = a.const_value()
            if c is not None and c >= 0:
                import math
                rn, rd = math.isqrt(c.numerator), math.isqrt(c.denominator)
                if rn * rn == c.numerator and rd * rd == c.denominator:
                    return Poly.const(Fraction(rn, rd))
            if self.allow_recip and c is not None and c >= 0:
                return Poly.sym("sqrt(%s)" % c)     # opaque algebraic constant
            raise NotClosedForm("square root of %s is not rational" % a)
        if callee in ("FEAT::Math::abs", "std::abs", "std::fabs") and len(n.get("a", [])) == 1:
            a = self.num(self.eval(n["a"][0], env, fn))
            c = a.const_value()
            if c is None:
                raise NotClosedForm("absolute value of the non-constant %s" % a)
            return Poly.const(abs(c))
        if callee in ("FEAT::assertion",):
            return None
        if callee.startswith("std::array<"):
            r = self.std_array(callee, n, env, fn)
            if r is not NotImplemented:
                return r
        if k == "Call" and strip_targs(callee) in ("FEAT::Math::min", "FEAT::Math::max") and len(n.get("a", [])) == 2:
            return self.std_algorithm("std::" + strip_targs(callee).rsplit("::", 1)[-1], n, env, fn)
        if k == "Call" and callee.startswith("std::"):
            r = self.std_algorithm(strip_targs(callee), n, env, fn)
            if r is not NotImplemented:
                return r
        args_n = list(n.get("a", []))
        this_loc = None
        if k == "MCall":
            o = n.get("obj")
            ov = self.eval(o, env, fn) if o is not None else env.get("this")
            if o is not None and n.get("arrow"):
                ov = self.deref(ov)
            if not isinstance(ov, Loc):
                raise NotClosedForm("method %s called on a non-object (line %s)" % (callee, n.get("l")))
            this_loc = ov
        target = self.lookup(n, fn)
        if self.no_inline is not None and re.search(self.no_inline, callee):
            target = None
        if k == "OpCall" and target is not None and target.cls and not target.d.get("static") and len(target.params) == len(args_n) - 1:
            ov = self.eval(args_n[0], env, fn)
            if not isinstance(ov, Loc):
                t = self.new_temp("V")
                self.store[t.key()] = ov
                ov = t
            this_loc = ov
            args_n = args_n[1:]
        if target is None:
            if k == "OpCall" and this_loc is None and args_n:
                # member operator without body: first argument is the object
                pn = n.get("pn", [])
                if len(pn) == len(args_n) - 1:
                    ov = self.eval(args_n[0], env, fn)
                    this_loc = ov if isinstance(ov, Loc) else None
                    args_n = args_n[1:]
            # calls that are not inlined see the pointee of a pointer cursor (the convention for pointers whose
            # formation was not observed)
            args = [self.deref(self.eval(a, env, fn)) for a in args_n]
            # scalars passed by value are passed as the value they have NOW (the variable may be advanced later, e.g. `++k`
            # at the end of a while body)
            pts = n.get("pt") or []
            if len(pts) == len(args):
                for i, (a, t) in enumerate(zip(args, pts)):
                    ty = fn.type(t)
                    if isinstance(a, Loc) and not is_ref_type(ty) and is_scalar_type(ty) and isinstance(self.store.get(a.key()), Poly):
                        args[i] = self.store[a.key()]
            # implicit (body-less) copy assignment of aggregates
            if callee.endswith("::operator=") and this_loc is not None and len(args) == 1 and isinstance(args[0], Loc):
                self.copy_agg(this_loc, args[0], n.get("l"))
                return this_loc
            if self.opaque is not None:
                r = self.opaque(self, n, callee, this_loc, args, fn)
                if r is not None:
                    return r
            raise NotClosedForm("callee %s has no body in the fact base and is not modelled (%s:%s)" % (callee, fn.file, n.get("l")))
        return self.inline(target, this_loc, args_n, env, fn, n)

    def std_array(self, callee, n, env, fn):
        """std::array<T, N> is the built-in array T[N]: operator[] / at / front / back address its cells, data / begin / end are
        cursors into it, size / max_size / empty fold, fill writes every cell"""
        m = re.search(r", (\d+)>::(operator\[\]|\w+)$", callee)
        if not m:
            return NotImplemented
        ext, name = int(m.group(1)), m.group(2)
        args = list(n.get("a", []))
        if n["k"] == "OpCall":
            if not args:
                return NotImplemented
            obj = self.deref(self.eval(args[0], env, fn))
            args = args[1:]
        elif n["k"] == "MCall":
            o = n.get("obj")
            obj = self.eval(o, env, fn) if o is not None else env.get("this")
            if o is not None and n.get("arrow"):
                obj = self.deref(obj)
        else:
            return NotImplemented
        if not isinstance(obj, Loc):
            return NotImplemented
        if name in ("operator[]", "at") and len(args) == 1:
            return obj.child(self.index_elem(self.eval(args[0], env, fn)))
        if name == "front" and not args:
            return obj.child(0)
        if name == "back" and not args:
            return obj.child(ext - 1)
        if name in ("data", "begin", "cbegin") and not args:
            return Ptr(obj, Poly.const(0))
        if name in ("end", "cend") and not args:
            return Ptr(obj, Poly.const(ext))
        if name in ("size", "max_size") and not args:
            return Poly.const(ext)
        if name == "empty" and not args:
            return Poly.const(1 if ext == 0 else 0)
        if name == "fill" and len(args) == 1:
            v = self.eval(args[0], env, fn)
            for i in range(ext):
                if isinstance(v, Loc):
                    self.copy_agg(obj.child(i), v, n.get("l"))
                else:
                    self.write(obj.child(i), self.rv(v), n.get("l"))
            return None
        return NotImplemented

    def _range(self, first, last, what):
        """[first, last) as (array Loc, lo, hi) with constant integer offsets"""
        pf, pl = self.ptr_of(first), self.ptr_of(last)
        if pf is None or pl is None or pf.base.key() != pl.base.key() or pf.off is None or pl.off is None:
            raise NotClosedForm("%s: the range is not delimited by two cursors into one array" % what)
        lo, hi = pf.off.const_value(), pl.off.const_value()
        if lo is None or hi is None or lo.denominator != 1 or hi.denominator != 1:
            raise NotClosedForm("%s over a range of non-constant extent [%s, %s)" % (what, pf.off, pl.off))
        return pf.base, int(lo), int(hi)

    def _cursor(self, x, node, fn, what):
        p = self.ptr_of(x)
        if p is None and isinstance(x, Loc) and self._is_addr_or_array(node, x, fn):
            p = Ptr(x, Poly.const(0))
        if p is None or p.off is None:
            raise NotClosedForm("%s: operand is not a cursor into an array" % what)
        return p

    def std_algorithm(self, name, n, env, fn):
        """the standard algorithms on pointer ranges of constant extent as the loops they stand for
        (fill, fill_n, copy, copy_n, copy_backward, iota, swap, min, max); NotImplemented: not one of them"""
        a = n.get("a", [])
        if name in ("std::min", "std::max") and len(a) == 2:
            x, y = self.num(self.eval(a[0], env, fn)), self.num(self.eval(a[1], env, fn))
            d = (x - y).const_value()
            if d is None:
                raise NotClosedForm("%s of the non-constant values %s, %s" % (name, x, y))
            return (x if d <= 0 else y) if name == "std::min" else (x if d >= 0 else y)
        if name == "std::swap" and len(a) == 2:
            x, y = self.eval(a[0], env, fn), self.eval(a[1], env, fn)
            if isinstance(x, Loc) and isinstance(y, Loc) and x.key() in self.store and y.key() in self.store:
                vx, vy = self.store[x.key()], self.store[y.key()]
                self.write(x, vy, n.get("l"))
                self.write(y, vx, n.get("l"))
                return None
            return NotImplemented
        if name not in ("std::fill", "std::fill_n", "std::copy", "std::copy_n", "std::copy_backward", "std::iota") or len(a) != 3:
            return NotImplemented
        v = [self.eval(x, env, fn) for x in a]
        if not any(self.ptr_of(x) is not None for x in v):
            return NotImplemented     # iterators of a class type: left to the caller's model
        line = n.get("l")
        if name in ("std::fill", "std::iota"):
            base, lo, hi = self._range(self._cursor(v[0], a[0], fn, name), self._cursor(v[1], a[1], fn, name), name)
            val = self.rv(v[2])
            for i in range(lo, hi):
                self.tick()
                self.write(base.child(i), val, line)
                if name == "std::iota":
                    val = self.num(val) + 1
            return None
        if name == "std::fill_n":
            p = self._cursor(v[0], a[0], fn, name)
            cnt = self.num(v[1]).as_int()
            val = self.rv(v[2])
            for i in range(cnt):
                self.write(p.target(Poly.const(i)), val, line)
            return p.shift(Poly.const(cnt))
        if name == "std::copy_n":
            src = self._cursor(v[0], a[0], fn, name)
            cnt = self.num(v[1]).as_int()
            dst = self._cursor(v[2], a[2], fn, name)
            vals = [self.rv(src.target(Poly.const(i))) for i in range(cnt)]
            for i, x in enumerate(vals):
                self.write(dst.target(Poly.const(i)), x, line)
            return dst.shift(Poly.const(cnt))
        base, lo, hi = self._range(self._cursor(v[0], a[0], fn, name), self._cursor(v[1], a[1], fn, name), name)
        dst = self._cursor(v[2], a[2], fn, name)
        vals = [self.rv(base.child(i)) for i in range(lo, hi)]
        if name == "std::copy":
            for i, x in enumerate(vals):
                self.write(dst.target(Poly.const(i)), x, line)
            return dst.shift(Poly.const(len(vals)))
        for i, x in enumerate(vals):     # copy_backward: dst is the END of the destination
            self.write(dst.target(Poly.const(i - len(vals))), x, line)
        return dst.shift(Poly.const(-len(vals)))

    def bind_args(self, target, args_n, env, fn, new_env):
        for p, a in zip(target.params, args_n):
            pt = target.type(p["t"])
            x = self.eval(a, env, fn)
            if is_ref_type(pt):
                if is_ptr_type(pt) and self.ptr_of(x) is not None:
                    # by-value pointer parameter: a private copy of the cursor
                    self.frames += 1
                    loc = Loc(("A", p["n"], self.frames))
                    if self.frame_roots:
                        self.frame_roots[-1].append(loc.root)
                    self.store[loc.key()] = self.ptr_of(x)
                    new_env[p["d"]] = loc
                    continue
                if not isinstance(x, Loc):
                    t = self.new_temp("V")
                    if isinstance(x, list):
                        self._store_list(t, x)
                    else:
                        self.store[t.key()] = x
                    x = t
                new_env[p["d"]] = x
            else:
                self.frames += 1
                loc = Loc(("A", p["n"], self.frames))
                if self.frame_roots:
                    self.frame_roots[-1].append(loc.root)
                if isinstance(x, Loc):
                    self.copy_agg(loc, x)
                elif isinstance(x, list):
                    self._store_list(loc, x)
                else:
                    self.store[loc.key()] = x
                new_env[p["d"]] = loc
        if len(args_n) < len(target.params):
            raise NotClosedForm("call of %s with defaulted arguments" % target.full)

    def inline(self, target, this_loc, args_n, env, fn, n):
        new_env = {}
        if "<lambda" in (target.qn or "") or "(lambda" in (target.qn or ""):
            # call operator of a local lambda: captured variables are the variables of the defining frame (capture by
            # copy is treated like capture by reference: exact as long as the captured variable is not changed between
            # the definition of the lambda and its call), `this` is the enclosing object
            new_env.update(env)
        elif this_loc is not None:
            new_env["this"] = this_loc
        self.frame_roots.append([])
        try:
            self.bind_args(target, args_n, env, fn, new_env)
            self.inlined.add(target.full)
            ret = None
            try:
                self.exec(target.body, new_env, target)
            except _Return as r:
                ret = r.v
            rt = target.type(target.d.get("ret")) if target.d.get("ret") is not None else ""
            if isinstance(ret, Loc):
                if is_ref_type(rt):
                    return ret
                if ret.key() in self.store:
                    return self.read(ret)
                # returned by value: snapshot
                t = self.new_temp("R")
                self.copy_agg(t, ret)
                return t
            return ret
        finally:
            self.drop_frame(self.frame_roots.pop())

    def construct(self, n, env, fn, loc):
        """constructor call; `loc` is the object being initialised (None: a temporary)"""
        if loc is None:
            loc = self.new_temp("T")
        target = self.lookup(n, fn)
        args_n = n.get("a", [])
        callee = n.get("callee", "")
        if target is None:
            args = [self.deref(self.eval(a, env, fn)) for a in args_n]
            if len(args) == 1 and isinstance(args[0], Loc):
                # implicit copy/move construction
                self.copy_agg(loc, args[0], n.get("l"))
                return loc
            if len(args) == 0:
                return loc
            if self.opaque is not None:
                r = self.opaque(self, n, callee, loc, args, fn)
                if r is not None:
                    return r
            raise NotClosedForm("constructor %s has no body in the fact base (%s:%s)" % (callee, fn.file, n.get("l")))
        new_env = {"this": loc}
        self.frame_roots.append([])
        try:
            self.bind_args(target, args_n, env, fn, new_env)
            self.inlined.add(target.full)
            self.run_inits(target, new_env, loc)
            try:
                self.exec(target.body, new_env, target)
            except _Return:
                pass
        finally:
            self.drop_frame(self.frame_roots.pop(), keep=loc.root)
        return loc

    def run_inits(self, target, new_env, loc):
        """constructor initialiser list (base subobjects share the location of the object)"""
        for ini in target.d.get("inits") or []:
            m = ini.get("member")
            e = ini.get("init")
            if e is None:
                continue
            if m is None:
                if ini.get("base") is not None and e.get("k") in ("Construct", "TempObj"):
                    self.construct(e, new_env, target, loc)
                    continue
                raise NotClosedForm("delegating initialiser in %s" % target.full)
            if e.get("k") in ("Construct", "TempObj"):
                self.construct(e, new_env, target, loc.child(m))
                continue
            x = self.eval(e, new_env, target)
            if isinstance(x, list):
                self._store_list(loc.child(m), x)
            elif isinstance(x, Loc):
                self.copy_agg(loc.child(m), x)
            else:
                self.write(loc.child(m), x)


# -------------------------------------------------------------------------------------------------
# convenience
# -------------------------------------------------------------------------------------------------

def leaf_name(root, *path):
    return loc_name(Loc(root, path))


def strip_targs(s):
    out = []
    depth = 0
    for ch in s:
        if ch == "<":
            depth += 1
        elif ch == ">":
            depth -= 1
        elif depth == 0:
            out.append(ch)
    return "".join(out)


# -------------------------------------------------------------------------------------------------
# abstract single-iteration execution of loops with symbolic bounds (cell / cubature / dof loops)
# -------------------------------------------------------------------------------------------------

class AbsSymEx(SymEx):
    """SymEx that, instead of refusing a loop whose bound is not a constant, executes its body ONCE for an
    arbitrary iteration: the loop variable becomes a fresh symbol (recorded in `loops` with its initial value
    and its bound), and values carried around the loop are symbols named after their location (`prev`).  The
    result is the normal form of ONE accumulation step `dst[i][j] = prev + f(i,j,k)`; nothing is claimed
    about iteration counts.  Calls that are not inlined (`inline_filter`) are recorded as events and return
    opaque input objects; objects handed to them by non-const reference become inputs (defined by the call).
    Branches on non-constant conditions are refused (NotClosedForm)."""

    def __init__(self, facts_list, opaque=None, inline_filter=None):
        super().__init__(facts_list, opaque=self._opaque_entry)
        self.user_opaque = opaque
        self.inline_filter = inline_filter
        self.loops = []        # {var: symbol name, init: value, cond: (op, lhs, rhs), line}
        self.events = []       # {n, callee, cfull, ccls, this, args, node, ret, fn}
        self.havoc = set()     # roots defined by opaque calls
        self.nsym = 0
        self.versioned = False # name the cells of call-defined objects <location>@<defining event>
        self.ver = {}          # root -> number of the event that defined it last
        self.loop_stack = []   # symbols of the abstract loops being executed
        self.hlinks = {}       # copies of (parts of) call-defined objects: (root, path) -> (source Loc, version)

    def fresh(self, base):
        self.nsym += 1
        return "%s#%d" % (base, self.nsym)

    def lookup(self, call, fn):
        t = super().lookup(call, fn)
        if t is not None and self.inline_filter is not None and not self.inline_filter(t, call):
            return None
        return t

    def _havoc_name(self, loc, ver=None):
        v = self.ver.get(loc.root) if ver is None else ver
        return loc_name(loc) + ("@%d" % v if self.versioned and v is not None else "")

    def copy_agg(self, dst, src, line=None):
        super().copy_agg(dst, src, line)
        n = len(dst.path)
        for k in [k for k in self.hlinks if k[0] == dst.root and k[1][:n] == dst.path]:
            del self.hlinks[k]
        if self.links.get(dst.key()) is None and (src.root in self.havoc or any(isinstance(e, str) and e.startswith("#") for e in src.path)) and not is_input_root(src.root):
            self.hlinks[dst.key()] = (src, self.ver.get(src.root))

    def _read_hlink(self, loc):
        p = loc.path
        for n in range(len(p), -1, -1):
            h = self.hlinks.get((loc.root, p[:n]))
            if h is not None:
                src = Loc(h[0].root, h[0].path + p[n:])
                return Poly.sym(self._havoc_name(src, h[1]))
        return None

    def read(self, loc):
        if self.hlinks and loc.key() not in self.store and is_input_root(loc.root):
            r = self._read_hlink(loc)
            if r is not None:
                return r
        try:
            return super().read(loc)
        except NotClosedForm:
            r = self._read_hlink(loc)
            if r is not None:
                return r
            if loc.root in self.havoc:
                return Poly.sym(loc_name(loc) + ("@%d" % self.ver[loc.root] if self.versioned and loc.root in self.ver else ""))
            if any(isinstance(e, str) and e.startswith("#") for e in loc.path):
                return Poly.sym(loc_name(loc))
            raise

    def sym_loc_name(self, loc):
        return loc_name(loc)

    # loops --------------------------------------------------------------------------------------
    def _abstract_iteration(self, n, env, fn, loopvar_nodes):
        cond = n.get("c")
        rec = {"line": n.get("l"), "fn": fn.full, "vars": [], "cond": None}
        # havoc the variables the increment modifies (the loop variables)
        # variables that advance together (each incremented exactly once per iteration, unconditionally): one induction
        # variable, the others are its value shifted by the difference of the initial values (`++j, ++p`: p = p0 + (j - j0))
        co = self._co_advancing(n)
        have = {vn.get("d") for vn in loopvar_nodes}
        if have & co:
            for part in (n.get("inc"), n.get("body")):
                for x in walk_nodes(part):
                    if x.get("k") == "Ref" and x.get("d") in co and x.get("d") not in have and x.get("dk") in ("local", "param"):
                        have.add(x.get("d"))
                        loopvar_nodes = list(loopvar_nodes) + [x]
        cond_refs = {x.get("d") for x in walk_nodes(cond) if x.get("k") == "Ref"} if cond is not None else set()
        loopvar_nodes = sorted(loopvar_nodes, key=lambda vn: 0 if (vn.get("d") in co and vn.get("d") in cond_refs) else 1)
        primary = None      # (symbol, initial value) of the induction variable of the co-advancing group
        for vn in loopvar_nodes:
            lv = self.eval(vn, env, fn)
            if isinstance(lv, Loc):
                pv = self.ptr_of(lv)
                if pv is not None and pv.off is not None:
                    init = pv.off
                else:
                    pv = None
                    try:
                        init = self.read(lv)
                    except NotClosedForm:
                        init = None
                if vn.get("d") in co and isinstance(init, Poly):
                    if primary is None:
                        primary = (None, init)      # symbol filled in below
                    else:
                        val = init + (Poly.sym(primary[0]) - primary[1])
                        self.store[lv.key()] = Ptr(pv.base, val) if pv is not None else val
                        rec.setdefault("derived", []).append({"loc": lv, "value": val})
                        continue
                s = self.fresh(vn.get("n", "it"))
                if primary is not None and primary[0] is None:
                    primary = (s, primary[1])
                if pv is not None:
                    # a pointer cursor advancing through one array = the index loop over its offset
                    self.store[lv.key()] = Ptr(pv.base, Poly.sym(s))
                    rec["vars"].append({"sym": s, "init": init, "loc": lv, "array": pv.base, "dir": self._step_dir(n, vn.get("d"))})
                    continue
                self.store[lv.key()] = Poly.sym(s)
                rec["vars"].append({"sym": s, "init": init, "loc": lv, "dir": self._step_dir(n, vn.get("d"))})
        if cond is not None and cond.get("k") == "Bin":
            try:
                rec["cond"] = self._norm_cond(cond["op"], self.rv(self.eval(cond["lhs"], env, fn)), self.rv(self.eval(cond["rhs"], env, fn)), rec)
            except NotClosedForm:
                rec["cond"] = None
        self.loops.append(rec)
        self.loop_stack.append([v["sym"] for v in rec["vars"]])
        try:
            self.exec(n["body"], env, fn)
        except (_Break, _Continue):
            pass
        finally:
            self.loop_stack.pop()

    @staticmethod
    def _co_advancing(n):
        """declaration ids of the variables that are incremented by one exactly once per iteration and unconditionally:
        in the increment clause of a for loop, or by a top-level `++x;` statement of the body, and nowhere else"""
        def incs(part, top_only):
            out = []
            if part is None:
                return out
            if top_only:
                items = (part.get("s") or []) if part.get("k") == "Block" else [part]
            else:
                items, st = [], [part]
                while st:
                    x = st.pop()
                    if x.get("k") == "Bin" and x.get("op") == ",":
                        st.extend([x["lhs"], x["rhs"]])
                    else:
                        items.append(x)
            for x in items:
                if not isinstance(x, dict):
                    continue
                t = None
                if x.get("k") == "Un" and x.get("op") == "++":
                    t = x.get("e")
                elif x.get("k") == "Assign" and x.get("op") == "+=" and (x.get("rhs") or {}).get("k") == "Int" and int(x["rhs"].get("v", 0)) == 1:
                    t = x.get("lhs")
                if t is not None and t.get("k") == "Ref":
                    out.append(t.get("d"))
            return out
        cand = incs(n.get("inc"), False) + incs(n.get("body"), True)
        # every modification anywhere in the loop
        mods = {}
        for part in (n.get("inc"), n.get("c"), n.get("body")):
            for x in walk_nodes(part):
                t = None
                if x.get("k") == "Un" and x.get("op") in ("++", "--"):
                    t = x.get("e")
                elif x.get("k") == "Assign":
                    t = x.get("lhs")
                if t is not None and t.get("k") == "Ref":
                    mods[t.get("d")] = mods.get(t.get("d"), 0) + 1
        # a `continue` skips the top-level increments of the body
        has_continue = any(x.get("k") == "Continue" for x in walk_nodes(n.get("body")))
        body_incs = set(incs(n.get("body"), True))
        return {d for d in cand if cand.count(d) == 1 and mods.get(d) == 1 and not (has_continue and d in body_incs)}

    @staticmethod
    def _step_dir(n, d):
        """+1 / -1 if every modification of variable d in the loop (increment clause, condition, body) is ++ / --
        (or += / -= a positive literal), else None"""
        dirs = set()
        for part in (n.get("inc"), n.get("c"), n.get("body")):
            for x in walk_nodes(part):
                t = None
                if x.get("k") == "Un" and x.get("op") in ("++", "--"):
                    t, dr = x.get("e"), (1 if x["op"] == "++" else -1)
                elif x.get("k") == "Assign":
                    t = x.get("lhs")
                    r = x.get("rhs") or {}
                    dr = None
                    if x.get("op") in ("+=", "-=") and r.get("k") == "Int" and int(r.get("v", 0)) > 0:
                        dr = 1 if x["op"] == "+=" else -1
                if t is not None and t.get("k") == "Ref" and t.get("d") == d:
                    dirs.add(dr)
        return dirs.pop() if len(dirs) == 1 else None

    def _norm_cond(self, op, l, r, rec):
        """loop condition in the normal form (op, loop variable side, bound side): cursors into one array are
        compared by their offsets, the loop variable is brought to the left (`n > k` = `k < n`), and `k != n` of
        an up-counting variable is the range test `k < n`"""
        pl, pr = self.ptr_of(l), self.ptr_of(r)
        if pl is not None or pr is not None:
            if pl is None and isinstance(l, Loc) and l.key() == pr.base.key():
                pl = Ptr(l, Poly.const(0))
            if pr is None and isinstance(r, Loc) and r.key() == pl.base.key():
                pr = Ptr(r, Poly.const(0))
            if pl is None or pr is None or pl.base.key() != pr.base.key() or pl.off is None or pr.off is None:
                return None
            l, r = pl.off, pr.off
        syms = {v["sym"]: v for v in rec["vars"]}

        def mine(x):
            return isinstance(x, Poly) and bool(x.symbols() & set(syms))
        if not mine(l) and mine(r):
            l, r = r, l
            op = {"<": ">", ">": "<", "<=": ">=", ">=": "<=", "==": "==", "!=": "!="}.get(op, op)
        if op == "!=" and isinstance(l, Poly) and l.single_symbol() in syms and syms[l.single_symbol()].get("dir") == 1:
            op = "<"
        return (op, l, r)

    @staticmethod
    def _loop_vars(n):
        """loop without an increment clause: the scalar variables that occur in the condition and are modified
        (++/--/assignment) in the condition or the body are the loop variables"""
        cond_refs = {}
        for x in walk_nodes(n.get("c")):
            if x.get("k") == "Ref" and x.get("dk") in ("local", "param"):
                cond_refs[x.get("d")] = x
        out, seen = [], set()
        for part in (n.get("c"), n.get("body")):
            for x in walk_nodes(part):
                t = None
                if x.get("k") == "Un" and x.get("op") in ("++", "--"):
                    t = x.get("e")
                elif x.get("k") == "Assign":
                    t = x.get("lhs")
                if t is not None and t.get("k") == "Ref" and t.get("d") in cond_refs and t.get("d") not in seen:
                    seen.add(t.get("d"))
                    out.append(cond_refs[t.get("d")])
        return out

    @staticmethod
    def _inc_targets(inc):
        out = []
        if inc is None:
            return out
        st = [inc]
        while st:
            x = st.pop()
            if x.get("k") == "Un" and x.get("op") in ("++", "--"):
                out.append(x["e"])
            elif x.get("k") == "Assign":
                out.append(x["lhs"])
            elif x.get("k") == "Bin" and x.get("op") == ",":
                st.extend([x["lhs"], x["rhs"]])
            elif x.get("k") == "OpCall" and x.get("op") in ("++", "--") and x.get("a"):
                out.append(x["a"][0])
        return out

    def exec(self, n, env, fn):
        if n is not None and n.get("k") == "For":
            self.tick()
            if n.get("init"):
                SymEx.exec(self, n["init"], env, fn)
            try:
                c = n.get("c") is None or self.truth(self.eval(n["c"], env, fn))
                constant = True
            except NotClosedForm:
                constant = False
            if not constant:
                self._abstract_iteration(n, env, fn, self._inc_targets(n.get("inc")) or self._loop_vars(n))
                return
            # constant bound: unroll (first condition value already known)
            while c:
                self.tick()
                try:
                    self.exec(n["body"], env, fn)
                except _Break:
                    break
                except _Continue:
                    pass
                if n.get("inc") is not None:
                    self.eval(n["inc"], env, fn)
                c = n.get("c") is None or self.truth(self.eval(n["c"], env, fn))
            return
        if n is not None and n.get("k") in ("While", "Do"):
            # (a do-while whose condition is not a constant on entry is abstracted like the while loop: one arbitrary iteration)
            try:
                c = self.truth(self.eval(n["c"], env, fn))
            except NotClosedForm:
                self._abstract_iteration(n, env, fn, self._loop_vars(n))
                return
            return SymEx.exec(self, n, env, fn)
        return SymEx.exec(self, n, env, fn)

    # opaque calls --------------------------------------------------------------------------------
    def record_event(self, n, callee, this_loc, args, fn, kind="call"):
        ev = {"n": len(self.events), "kind": kind, "callee": callee, "cfull": n.get("cfull", ""), "ccls": n.get("ccls", ""),
              "this": this_loc, "args": args, "node": n, "fn": fn, "pn": n.get("pn", []), "line": n.get("l"),
              "loops": [s for l in self.loop_stack for s in l], "in_versions": {}, "contents": {}}
        for a in list(args) + ([this_loc] if this_loc is not None else []):
            if isinstance(a, Loc):
                if a.root in self.ver:
                    ev["in_versions"][loc_name(Loc(a.root))] = self.ver[a.root]
                syms = set()
                ents = list(self.sub_entries(a))
                if len(ents) <= 16:
                    ev.setdefault("snap", {})[loc_name(a)] = {rest: v for rest, v in ents}
                for rest, v in ents:
                    if isinstance(v, Poly):
                        syms |= v.symbols()
                for m in range(len(a.path), -1, -1):
                    l2 = self.links.get((a.root, a.path[:m]))
                    if l2 is not None:
                        syms.add(loc_name(Loc(l2.root, l2.path + a.path[m:])))
                        break
                ev["contents"][loc_name(a)] = syms
        self.events.append(ev)
        return ev

    def default_opaque(self, n, callee, this_loc, args, fn):
        """generic model of a call that is not inlined: record it, objects passed by non-const reference
        (and the receiver of a non-const method) are defined by the call; the result is an opaque input"""
        ev = self.record_event(n, callee, this_loc, args, fn, "construct" if n["k"] in ("Construct", "TempObj") else "call")
        pts = n.get("pt", [])
        for a, t in zip(args, pts):
            ty = fn.type(t)
            if isinstance(a, Loc) and is_ref_type(ty) and not ty.lstrip().startswith("const ") and not is_input_root(a.root):
                self.havoc.add(a.root)
                self.ver[a.root] = ev["n"]
                self._forget(a)
        if n["k"] in ("Construct", "TempObj"):
            if this_loc is not None and not is_input_root(this_loc.root):
                self.havoc.add(this_loc.root)
                self.ver[this_loc.root] = ev["n"]
            ev["ret"] = this_loc
            return this_loc
        if this_loc is not None and not n.get("cconst") and not is_input_root(this_loc.root):
            self.havoc.add(this_loc.root)
            self.ver[this_loc.root] = ev["n"]
            self._forget(this_loc)
        r = Loc("CALL%d:%s" % (ev["n"], callee.rsplit("::", 1)[-1]))
        ev["ret"] = r
        return r

    def _forget(self, loc):
        d = self.store.root(loc.root)
        n = len(loc.path)
        for p in [p for p in d if p[:n] == loc.path]:
            del d[p]

    def _opaque_entry(self, sx, n, callee, this_loc, args, fn):
        if self.user_opaque is not None:
            r = self.user_opaque(self, n, callee, this_loc, args, fn)
            if r is not None:
                return r
        return self.default_opaque(n, callee, this_loc, args, fn)

    def construct(self, n, env, fn, loc):
        target = self.lookup(n, fn)
        if target is None:
            if loc is None:
                loc = self.new_temp("T")
            args = [self.deref(self.eval(a, env, fn)) for a in n.get("a", [])]
            # implicit (body-less) copy construction keeps its aggregate semantics
            if len(args) == 1 and isinstance(args[0], Loc) and SymEx.lookup(self, n, fn) is None and (n.get("copy") or n.get("pn") == [""]):
                self.copy_agg(loc, args[0], n.get("l"))
                return loc
            return self._opaque_entry(self, n, n.get("callee", ""), loc, args, fn)
        return SymEx.construct(self, n, env, fn, loc)


# -------------------------------------------------------------------------------------------------
# accept/reject predicates (engine E13 on top of the symbolic evaluator)
# -------------------------------------------------------------------------------------------------

class BoolF:
    """symbolic truth value: a formula  ("const", b) | ("atom", strict, Poly)  meaning Poly > 0 / >= 0 |
    ("and"|"or", a, b) | ("not", a)"""
    __slots__ = ("f",)

    def __init__(self, f):
        self.f = f

    def __repr__(self):
        return "BoolF%r" % (self.f,)


class _PathEx(SymEx):
    """one execution path of a predicate: comparisons of input data yield formulas (BoolF) instead of being refused;
    wherever the control flow needs the truth of a formula (if / ?: / loop conditions, at any inlining depth) the path
    takes the next decision of its oracle and records the assumption."""

    def __init__(self, facts_list, opaque, decisions, accept=None):
        super().__init__(facts_list, opaque=opaque)
        self.decisions = list(decisions)
        self.taken = []
        self.path = []
        self.abs_args = {}
        self.accept = accept      # callable(call node, callee, this_loc, args) -> True for the call that means "accepted"
        self.accepted = False
        self.nabs = 0
        self.in_abs = False
        self.elem_root = "ELEM"

    def exec(self, n, env, fn):
        # acceptance mode: a loop whose bound is not a constant (the loop over the candidates) is entered for ONE arbitrary
        # iteration: the loop variable becomes a symbol, the body is executed once, the accept call tells the verdict
        if self.accept is not None and not self.in_abs and n is not None and n.get("k") in ("For", "While") and len(self.frame_roots) == 0:
            if n.get("init"):
                SymEx.exec(self, n["init"], env, fn)
            try:
                c = n.get("c") is None or SymEx.truth(self, self.rv(self.eval(n["c"], env, fn)))
                constant = True
            except NotClosedForm:
                constant = False
            if not constant:
                for vn in AbsSymEx._inc_targets(n.get("inc")) or AbsSymEx._loop_vars(n):
                    lv = self.eval(vn, env, fn)
                    if isinstance(lv, Loc):
                        self.nabs += 1
                        self.store[lv.key()] = Poly.sym("%s#%d" % (vn.get("n", "it"), self.nabs))
                self.in_abs = True      # only the OUTERMOST data dependent loop is the candidate loop; loops inside run on decisions
                try:
                    self.exec(n["body"], env, fn)
                except (_Break, _Continue):
                    pass
                finally:
                    self.in_abs = False
                return
            if n.get("k") == "For":
                # constant bound: unroll (the initialiser has been executed already)
                while c:
                    self.tick()
                    try:
                        self.exec(n["body"], env, fn)
                    except _Break:
                        break
                    except _Continue:
                        pass
                    if n.get("inc") is not None:
                        self.eval(n["inc"], env, fn)
                    c = n.get("c") is None or self.truth(self.eval(n["c"], env, fn))
                return
        if self.accept is not None and not self.in_abs and n is not None and n.get("k") == "ForRange" and len(self.frame_roots) == 0:
            # range-for over the candidates (a container of unknown length): one arbitrary element
            ty = fn.ntype(n["range"]) or ""
            if not re.search(r"\[(\d+)\]$", ty.strip()) and "std::array<" not in ty:
                var = n.get("var") or {}
                env[var["d"]] = Loc(self.elem_root)
                self.in_abs = True
                try:
                    self.exec(n["body"], env, fn)
                except (_Break, _Continue):
                    pass
                finally:
                    self.in_abs = False
                return
        return super().exec(n, env, fn)

    # --- formulas -------------------------------------------------------------------------------------
    def as_formula(self, v):
        v = self.rv(v)
        if isinstance(v, BoolF):
            return v.f
        if isinstance(v, bool):
            return ("const", v)
        if isinstance(v, Poly):
            c = v.const_value()
            if c is not None:
                return ("const", c != 0)
            # a number used as a truth value: v != 0
            return ("or", ("atom", True, v), ("atom", True, -v))
        raise NotClosedForm("not a truth value: %r" % (v,))

    @staticmethod
    def _wrap(f):
        return Poly.const(1 if f[1] else 0) if f[0] == "const" else BoolF(f)

    def _expand_abs(self, strict, d):
        """atom  d > 0 / d >= 0  with the |x| symbols of d eliminated:  e - k|x| > 0  =  e - kx > 0 and e + kx > 0 (k > 0),
        e + k|x| > 0  =  e + kx > 0 or e - kx > 0"""
        for nm in sorted(d.symbols()):
            if nm in self.abs_args:
                k = d.diff(nm).const_value()
                if k is None or d.degree({nm}) != 1:
                    raise NotClosedForm("absolute value occurs non-linearly in the comparison %s" % d)
                x = self.abs_args[nm]
                plus, minus = d.subs({nm: x}), d.subs({nm: -x})
                a, b = self._expand_abs(strict, plus), self._expand_abs(strict, minus)
                return ("and", a, b) if k < 0 else ("or", a, b)
        c = d.const_value()
        if c is not None:
            return ("const", c > 0 if strict else c >= 0)
        return ("atom", strict, d)

    def compare(self, op, a, b):
        d = b - a
        if op == "<":
            return self._expand_abs(True, d)
        if op == "<=":
            return self._expand_abs(False, d)
        if op == ">":
            return self._expand_abs(True, -d)
        if op == ">=":
            return self._expand_abs(False, -d)
        if op == "==":
            return self._and(self._expand_abs(False, d), self._expand_abs(False, -d))
        return self._or(self._expand_abs(True, d), self._expand_abs(True, -d))

    @staticmethod
    def _and(a, b):
        if a[0] == "const":
            return b if a[1] else a
        if b[0] == "const":
            return a if b[1] else b
        return ("and", a, b)

    @staticmethod
    def _or(a, b):
        if a[0] == "const":
            return a if a[1] else b
        if b[0] == "const":
            return b if b[1] else a
        return ("or", a, b)

    @staticmethod
    def _not(a):
        if a[0] == "const":
            return ("const", not a[1])
        if a[0] == "not":
            return a[1]
        return ("not", a)

    # --- evaluation -----------------------------------------------------------------------------------
    def binary(self, n, env, fn):
        op = n["op"]
        if op in ("&&", "||"):
            # operands of a predicate are side-effect free: both sides as formulas (no path split)
            a = self.as_formula(self.eval(n["lhs"], env, fn))
            if a[0] == "const" and a[1] == (op == "||"):
                return self._wrap(a)
            b = self.as_formula(self.eval(n["rhs"], env, fn))
            return self._wrap(self._and(a, b) if op == "&&" else self._or(a, b))
        if op in ("<", ">", "<=", ">=", "==", "!=", "&", "|", "^"):
            a0, b0 = self.eval(n["lhs"], env, fn), self.eval(n["rhs"], env, fn)
            if self.ptr_of(a0) is None and self.ptr_of(b0) is None:
                av, bv = self.rv(a0), self.rv(b0)
                if isinstance(av, BoolF) or isinstance(bv, BoolF):
                    fa, fb = self.as_formula(av), self.as_formula(bv)
                    if op == "&":
                        return self._wrap(self._and(fa, fb))
                    if op == "|":
                        return self._wrap(self._or(fa, fb))
                    eq = self._or(self._and(fa, fb), self._and(self._not(fa), self._not(fb)))
                    if op == "==":
                        return self._wrap(eq)
                    if op in ("!=", "^"):
                        return self._wrap(self._not(eq))
                    raise NotClosedForm("ordering comparison of truth values (line %s)" % n.get("l"))
                if op in ("<", ">", "<=", ">=", "==", "!=") and isinstance(av, Poly) and isinstance(bv, Poly):
                    return self._wrap(self.compare(op, av, bv))
        return super().binary(n, env, fn)

    def unary(self, n, env, fn):
        if n["op"] == "!":
            return self._wrap(self._not(self.as_formula(self.eval(n["e"], env, fn))))
        return super().unary(n, env, fn)

    def eval(self, n, env, fn):
        k = n["k"]
        if k == "Assign" and n.get("op") in ("&=", "|=", "^="):
            lv = self.eval(n["lhs"], env, fn)
            cur, r = self.rv(lv), self.rv(self.eval(n["rhs"], env, fn))
            if isinstance(lv, Loc) and (isinstance(cur, BoolF) or isinstance(r, BoolF)):
                fa, fb = self.as_formula(cur), self.as_formula(r)
                if n["op"] == "&=":
                    f = self._and(fa, fb)
                elif n["op"] == "|=":
                    f = self._or(fa, fb)
                else:
                    f = self._not(self._or(self._and(fa, fb), self._and(self._not(fa), self._not(fb))))
                self.write(lv, self._wrap(f), n.get("l"))
                return lv
        if k == "Cond":
            c = self.as_formula(self.eval(n["c"], env, fn))
            if c[0] != "const":
                # a ?: of two truth values is a formula; of anything else a path split
                try:
                    t = self.rv(self.eval(n["then"], env, fn))
                    e = self.rv(self.eval(n["else"], env, fn))
                    if all(isinstance(x, BoolF) or (isinstance(x, Poly) and x.const_value() in (0, 1)) for x in (t, e)) and any(isinstance(x, BoolF) for x in (t, e)):
                        return self._wrap(self._or(self._and(c, self.as_formula(t)), self._and(self._not(c), self.as_formula(e))))
                except NotClosedForm:
                    pass
                return self.eval(n["then"] if self.decide(c) else n["else"], env, fn)
        return super().eval(n, env, fn)

    def call(self, n, env, fn):
        callee = n.get("callee", "")
        if self.accept is not None and n.get("k") == "MCall":
            o = n.get("obj")
            ov = self.eval(o, env, fn) if o is not None else env.get("this")
            if self.accept(n, callee, ov if isinstance(ov, Loc) else None):
                self.accepted = True
                return Poly.const(0)
        if callee in ("FEAT::Math::abs", "std::abs", "std::fabs") and len(n.get("a", [])) == 1:
            a = self.num(self.eval(n["a"][0], env, fn))
            c = a.const_value()
            if c is not None:
                return Poly.const(abs(c))
            for nm, x in self.abs_args.items():
                if x == a or x == -a:
                    return Poly.sym(nm)
            nm = "ABS%d" % len(self.abs_args)
            self.abs_args[nm] = a
            return Poly.sym(nm)
        return super().call(n, env, fn)

    def decide(self, f):
        # a condition decided before on this path keeps its value (`is_in` tested by the loop header and again after the loop)
        for g in self.path:
            if g == f:
                return True
            if g == self._not(f) or self._not(g) == f:
                return False
        i = len(self.taken)
        d = self.decisions[i] if i < len(self.decisions) else True
        self.taken.append(d)
        if len(self.taken) > 64:
            raise NotClosedForm("more than 64 data dependent branches on one path")
        self.path.append(f if d else self._not(f))
        return d

    def truth(self, v):
        v = self.rv(v)
        if isinstance(v, BoolF):
            return self.decide(v.f)
        if isinstance(v, Poly) and v.const_value() is None:
            return self.decide(self.as_formula(v))
        return super().truth(v)


class PredEx:
    """Extracts the accepted set of a bool predicate over its inputs by enumerating its execution paths
    (constant-bound loops unrolled; early returns, nested ifs, continue, ?:, bool locals and accumulators, helper
    predicates inlined from the fact base, |x| comparisons): the accepted set is the union over the paths that do not
    return false of (branch assumptions AND returned formula).  `atoms()` hands it out as a conjunction of atoms
    L > 0 / L >= 0  (L a polynomial in the inputs); a predicate whose accepted set is not a single conjunction (several
    accepting paths, disjunctive assumptions) is refused (NotClosedForm), never guessed."""

    MAX_PATHS = 512

    def __init__(self, facts_list, opaque=None, accept=None, elem_root="ELEM"):
        self.elem_root = elem_root      # acceptance mode: name of the arbitrary element of a range-for over the candidates
        self.facts_list = facts_list
        self.opaque = opaque
        self.accept = accept    # acceptance mode: the predicate is "the call accept(...) is reached in one arbitrary iteration of
                                # the candidate loop" instead of "the function returns true"
        self.accepting = []     # [(list of assumed formulas, returned formula)]
        self.npaths = 0

    def run(self, fn, args=None, this="this", prefix="P"):
        todo = [[]]
        self.accepting = []
        self.npaths = 0
        while todo:
            dec = todo.pop()
            px = _PathEx(self.facts_list, self.opaque, dec, accept=self.accept)
            px.elem_root = self.elem_root
            ret = px.run(fn, args=args, this=this, prefix=prefix)
            self.npaths += 1
            if self.npaths > self.MAX_PATHS:
                raise NotClosedForm("more than %d execution paths" % self.MAX_PATHS)
            for i in range(len(dec), len(px.taken)):
                todo.append(px.taken[:i] + [False])
            if self.accept is not None:
                ret = Poly.const(1 if px.accepted else 0)
            if ret is None:
                raise NotClosedForm("a path of the predicate ends without returning a value")
            f = px.as_formula(ret)
            if f[0] == "const" and not f[1]:
                continue
            self.accepting.append((px.path, f))
        return None

    def atoms(self):
        """accepted set as a list of (strict, Poly) atoms (conjunction); refuses disjunctions"""
        if not self.accepting:
            return [(False, Poly.const(-1))]        # nothing is accepted
        if len(self.accepting) > 1:
            raise NotClosedForm("the accepted set is a union of %d path sets, not a conjunction of inequalities" % len(self.accepting))
        out = []

        def nnf(f, neg):
            t = f[0]
            if t == "const":
                return ("const", f[1] != neg)
            if t == "not":
                return nnf(f[1], not neg)
            if t == "atom":
                return ("atom", not f[1], -f[2]) if neg else f
            a, b = nnf(f[1], neg), nnf(f[2], neg)
            op = t if not neg else ("or" if t == "and" else "and")
            return (op, a, b)

        def collect(f):
            if f[0] == "const":
                if not f[1]:
                    out.append((False, Poly.const(-1)))
                return
            if f[0] == "atom":
                out.append((f[1], f[2]))
                return
            if f[0] == "and":
                collect(f[1])
                collect(f[2])
                return
            raise NotClosedForm("the accepted set is not a conjunction of inequalities")
        path, ret = self.accepting[0]
        for c in list(path) + [ret]:
            collect(nnf(c, False))
        # the same inequality assumed on several iterations / paths is one atom
        seen, uniq = set(), []
        for st, L in out:
            key = (st, frozenset(L.t.items()))
            if key not in seen:
                seen.add(key)
                uniq.append((st, L))
        return uniq
