"""pcmodel: row-sweep extraction for the triangular kernels of the stationary preconditioners (C08).

A *row sweep* is an outer counting loop over the rows i of a CSR-like structure whose body
accumulates, in one inner loop over a segment of row i, products  a_k * out[c_k]  and then defines
out[i].  SOR/SSOR `_apply_intern` (CSR, BCSR) and ILU `solve_il/solve_du` (scalar, blocked) are of
this form.  The extractor resolves the pointer locals to their array roles (accessor names of the
matrix / member names of the ILU core, parameter positions of the vectors), reads off direction,
segment and stopping guard of the inner loop, and evaluates the row update symbolically (sympy,
non-commutative symbols for block-valued quantities).
"""
import sympy

from mgfacts import FnView, strip, walk, kids
from featlib import render

FLIP = {"<": ">", ">": "<", "<=": ">=", ">=": "<=", "!=": "!=", "==": "=="}


class NotRecognised(Exception):
    pass


class SweepView(FnView):
    """FnView + array roles.  roles: decl id -> role string"""

    def __init__(self, fn, out_param, in_param, blocked):
        super().__init__(fn)
        self.blocked = blocked
        self.out_d = out_param
        self.in_d = in_param
        self.comm = not blocked
        S = lambda n, c=None: sympy.Symbol(n, commutative=self.comm if c is None else c)
        self.sym = {"b": S("b"), "x": S("x"), "S": S("S"), "Dinv": S("Dinv"), "a": S("a"), "xj": S("xj"),
                    "w": sympy.Symbol("w", commutative=True), "bj": S("bj"), "Dg": S("Dg")}

    # ---- array roles ------------------------------------------------------------------------------
    def array_role(self, n, depth=0):
        """role of a pointer expression: 'out' | 'in' | 'val' | 'col_ind' | 'row_ptr' | 'm:<field>' | None"""
        n = strip(n)
        if depth > 8:
            return None
        k = n.get("k")
        if k == "Ref":
            if n.get("dk") == "param":
                if n["d"] == self.out_d:
                    return "out"
                if n["d"] == self.in_d:
                    return "in"
                return None
            if n.get("dk") == "local":
                v = self.locals.get(n["d"])
                if v is None or self.writes.get(n["d"]) or v.get("init") is None:
                    return None
                return self.array_role(v["init"], depth + 1)
        if k == "Cond":
            a, b = strip(n["then"]), strip(n["else"])
            if a.get("k") == "Null":
                return self.array_role(b, depth + 1)
            if b.get("k") == "Null":
                return self.array_role(a, depth + 1)
            return None
        if k == "MCall":
            nm = n.get("n")
            o = strip(n.get("obj") or {})
            if nm == "elements":
                r = self.array_role(o, depth + 1)
                return r if r in ("out", "in") else None
            if nm in ("val", "col_ind", "row_ptr") and o.get("k") == "Ref" and o.get("dk") == "param":
                return nm
            if nm in ("val", "col_ind", "row_ptr") and o.get("k") == "Member":
                return nm
            if nm == "data" and o.get("k") == "Member":
                return "m:" + o.get("n", "")
        return None

    def extent_role(self, n):
        """'rows' for matrix.rows() / this->_n"""
        n = self.value(n)
        if n.get("k") == "MCall" and n.get("n") == "rows":
            return "rows"
        if n.get("k") == "Member" and n.get("n") == "_n":
            return "rows"
        return None


def counting_loop(view, loop):
    """-> dict(d, init, cond, step, where, stmts) for `for(T v = init; v op bound; step)`; the step may be the
    first statement of the body (`for(i = n; i > 0;) { --i; ...`) -> where='body-first', or the last one (== 'inc').
    `T v = init; while(v op bound) { ...; step; }` is accepted as well."""
    if loop.get("k") not in ("For", "While"):
        raise NotRecognised("not a for/while loop")
    c = strip(loop.get("c") or {})
    if c.get("k") != "Bin" or c.get("op") not in FLIP:
        raise NotRecognised("loop condition %s" % render(c))
    body = loop.get("body")
    stmts = body.get("s", []) if body is not None and body.get("k") == "Block" else ([body] if body else [])
    inc = loop.get("inc") if loop["k"] == "For" else None
    init = loop.get("init") if loop["k"] == "For" else None

    def stepof(n, d):
        n = strip(n) if n else {}
        if n.get("k") == "Un" and n.get("op") in ("++", "--") and strip(n["e"]).get("k") == "Ref" and (d is None or strip(n["e"])["d"] == d):
            return (1 if n["op"] == "++" else -1), strip(n["e"])["d"]
        if n.get("k") == "Assign" and n.get("op") in ("+=", "-=") and strip(n["lhs"]).get("k") == "Ref" and (d is None or strip(n["lhs"])["d"] == d) \
                and strip(n["rhs"]).get("k") == "Int" and int(strip(n["rhs"])["v"]) == 1:
            return (1 if n["op"] == "+=" else -1), strip(n["lhs"])["d"]
        return None, None
    d = None
    initv = None
    init_id = None
    if init is not None and init.get("k") == "Decl" and len(init.get("vars", [])) == 1:
        d = init["vars"][0]["d"]
        initv = init["vars"][0].get("init")
    elif init is not None and init.get("k") == "Assign" and init.get("op") == "=" and strip(init["lhs"]).get("k") == "Ref":
        d = strip(init["lhs"])["d"]
        initv = init["rhs"]
        init_id = init.get("i")
    elif init is not None:
        raise NotRecognised("loop initialisation %s" % render(init))
    step = where = stepnode = None
    cands = []
    if inc is not None:
        cands.append((inc, "inc"))
    if stmts:
        cands.append((stmts[0], "body-first"))
        if len(stmts) > 1 and not any(x.get("k") == "Continue" for x in walk(body)):
            cands.append((stmts[-1], "inc-last"))
    for node, wh in cands:
        st, dd = stepof(node, d)
        if st is not None and (d is not None or any(x.get("k") == "Ref" and x.get("d") == dd for x in walk(c))):
            step, where, stepnode, d = st, wh, node, dd
            break
    if step is None or d is None:
        raise NotRecognised("loop step of %s" % render(loop))
    if where == "body-first":
        stmts = stmts[1:]
    elif where == "inc-last":
        stmts = stmts[:-1]
        where = "inc"
    if initv is None:
        # start value: the declaration's initialiser, or the single plain assignment outside the loop
        var = view.locals.get(d)
        inside = {x.get("i") for x in walk(loop)}
        outer = [w for w in view.writes.get(d, []) if w.get("i") not in inside]
        if outer:
            if len(outer) != 1 or outer[0].get("k") != "Assign" or outer[0].get("op") != "=":
                raise NotRecognised("start value of the loop variable of %s" % render(loop))
            initv = outer[0]["rhs"]
            init_id = outer[0].get("i")
        elif var is not None and var.get("init") is not None:
            initv = var["init"]
        else:
            raise NotRecognised("loop without initialisation: %s" % render(loop))
    others = [w for w in view.writes.get(d, []) if w.get("i") != strip(stepnode).get("i") and w.get("i") != init_id]
    if others:
        raise NotRecognised("loop variable written inside the loop: %s" % render(others[0]))
    return {"d": d, "init": initv, "cond": c, "step": step, "where": where, "stmts": stmts, "loop": loop}


def cond_on(view, c, d):
    """normalise comparison so that the side mentioning variable d is on the left: (lhs, op, rhs)"""
    l, r = c["lhs"], c["rhs"]

    def mentions(n):
        return any(x.get("k") == "Ref" and x.get("d") == d for x in walk(n))
    if mentions(l) and not mentions(r):
        return l, c["op"], r
    if mentions(r) and not mentions(l):
        return r, FLIP[c["op"]], l
    raise NotRecognised("comparison %s" % render(c))


class Sweep:
    pass


def is_step(w):
    """++v / --v / v += 1 / v -= 1"""
    if w.get("k") == "Un" and w.get("op") in ("++", "--"):
        return True
    return w.get("k") == "Assign" and w.get("op") in ("+=", "-=") and strip(w["rhs"]).get("k") == "Int" and int(strip(w["rhs"])["v"]) == 1


def extract_sweep(view, loop):
    """analyse one outer row loop; returns Sweep with fields:
       dir ('asc'|'desc'), inner (dict: arrays, seg, guard, step), acc_coeff, value (sympy expr of new out[i]),
       reads (set of atoms used), problems []"""
    sw = Sweep()
    sw.line = loop.get("l")
    o = counting_loop(view, loop)
    i_d = o["d"]
    lhs, op, rhs = cond_on(view, o["cond"], i_d)
    if strip(lhs).get("k") != "Ref":
        raise NotRecognised("outer loop condition %s" % render(o["cond"]))
    initv = view.value(o["init"])
    rhsv = view.value(rhs)
    if o["step"] == 1 and initv.get("k") == "Int" and int(initv["v"]) == 0 and op == "<" and view.extent_role(rhsv) == "rows" and o["where"] == "inc":
        sw.dir = "asc"
    elif o["step"] == -1 and view.extent_role(initv) == "rows" and op == ">" and rhsv.get("k") == "Int" and int(rhsv["v"]) == 0 and o["where"] == "body-first":
        sw.dir = "desc"
    else:
        raise NotRecognised("row loop `%s` is neither 0 <= i < rows ascending nor rows > i >= 0 descending" % render(loop))
    sw.i = i_d
    env = {}
    sym = view.sym
    inner_seen = False
    sw.inner = None
    sw.value = None
    sw.write_count = 0
    sw.atoms = set()
    acc_locals = set()
    k_d = [None]
    after_inner = [False]

    def idx_kind(n):
        n = strip(n)
        if n.get("k") == "Ref":
            if n["d"] == i_d:
                return "i"
            if k_d[0] is not None and n["d"] == k_d[0]:
                return "k"
            v = view.value(n)
            if v is not n and v.get("k") != "Ref":
                return idx_kind(v)
        if n.get("k") == "Bin" and n.get("op") == "+" and strip(n["lhs"]).get("k") == "Ref" and strip(n["lhs"])["d"] == i_d \
                and strip(n["rhs"]).get("k") == "Int" and int(strip(n["rhs"])["v"]) == 1:
            return "i+1"
        if n.get("k") == "Index":
            r = view.array_role(n["b"])
            if r is not None and idx_kind(n["idx"]) == "k":
                return "%s[k]" % r
        return None

    def atom(n):
        """symbol for an array element"""
        r = view.array_role(n["b"])
        ik = idx_kind(n["idx"])
        if r is None or ik is None:
            raise NotRecognised("array element %s" % render(n))
        return r, ik

    def conv(n, inner=False):
        n = strip(n)
        k = n.get("k")
        if k in ("Int", "Float"):
            return sympy.nsimplify(n["v"]) if k == "Int" else sympy.nsimplify(n.get("text") or n["v"], rational=True)
        if k == "Ref":
            if n.get("dk") == "local" and n["d"] in env:
                if isinstance(env[n["d"]], tuple) and env[n["d"]][:1] == ("poison",):
                    raise NotRecognised("value of %s: %s" % (render(n), env[n["d"]][1]))
                return env[n["d"]]
            v = view.value(n)
            if v is not n and v.get("k") != "Ref":
                return conv(v, inner)
            raise NotRecognised("value of %s" % render(n))
        if k == "Member":
            if n.get("n") == "_omega":
                return sym["w"]
            raise NotRecognised("member %s" % n.get("n"))
        if k == "Index":
            r, ik = atom(n)
            key = (r, ik)
            if inner:
                if key in (("val", "k"),) or (r.startswith("m:_data_") and r not in ("m:_data_d",) and ik == "k"):
                    sw.inner_val = r
                    return sym["a"]
                if r == "out" and ik.endswith("[k]"):
                    sw.inner_idx = ik[:-3]
                    return sym["xj"]
                if r == "in" and ik.endswith("[k]"):
                    sw.inner_idx = ik[:-3]
                    return sym["bj"]
                raise NotRecognised("array element %s inside the inner loop" % render(n))
            if key == ("out", "i"):
                return env.get("out_i", sym["x"])
            if key == ("in", "i"):
                return sym["b"]
            if (r == "val" and ik == "k"):
                if not after_inner[0]:
                    raise NotRecognised("diagonal read %s before the inner loop" % render(n))
                sw.diag = "val[k] at the stopping position"
                return sym["Dg"]
            if r == "m:_data_d" and ik == "i":
                sw.diag = "_data_d[i]"
                return sym["Dinv"]
            raise NotRecognised("array element %s in the row update" % render(n))
        if k == "Un" and n.get("op") == "-":
            return -conv(n["e"], inner)
        if k in ("Bin",) and n.get("op") in ("+", "-", "*", "/"):
            a, b = conv(n["lhs"], inner), conv(n["rhs"], inner)
            return binop(n["op"], a, b)
        if k == "OpCall" and n.get("op") in ("+", "-", "*", "/") and len(n.get("a", [])) == 2:
            a, b = conv(n["a"][0], inner), conv(n["a"][1], inner)
            return binop(n["op"], a, b)
        if k == "OpCall" and n.get("op") == "-" and len(n.get("a", [])) == 1:
            return -conv(n["a"][0], inner)
        if k in ("Construct", "TempObj") and len(n.get("a", [])) == 1:
            return conv(n["a"][0], inner)
        if k in ("Construct", "TempObj") and len(n.get("a", [])) == 0:
            return sympy.Integer(0)
        raise NotRecognised("expression %s" % render(n))

    def binop(op, a, b):
        if op == "+":
            return a + b
        if op == "-":
            return a - b
        if op == "*":
            return a * b
        if b == sym["Dg"]:
            return a * sym["Dinv"] if view.comm else _nc_div(a)
        if b.is_number:
            return a / b
        raise NotRecognised("division by %s" % b)

    def _nc_div(a):
        raise NotRecognised("division by a block")

    def target(n):
        """('local', d) | ('out_i',) for assignment targets"""
        n = strip(n)
        if n.get("k") == "Ref" and n.get("dk") == "local":
            return ("local", n["d"])
        if n.get("k") == "Index":
            r = view.array_role(n["b"])
            ik = idx_kind(n["idx"])
            if r == "out" and ik == "i":
                return ("out_i",)
            raise NotRecognised("write to %s" % render(n))
        raise NotRecognised("assignment target %s" % render(n))

    def getv(t):
        if t[0] == "local":
            if t[1] not in env:
                raise NotRecognised("use of an uninitialised accumulator")
            return env[t[1]]
        return env.get("out_i", sym["x"])

    def setv(t, v):
        if t[0] == "local":
            env[t[1]] = v
        else:
            env["out_i"] = v
            sw.write_count += 1

    def assign_stmt(n, inner=False):
        """handles Assign / OpCall = += -= / Tiny helper methods; returns True if it was an assignment form"""
        k = n.get("k")
        if k == "Assign":
            t = target(n["lhs"])
            rv = conv(n["rhs"], inner)
            opn = n.get("op")
        elif k == "OpCall" and n.get("op") in ("=", "+=", "-=") and len(n.get("a", [])) == 2:
            t = target(n["a"][0])
            rv = conv(n["a"][1], inner)
            opn = n["op"]
        elif k == "MCall" and n.get("n") == "add_mat_vec_mult" and len(n.get("a", [])) == 3:
            t = target(n["obj"])
            rv = conv(n["a"][2], inner) * conv(n["a"][0], inner) * conv(n["a"][1], inner)
            opn = "+="
        elif k == "MCall" and n.get("n") == "set_mat_vec_mult" and len(n.get("a", [])) == 2:
            t = target(n["obj"])
            rv = conv(n["a"][0], inner) * conv(n["a"][1], inner)
            opn = "="
        elif k == "MCall" and n.get("n") == "set_inverse" and len(n.get("a", [])) == 1:
            t = target(n["obj"])
            a = conv(n["a"][0], inner)
            if a != sym["Dg"]:
                raise NotRecognised("set_inverse of %s" % render(n["a"][0]))
            rv = sym["Dinv"]
            opn = "="
        else:
            return False
        if opn == "=":
            setv(t, rv)
        elif opn == "+=":
            setv(t, getv(t) + rv)
        elif opn == "-=":
            setv(t, getv(t) - rv)
        elif opn == "*=":
            setv(t, getv(t) * rv)
        else:
            raise NotRecognised("compound assignment %s" % opn)
        return True

    def do_inner(loop2):
        c = counting_loop(view, loop2)
        k_d[0] = c["d"]
        inner = {"d": c["d"], "step": c["step"]}
        # segment start
        iv = strip(c["init"]) if c["init"] is not None else {}
        off = 0
        if iv.get("k") == "Bin" and iv.get("op") == "-" and strip(iv["rhs"]).get("k") == "Int":
            off = -int(strip(iv["rhs"])["v"])
            iv = strip(iv["lhs"])
        if iv.get("k") != "Index":
            raise NotRecognised("inner loop start %s" % render(c["init"]))
        inner["start"] = (view.array_role(iv["b"]), idx_kind(iv["idx"]), off)
        l, op2, r = cond_on(view, c["cond"], c["d"])
        l = strip(l)
        if l.get("k") == "Ref":
            rr = strip(r)
            if rr.get("k") != "Index":
                raise NotRecognised("inner loop bound %s" % render(r))
            inner["guard"] = ("k", op2, (view.array_role(rr["b"]), idx_kind(rr["idx"])))
        elif l.get("k") == "Index":
            rr = strip(r)
            ik = idx_kind(rr) if rr.get("k") in ("Ref", "Bin") else None
            inner["guard"] = ((view.array_role(l["b"]), idx_kind(l["idx"])), op2, ik)
        else:
            raise NotRecognised("inner loop condition %s" % render(c["cond"]))
        if c["where"] != "inc":
            raise NotRecognised("inner loop step placement")
        # body: one accumulation
        before = dict(env)
        for st in c["stmts"]:
            if st.get("k") in ("Block",):
                raise NotRecognised("nested block in the inner loop")
            if st.get("k") == "Decl" and all(v.get("init") is not None and not view.writes.get(v["d"]) for v in st.get("vars", [])):
                continue
            if not assign_stmt(st, inner=True):
                raise NotRecognised("statement %s in the inner loop" % render(st))
        changed = [d for d in env if d != "out_i" and (d not in before or before[d] is not env[d] and before[d] != env[d])]
        if "out_i" in env and env.get("out_i") is not before.get("out_i"):
            raise NotRecognised("write to out[i] inside the inner loop")
        if len(changed) != 1:
            raise NotRecognised("inner loop updates %d accumulators" % len(changed))
        acc = changed[0]
        delta = sympy.expand(env[acc] - before[acc])
        unit = sym["a"] * sym["xj"]
        coeff = None
        # delta must be c * a*xj with c free of a, xj
        co = delta.coeff(unit) if view.comm else None
        if view.comm:
            if co is None or sympy.expand(delta - co * unit) != 0 or co.has(sym["a"], sym["xj"], sym["bj"]):
                inner["term"] = str(delta)
                coeff = None
            else:
                coeff = co
        else:
            cc, nc = delta.args_cnc() if not delta.is_Add else (None, None)
            if cc is not None and nc == [sym["a"], sym["xj"]]:
                coeff = sympy.Mul(*cc)
            else:
                inner["term"] = str(delta)
        inner["coeff"] = coeff
        inner["val"] = getattr(sw, "inner_val", None)
        inner["idx"] = getattr(sw, "inner_idx", None)
        if coeff is not None:
            env[acc] = before[acc] + coeff * sym["S"]
        inner["acc"] = acc
        k_after = k_d[0]
        return inner

    for st in o["stmts"]:
        k = st.get("k")
        if k == "Decl":
            for v in st.get("vars", []):
                # never-written locals are resolved lazily at their uses (through their initialiser)
                if v.get("init") is not None:
                    if any(is_step(w) for w in view.writes.get(v["d"], [])):
                        continue        # an index stepped by an inner loop
                    try:
                        env[v["d"]] = conv(v["init"])
                    except NotRecognised as ex:
                        if view.writes.get(v["d"]):
                            raise
                        env[v["d"]] = ("poison", str(ex))   # may still serve as an index (resolved structurally)
            continue
        if k in ("For", "While"):
            if sw.inner is not None:
                raise NotRecognised("more than one inner loop in a row sweep")
            sw.inner = do_inner(st)
            after_inner[0] = True
            continue
        if k == "Assign" and st.get("op") == "=" and strip(st["lhs"]).get("k") == "Ref" and any(is_step(w) for w in view.writes.get(strip(st["lhs"])["d"], [])):
            continue        # start value of an index that an inner loop steps (taken up by counting_loop)
        if assign_stmt(st):
            continue
        raise NotRecognised("statement %s in the row loop" % render(st))
    if sw.inner is None:
        raise NotRecognised("row loop without inner loop")
    if "out_i" not in env:
        raise NotRecognised("row loop never writes out[i]")
    sw.value = sympy.expand(env["out_i"])
    if not hasattr(sw, "diag"):
        sw.diag = None
    return sw


def outer_loops(view):
    """top-level for loops of the function body (sweeps) in source order"""
    body = view.fn.body
    return [s for s in body.get("s", []) if s.get("k") in ("For", "While")]
