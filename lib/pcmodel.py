"""pcmodel: row-sweep extraction for the triangular kernels of the stationary preconditioners (C08).

A *row sweep* is an outer counting loop over the rows i of a CSR-like structure whose body
accumulates, in one inner loop over a segment of row i, products  a_k * out[c_k]  and then defines
out[i].  SOR/SSOR `_apply_intern` (CSR, BCSR) and ILU `solve_il/solve_du` (scalar, blocked) are of
this form.  The extractor resolves the pointer locals to their array roles (accessor names of the
matrix / member names of the ILU core, parameter positions of the vectors), reads off direction,
segment and stopping guard of the inner loop, and evaluates the row update symbolically (sympy,
non-commutative symbols for block-valued quantities).
"""
import sympy

from mgfacts import FnView, strip, walk, kids
from featlib import render
from norm_c08 import affine

FLIP = {"<": ">", ">": "<", "<=": ">=", ">=": "<=", "!=": "!=", "==": "=="}


class NotRecognised(Exception):
    pass


class SweepView(FnView):
    """FnView + array roles.  roles: decl id -> role string"""

    def __init__(self, fn, out_param, in_param, blocked):
        super().__init__(fn)
        self.blocked = blocked
        self.out_d = out_param
        self.in_d = in_param
        self.comm = not blocked
        S = lambda n, c=None: sympy.Symbol(n, commutative=self.comm if c is None else c)
        self.sym = {"b": S("b"), "x": S("x"), "S": S("S"), "Dinv": S("Dinv"), "a": S("a"), "xj": S("xj"),
                    "w": sympy.Symbol("w", commutative=True), "bj": S("bj"), "Dg": S("Dg")}

    # ---- array roles ------------------------------------------------------------------------------
    def array_role(self, n, depth=0):
        """role of a pointer expression: 'out' | 'in' | 'val' | 'col_ind' | 'row_ptr' | 'm:<field>' | None"""
        n = strip(n)
        if depth > 8:
            return None
        k = n.get("k")
        if k == "Ref":
            if n.get("dk") == "param":
                if n["d"] == self.out_d:
                    return "out"
                if n["d"] == self.in_d:
                    return "in"
                return None
            if n.get("dk") == "local":
                v = self.locals.get(n["d"])
                if v is None or self.writes.get(n["d"]) or v.get("init") is None:
                    return None
                return self.array_role(v["init"], depth + 1)
        if k == "Cond":
            a, b = strip(n["then"]), strip(n["else"])
            if a.get("k") == "Null":
                return self.array_role(b, depth + 1)
            if b.get("k") == "Null":
                return self.array_role(a, depth + 1)
            return None
        if k == "Member" and strip(n.get("b") or {"k": "This"}).get("k") == "This":
            return "m:" + n.get("n", "")        # std::vector member subscripted directly: this->_row_ptr_l[i]
        if k == "MCall":
            nm = n.get("n")
            o = strip(n.get("obj") or {})
            if nm == "elements":
                r = self.array_role(o, depth + 1)
                return r if r in ("out", "in") else None
            if nm in ("val", "col_ind", "row_ptr") and o.get("k") == "Ref" and o.get("dk") == "param":
                return nm
            if nm in ("val", "col_ind", "row_ptr") and o.get("k") == "Member":
                return nm
            if nm == "data" and o.get("k") == "Member":
                return "m:" + o.get("n", "")
        return None

    def extent_role(self, n):
        """'rows' for matrix.rows() / this->_n"""
        n = self.value(n)
        if n.get("k") == "MCall" and n.get("n") == "rows":
            return "rows"
        if n.get("k") == "Member" and n.get("n") == "_n":
            return "rows"
        return None


def counting_loop(view, loop):
    """-> dict(d, init, cond, step, where, stmts) for `for(T v = init; v op bound; step)`; the step may be the
    first statement of the body (`for(i = n; i > 0;) { --i; ...`) -> where='body-first', or the last one (== 'inc').
    `T v = init; while(v op bound) { ...; step; }` is accepted as well."""
    if loop.get("k") not in ("For", "While"):
        raise NotRecognised("not a for/while loop")
    body = loop.get("body")
    stmts = body.get("s", []) if body is not None and body.get("k") == "Block" else ([body] if body else [])
    c = norm_cmp(loop.get("c") or {})
    if (c is None or c.get("k") == "Bool" and c.get("v")) and stmts and strip(stmts[0]).get("k") == "If" and stmts[0].get("else") is None:
        # `for(init; ; step) { if(!(cond)) break; ...` == `for(init; cond; step) { ...`
        t = stmts[0].get("then") or {}
        ts = t.get("s", []) if t.get("k") == "Block" else [t]
        if len(ts) == 1 and ts[0].get("k") == "Break":
            c = norm_cmp(stmts[0].get("c") or {}, negate=True)
            stmts = stmts[1:]
    if c is None or c.get("k") != "Bin" or c.get("op") not in FLIP:
        raise NotRecognised("loop condition %s" % render(strip(loop.get("c") or {})))
    inc = loop.get("inc") if loop["k"] == "For" else None
    init = loop.get("init") if loop["k"] == "For" else None

    def stepof(n, d):
        n = strip(n) if n else {}
        if n.get("k") == "Un" and n.get("op") in ("++", "--") and strip(n["e"]).get("k") == "Ref" and (d is None or strip(n["e"])["d"] == d):
            return (1 if n["op"] == "++" else -1), strip(n["e"])["d"]
        if n.get("k") == "Assign" and n.get("op") in ("+=", "-=") and strip(n["lhs"]).get("k") == "Ref" and (d is None or strip(n["lhs"])["d"] == d) \
                and strip(n["rhs"]).get("k") == "Int" and int(strip(n["rhs"])["v"]) == 1:
            return (1 if n["op"] == "+=" else -1), strip(n["lhs"])["d"]
        return None, None
    d = None
    initv = None
    init_id = None
    if init is not None and init.get("k") == "Decl" and len(init.get("vars", [])) == 1:
        d = init["vars"][0]["d"]
        initv = init["vars"][0].get("init")
    elif init is not None and init.get("k") == "Assign" and init.get("op") == "=" and strip(init["lhs"]).get("k") == "Ref":
        d = strip(init["lhs"])["d"]
        initv = init["rhs"]
        init_id = init.get("i")
    elif init is not None:
        raise NotRecognised("loop initialisation %s" % render(init))
    step = where = stepnode = None
    cands = []
    if inc is not None:
        cands.append((inc, "inc"))
    if stmts:
        cands.append((stmts[0], "body-first"))
        if len(stmts) > 1 and not any(x.get("k") == "Continue" for x in walk(body)):
            cands.append((stmts[-1], "inc-last"))
    for node, wh in cands:
        st, dd = stepof(node, d)
        if st is not None and (d is not None or any(x.get("k") == "Ref" and x.get("d") == dd for x in walk(c))):
            step, where, stepnode, d = st, wh, node, dd
            break
    if step is None or d is None:
        raise NotRecognised("loop step of %s" % render(loop))
    if where == "body-first":
        stmts = stmts[1:]
    elif where == "inc-last":
        stmts = stmts[:-1]
        where = "inc"
    inside = {x.get("i") for x in walk(loop)}
    if initv is None:
        # start value: the closest definition of the variable in front of the loop in the same statement list — its
        # declaration with initialiser or a plain assignment `v = e;` — with no other write of v in between.  One index
        # variable may serve several loops one after the other (`j = a; while(j < b) {..}  j = c; while(j < e) {..}`).
        par = view.parent.get(loop.get("i"))
        sibs = par.get("s") if par is not None and isinstance(par.get("s"), list) else None
        if sibs is not None:
            pos = next((k for k, x in enumerate(sibs) if x is loop or x.get("i") == loop.get("i")), None)
            for x in reversed(sibs[:pos] if pos is not None else []):
                xs = strip(x)
                if xs.get("k") == "Decl" and any(v.get("d") == d for v in xs.get("vars", [])):
                    v0 = [v for v in xs["vars"] if v.get("d") == d][0]
                    if v0.get("init") is not None:
                        initv = v0["init"]
                        init_id = xs.get("i")
                    break
                if xs.get("k") == "Assign" and xs.get("op") == "=" and strip(xs["lhs"]).get("k") == "Ref" and strip(xs["lhs"])["d"] == d:
                    initv = xs["rhs"]
                    init_id = xs.get("i")
                    break
                if any(w.get("i") in {y.get("i") for y in walk(x)} for w in view.writes.get(d, [])):
                    break       # something else writes the variable between its last definition and this loop
        if initv is None:
            var = view.locals.get(d)
            outer = [w for w in view.writes.get(d, []) if w.get("i") not in inside]
            if outer:
                if len(outer) != 1 or outer[0].get("k") != "Assign" or outer[0].get("op") != "=":
                    raise NotRecognised("start value of the loop variable of %s" % render(loop))
                initv = outer[0]["rhs"]
                init_id = outer[0].get("i")
            elif var is not None and var.get("init") is not None:
                initv = var["init"]
            else:
                raise NotRecognised("loop without initialisation: %s" % render(loop))
    # inside this loop nothing but the step writes the variable (what other loops do with it before / after is their business
    # as long as this loop's start value is the definition found above)
    others = [w for w in view.writes.get(d, []) if w.get("i") in inside and w.get("i") != strip(stepnode).get("i") and w.get("i") != init_id]
    if others:
        raise NotRecognised("loop variable written inside the loop: %s" % render(others[0]))
    if init_id is None or init_id in inside:
        # for-init declarations / assignments belong to the loop; a start value found by the fallback must be the only outer write
        pass
    return {"d": d, "init": initv, "cond": c, "step": step, "where": where, "stmts": stmts, "loop": loop}


def cond_on(view, c, d):
    """normalise comparison so that the side mentioning variable d is on the left: (lhs, op, rhs)"""
    l, r = c["lhs"], c["rhs"]

    def mentions(n):
        return any(x.get("k") == "Ref" and x.get("d") == d for x in walk(n))
    if mentions(l) and not mentions(r):
        return l, c["op"], r
    if mentions(r) and not mentions(l):
        return r, FLIP[c["op"]], l
    raise NotRecognised("comparison %s" % render(c))


NEGATE = {"<": ">=", ">": "<=", "<=": ">", ">=": "<", "!=": "==", "==": "!="}


def norm_cmp(c, negate=False):
    """comparison node of a condition with leading negations folded into the operator: !(a >= b) -> a < b;
    None if the condition is empty; other conditions are returned unchanged (negated ones as None)"""
    c = strip(c)
    if not c or not c.get("k"):
        return None
    while c.get("k") == "Un" and c.get("op") == "!":
        negate = not negate
        c = strip(c["e"])
    if c.get("k") == "Bin" and c.get("op") in NEGATE:
        if negate:
            c = dict(c)
            c["op"] = NEGATE[c["op"]]
        return c
    return None if negate else c


def is_assertion(n):
    """XASSERT / XASSERTM / ASSERT statement: states a belief, changes nothing"""
    n = strip(n)
    return n.get("k") == "Call" and (n.get("callee") or "").endswith("FEAT::assertion")


def as_index(n):
    """built-in subscript or std::vector::operator[] as {'k': 'Index', 'b': base, 'idx': index}; else n"""
    n = strip(n)
    if n.get("k") == "OpCall" and n.get("op") == "[]" and len(n.get("a", [])) == 2:
        return {"k": "Index", "b": n["a"][0], "idx": n["a"][1], "l": n.get("l"), "i": n.get("i")}
    return n


def flat(stmts):
    """statement list with nested blocks (plain `{ }` scopes and the bodies of inlined helpers) spliced in"""
    out = []
    for st in stmts:
        if st.get("k") == "Block":
            out += flat(st.get("s", []))
        else:
            out.append(st)
    return out


class Sweep:
    pass


def is_step(w):
    """++v / --v / v += 1 / v -= 1"""
    if w.get("k") == "Un" and w.get("op") in ("++", "--"):
        return True
    return w.get("k") == "Assign" and w.get("op") in ("+=", "-=") and strip(w["rhs"]).get("k") == "Int" and int(strip(w["rhs"])["v"]) == 1


def extract_sweep(view, loop):
    """analyse one outer row loop; returns Sweep with fields:
       dir ('asc'|'desc'), inner (dict: arrays, seg, guard, step), acc_coeff, value (sympy expr of new out[i]),
       reads (set of atoms used), problems []"""
    sw = Sweep()
    sw.line = loop.get("l")
    o = counting_loop(view, loop)
    i_d = o["d"]
    lhs, op, rhs = cond_on(view, o["cond"], i_d)
    if strip(lhs).get("k") != "Ref":
        raise NotRecognised("outer loop condition %s" % render(o["cond"]))
    initv = view.value(o["init"])
    rhsv = view.value(rhs)

    def is_int(n, v):
        return n.get("k") == "Int" and int(n["v"]) == v
    # the row index is (loop variable + row_off): `for(i = 0; i < n; ++i)` and `for(i = n; i > 0;) { --i; ...` run over the
    # rows themselves, `for(ii = n; ii > 0; --ii) { i = ii - 1; ...` and `for(ii = 1; ii <= n; ++ii)` over row + 1
    row_off = None
    if o["step"] == 1 and o["where"] == "inc" and view.extent_role(rhsv) == "rows":
        if is_int(initv, 0) and op in ("<", "!="):
            sw.dir, row_off = "asc", 0
        elif is_int(initv, 1) and op == "<=":
            sw.dir, row_off = "asc", -1
    elif o["step"] == -1 and view.extent_role(initv) == "rows" and ((op in (">", "!=") and is_int(rhsv, 0)) or (op == ">=" and is_int(rhsv, 1))):
        if o["where"] == "body-first":
            sw.dir, row_off = "desc", 0
        elif o["where"] == "inc":
            sw.dir, row_off = "desc", -1
    if row_off is None:
        raise NotRecognised("row loop `%s` is neither 0 <= i < rows ascending nor rows > i >= 0 descending" % render(loop))
    sw.i = i_d
    env = {}
    sym = view.sym
    inner_seen = False
    sw.inner = None
    sw.value = None
    sw.write_count = 0
    sw.atoms = set()
    acc_locals = set()
    k_d = [None]
    after_inner = [False]

    def idx_kind(n):
        n = strip(n)
        af = affine(view, n)
        if af is not None and af[0] is not None:
            if af[0] == i_d:
                return {0: "i", 1: "i+1"}.get(af[1] - row_off)
            if k_d[0] is not None and af[0] == k_d[0]:
                return "k" if af[1] == 0 else None
        if n.get("k") == "Ref":
            v = view.value(n)
            if v is not n and v.get("k") != "Ref":
                return idx_kind(v)
        n = as_index(n)
        if n.get("k") == "Index":
            r = view.array_role(n["b"])
            if r is not None and idx_kind(n["idx"]) == "k":
                return "%s[k]" % r
        return None

    def atom(n):
        """symbol for an array element"""
        r = view.array_role(n["b"])
        ik = idx_kind(n["idx"])
        if r is None or ik is None:
            raise NotRecognised("array element %s" % render(n))
        return r, ik

    def conv(n, inner=False):
        n = as_index(n)
        k = n.get("k")
        if k in ("Int", "Float"):
            return sympy.nsimplify(n["v"]) if k == "Int" else sympy.nsimplify(n.get("text") or n["v"], rational=True)
        if k == "Ref":
            if n.get("dk") == "local" and n["d"] in env:
                if isinstance(env[n["d"]], tuple) and env[n["d"]][:1] == ("poison",):
                    raise NotRecognised("value of %s: %s" % (render(n), env[n["d"]][1]))
                return env[n["d"]]
            v = view.value(n)
            if v is not n and v.get("k") != "Ref":
                return conv(v, inner)
            raise NotRecognised("value of %s" % render(n))
        if k == "Member":
            if n.get("n") == "_omega":
                return sym["w"]
            raise NotRecognised("member %s" % n.get("n"))
        if k == "Index":
            r, ik = atom(n)
            key = (r, ik)
            if inner:
                if key in (("val", "k"),) or (r.startswith("m:_data_") and r not in ("m:_data_d",) and ik == "k"):
                    sw.inner_val = r
                    return sym["a"]
                if r == "out" and ik.endswith("[k]"):
                    sw.inner_idx = ik[:-3]
                    return sym["xj"]
                if r == "in" and ik.endswith("[k]"):
                    sw.inner_idx = ik[:-3]
                    return sym["bj"]
                raise NotRecognised("array element %s inside the inner loop" % render(n))
            if key == ("out", "i"):
                return env.get("out_i", sym["x"])
            if key == ("in", "i"):
                return sym["b"]
            if (r == "val" and ik == "k"):
                if not after_inner[0]:
                    raise NotRecognised("diagonal read %s before the inner loop" % render(n))
                sw.diag = "val[k] at the stopping position"
                return sym["Dg"]
            if r == "m:_data_d" and ik == "i":
                sw.diag = "_data_d[i]"
                return sym["Dinv"]
            # a resolved element of another row / array: a definite, different operand (its own symbol)
            return sympy.Symbol("%s[%s]" % (r[2:] if r.startswith("m:") else r, ik), commutative=view.comm)
        if k == "Un" and n.get("op") == "-":
            return -conv(n["e"], inner)
        if k in ("Bin",) and n.get("op") in ("+", "-", "*", "/"):
            a, b = conv(n["lhs"], inner), conv(n["rhs"], inner)
            return binop(n["op"], a, b)
        if k == "OpCall" and n.get("op") in ("+", "-", "*", "/") and len(n.get("a", [])) == 2:
            a, b = conv(n["a"][0], inner), conv(n["a"][1], inner)
            return binop(n["op"], a, b)
        if k == "OpCall" and n.get("op") == "-" and len(n.get("a", [])) == 1:
            return -conv(n["a"][0], inner)
        if k in ("Construct", "TempObj") and len(n.get("a", [])) == 1:
            return conv(n["a"][0], inner)
        if k in ("Construct", "TempObj") and len(n.get("a", [])) == 0:
            return sympy.Integer(0)
        raise NotRecognised("expression %s" % render(n))

    def binop(op, a, b):
        if op == "+":
            return a + b
        if op == "-":
            return a - b
        if op == "*":
            return a * b
        if b == sym["Dg"]:
            return a * sym["Dinv"] if view.comm else _nc_div(a)
        if b.is_number:
            return a / b
        raise NotRecognised("division by %s" % b)

    def _nc_div(a):
        raise NotRecognised("division by a block")

    def target(n):
        """('local', d) | ('out_i',) for assignment targets"""
        n = as_index(n)
        if n.get("k") == "Ref" and n.get("dk") == "local":
            return ("local", n["d"])
        if n.get("k") == "Index":
            r = view.array_role(n["b"])
            ik = idx_kind(n["idx"])
            if r == "out" and ik == "i":
                return ("out_i",)
            raise NotRecognised("write to %s" % render(n))
        raise NotRecognised("assignment target %s" % render(n))

    def getv(t):
        if t[0] == "local":
            if t[1] not in env:
                raise NotRecognised("use of an uninitialised accumulator")
            return env[t[1]]
        return env.get("out_i", sym["x"])

    def setv(t, v):
        if t[0] == "local":
            env[t[1]] = v
        else:
            env["out_i"] = v
            sw.write_count += 1

    def assign_stmt(n, inner=False):
        """handles Assign / OpCall = += -= / Tiny helper methods; returns True if it was an assignment form"""
        k = n.get("k")
        if k == "Assign":
            t = target(n["lhs"])
            rv = conv(n["rhs"], inner)
            opn = n.get("op")
        elif k == "OpCall" and n.get("op") in ("=", "+=", "-=") and len(n.get("a", [])) == 2:
            t = target(n["a"][0])
            rv = conv(n["a"][1], inner)
            opn = n["op"]
        elif k == "MCall" and n.get("n") == "add_mat_vec_mult" and len(n.get("a", [])) == 3:
            t = target(n["obj"])
            rv = conv(n["a"][2], inner) * conv(n["a"][0], inner) * conv(n["a"][1], inner)
            opn = "+="
        elif k == "MCall" and n.get("n") == "set_mat_vec_mult" and len(n.get("a", [])) == 2:
            t = target(n["obj"])
            rv = conv(n["a"][0], inner) * conv(n["a"][1], inner)
            opn = "="
        elif k == "MCall" and n.get("n") == "set_inverse" and len(n.get("a", [])) == 1:
            t = target(n["obj"])
            a = conv(n["a"][0], inner)
            if a != sym["Dg"]:
                raise NotRecognised("set_inverse of %s" % render(n["a"][0]))
            rv = sym["Dinv"]
            opn = "="
        else:
            return False
        if opn == "=":
            setv(t, rv)
        elif opn == "+=":
            setv(t, getv(t) + rv)
        elif opn == "-=":
            setv(t, getv(t) - rv)
        elif opn == "*=":
            setv(t, getv(t) * rv)
        else:
            raise NotRecognised("compound assignment %s" % opn)
        return True

    def do_inner(loop2):
        c = counting_loop(view, loop2)
        k_d[0] = c["d"]
        inner = {"d": c["d"], "step": c["step"]}
        # segment start
        iv = strip(c["init"]) if c["init"] is not None else {}
        off = 0
        if iv.get("k") == "Bin" and iv.get("op") == "-" and strip(iv["rhs"]).get("k") == "Int":
            off = -int(strip(iv["rhs"])["v"])
            iv = strip(iv["lhs"])
        iv = as_index(iv)
        if iv.get("k") != "Index":
            iv = as_index(view.value(iv))         # hoisted into a const local: `const IT_ jbeg = rptr[i];`
        if iv.get("k") != "Index":
            raise NotRecognised("inner loop start %s" % render(c["init"]))
        inner["start"] = (view.array_role(iv["b"]), idx_kind(iv["idx"]), off)
        l, op2, r = cond_on(view, c["cond"], c["d"])
        l = as_index(l)
        if l.get("k") == "Ref" and op2 == "!=":
            op2 = "<" if c["step"] > 0 else ">"        # k != end with unit steps towards end
        if l.get("k") == "Ref":
            rr = as_index(r)
            if rr.get("k") != "Index":
                rr = as_index(view.value(rr))     # hoisted into a const local: `const IT_ jend = rptr[i+1];`
            boff = 0
            if rr.get("k") == "Bin" and rr.get("op") in ("+", "-") and strip(rr["rhs"]).get("k") == "Int":
                boff = int(strip(rr["rhs"])["v"]) * (1 if rr["op"] == "+" else -1)
                rr = as_index(rr["lhs"])
            if rr.get("k") != "Index":
                raise NotRecognised("inner loop bound %s" % render(r))
            bound = (view.array_role(rr["b"]), idx_kind(rr["idx"]))
            inner["guard"] = ("k", op2, bound + (boff,) if boff else bound)
        elif l.get("k") == "Index":
            rr = strip(r)
            ik = idx_kind(rr) if rr.get("k") in ("Ref", "Bin") else None
            inner["guard"] = ((view.array_role(l["b"]), idx_kind(l["idx"])), op2, ik)
        else:
            raise NotRecognised("inner loop condition %s" % render(c["cond"]))
        if c["where"] != "inc":
            raise NotRecognised("inner loop step placement")
        # body: one accumulation
        before = dict(env)
        for st in flat(c["stmts"]):
            if st.get("k") == "Decl" and all(v.get("init") is not None and not view.writes.get(v["d"]) for v in st.get("vars", [])):
                continue
            if is_assertion(st):
                continue
            if not assign_stmt(st, inner=True):
                raise NotRecognised("statement %s in the inner loop" % render(st))
        changed = [d for d in env if d != "out_i" and (d not in before or before[d] is not env[d] and before[d] != env[d])]
        if "out_i" in env and env.get("out_i") is not before.get("out_i"):
            raise NotRecognised("write to out[i] inside the inner loop")
        if len(changed) != 1:
            raise NotRecognised("inner loop updates %d accumulators" % len(changed))
        acc = changed[0]
        delta = sympy.expand(env[acc] - before[acc])
        unit = sym["a"] * sym["xj"]
        coeff = None
        # delta must be c * a*xj with c free of a, xj
        co = delta.coeff(unit) if view.comm else None
        if view.comm:
            if co is None or sympy.expand(delta - co * unit) != 0 or co.has(sym["a"], sym["xj"], sym["bj"]):
                inner["term"] = str(delta)
                coeff = None
            else:
                coeff = co
        else:
            cc, nc = delta.args_cnc() if not delta.is_Add else (None, None)
            if cc is not None and nc == [sym["a"], sym["xj"]]:
                coeff = sympy.Mul(*cc)
            else:
                inner["term"] = str(delta)
        inner["coeff"] = coeff
        inner["val"] = getattr(sw, "inner_val", None)
        inner["idx"] = getattr(sw, "inner_idx", None)
        if coeff is not None:
            env[acc] = before[acc] + coeff * sym["S"]
        inner["acc"] = acc
        k_after = k_d[0]
        return inner

    for st in flat(o["stmts"]):
        k = st.get("k")
        if k == "Decl":
            for v in st.get("vars", []):
                # never-written locals are resolved lazily at their uses (through their initialiser)
                if v.get("init") is not None:
                    if any(is_step(w) for w in view.writes.get(v["d"], [])):
                        continue        # an index stepped by an inner loop
                    try:
                        env[v["d"]] = conv(v["init"])
                    except NotRecognised as ex:
                        if view.writes.get(v["d"]):
                            raise
                        env[v["d"]] = ("poison", str(ex))   # may still serve as an index (resolved structurally)
            continue
        if is_assertion(st):
            continue
        if k in ("For", "While"):
            if sw.inner is not None:
                raise NotRecognised("more than one inner loop in a row sweep")
            sw.inner = do_inner(st)
            after_inner[0] = True
            continue
        if k == "Assign" and st.get("op") == "=" and strip(st["lhs"]).get("k") == "Ref" and any(is_step(w) for w in view.writes.get(strip(st["lhs"])["d"], [])):
            continue        # start value of an index that an inner loop steps (taken up by counting_loop)
        if assign_stmt(st):
            continue
        raise NotRecognised("statement %s in the row loop" % render(st))
    if sw.inner is None:
        raise NotRecognised("row loop without inner loop")
    if "out_i" not in env:
        raise NotRecognised("row loop never writes out[i]")
    sw.value = sympy.expand(env["out_i"])
    if not hasattr(sw, "diag"):
        sw.diag = None
    return sw


def outer_loops(view):
    """row loops (sweeps) of the function in execution order.  Blocks (also the bodies of inlined helpers, see
    norm_c08.Inliner) are flattened; the shortcut `if(rows == 0) return;` is skipped (the sweeps do nothing then).
    Any other statement that could run or hide a sweep — a loop under a condition, a do-loop, a call of a member
    function or a call that receives one of the vectors / their element pointers — raises NotRecognised: "no sweep
    found" is only a verdict when nothing unmodelled can provide one."""
    loops = []

    def vec_use(n):
        for x in walk(n):
            if x.get("k") == "Ref" and view.array_role(x) in ("out", "in"):
                return True
        return False

    def empty_shortcut(s):
        if s.get("else") is not None:
            return False
        t = s.get("then") or {}
        ts = t.get("s", []) if t.get("k") == "Block" else [t]
        if len(ts) != 1 or ts[0].get("k") != "Return" or ts[0].get("e") is not None:
            return False
        c = strip(s.get("c") or {})
        if c.get("k") != "Bin":
            return False
        op = c.get("op")
        for x, y, o in ((c["lhs"], c["rhs"], op), (c["rhs"], c["lhs"], FLIP.get(op))):
            yv = view.value(y)
            if view.extent_role(x) == "rows" and yv.get("k") == "Int":
                if (o in ("==", "<=") and int(yv["v"]) == 0) or (o == "<" and int(yv["v"]) == 1):
                    return True         # rows == 0 / rows <= 0 / rows < 1
        return False

    def rec(stmts):
        for s in stmts:
            k = s.get("k")
            if k == "Block":
                rec(s.get("s", []))
            elif k in ("For", "While"):
                loops.append(s)
            elif k == "Decl":
                continue
            elif k == "If" and empty_shortcut(s):
                continue
            else:
                inner = [x for x in walk(s) if x.get("k") in ("For", "While", "Do", "ForRange")]
                calls = [x for x in walk(s) if x.get("k") == "MCall" and (x.get("obj") is None or strip(x["obj"]).get("k") == "This")]
                passed = [x for x in walk(s) if x.get("k") in ("Call", "MCall") and any(vec_use(a) for a in x.get("a", []))]
                if inner:
                    raise NotRecognised("loop inside `%s` (line %s): conditional / nested sweeps are not modelled" % (render(s)[:50], s.get("l")))
                if calls:
                    raise NotRecognised("call of the member function %s() (line %s), which may perform a sweep" % (calls[0].get("n"), s.get("l")))
                if passed:
                    raise NotRecognised("the vectors are handed to %s (line %s)" % (passed[0].get("n") or passed[0].get("callee"), s.get("l")))
                if k in ("Assign", "OpCall") and vec_use(s):
                    raise NotRecognised("statement `%s` outside a row loop touches the vectors" % render(s)[:60])
    rec(view.fn.body.get("s", []))
    return loops
