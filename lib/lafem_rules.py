"""lafem_rules: shared static rules over the LAFEM container family (used by checks C20 and C02).

Everything here works on the featx fact trees of *instantiated* functions:

  * Family        – which classes derive from LAFEM::Container (from the base initialisers of their
                    constructors), which of them can hold foreign memory (writers of
                    `_foreign_memory = true`), function lookup by declaration id.
  * Interp        – a structured abstract interpreter (all paths of the statement tree: if / loops to a
                    fixpoint / switch / early returns / noreturn calls) for the ownership typestate of the
                    pointer vectors `_elements` / `_indices` of every container object a function touches.
  * pair_pushes   – allocate/size bookkeeping: every array pushed into `_elements/_indices` is paired
                    with a push of the same extent into `_elements_size/_indices_size`.

Ownership typestate of one pointer vector V of one object O (own):
    EMPTY      V holds no pointers
    OWN        every pointer in V carries exactly one MemoryPool reference owned by O
    NOREF      V holds pointers, none of them carries a reference owned by O (released, or foreign memory)
    UNCOUNTED  V holds pointers copied from somewhere else for which no reference has been taken yet
    VALID[g]   O's class invariant: OWN if flag g is false, NOREF if g is true (entry state of methods
               of classes that may hold foreign memory; g names the `_foreign_memory` value it refers to)
    MOVED      V has been moved from and not yet cleared
    TOP        paths disagree
The `_foreign_memory` flag of O is tracked next to it: 'F', 'T', ('sym', g), 'U' (paths disagree).
"""
import re

import featlib
from featlib import walk, render, children, is_call, rel

VEC_RE = re.compile(r"::(?:Container|SparseLayout)<.*>::_(elements|indices)$")
SIZE_RE = re.compile(r"::(?:Container|SparseLayout)<.*>::_(elements|indices)_size$")
SCAL_RE = re.compile(r"::(?:Container|SparseLayout)<.*>::_scalar_index$")
FLAG_RE = re.compile(r"::Container<.*>::_foreign_memory$")
POOL = "FEAT::MemoryPool::"

VEC_READS = {"size", "empty", "begin", "end", "cbegin", "cend", "capacity", "data", "max_size", "reserve", "shrink_to_fit"}
PUSH = ("push_back", "emplace_back")
VEC_SLOT = {"at", "back", "front", "operator[]"}


def strip_targs(s):
    """drop every <...> group: instantiation-independent names for keys"""
    out = []
    depth = 0
    for ch in s or "":
        if ch == "<":
            depth += 1
        elif ch == ">":
            depth -= 1
        elif depth == 0:
            out.append(ch)
    return "".join(out)


def short(s):
    s = strip_targs(s)
    s = s.replace("FEAT::LAFEM::", "").replace("FEAT::Adjacency::", "Adjacency::").replace("FEAT::", "")
    return re.sub(r"\s+", " ", s).strip()


def fkey(fn):
    """instantiation-independent function key: Class::name(param types)"""
    return "%s(%s)" % (short(fn.qn), ",".join(_abst(short(fn.type(p["t"]))) for p in fn.params))


def _abst(t):
    """substituted template arguments in parameter types -> placeholders (keys must not depend on the instantiation)"""
    t = re.sub(r"\b(long double|double|float)\b", "DT", t)
    t = re.sub(r"\bunsigned (long long|long|int)\b|\bstd::uint(32|64)_t\b", "IT", t)
    return t


def unwrap(n):
    """strip std::move / std::forward / explicit casts / address-of-deref noise"""
    while n is not None:
        k = n.get("k")
        if k == "Call" and n.get("callee") in ("std::move", "std::forward") and n.get("a"):
            n = n["a"][0]
        elif k == "Cast" and n.get("e") is not None:
            n = n["e"]
        else:
            break
    return n


# reference locals of the function under interpretation that alias a member vector / a container object
# (std::vector<DT_*> & mine = this->_elements;  Container & self = *this;): decl id -> aliased expression
_ALIAS = {}


class _alias_scope:
    """a nested Interp (callee summary, inlined helper) installs its own alias table; restore the caller's afterwards"""
    def __enter__(self):
        self.saved = dict(_ALIAS)
        return self

    def __exit__(self, *exc):
        _ALIAS.clear()
        _ALIAS.update(self.saved)
        return False


def _deref_alias(n):
    seen = 0
    while n is not None and n.get("k") == "Ref" and n.get("dk") in ("local", "param") and n.get("d") in _ALIAS and seen < 4:
        n = _ALIAS[n["d"]]
        seen += 1
    return n


def build_aliases(fn):
    out = {}
    for n in fn.nodes():
        if n.get("k") == "Var" and n.get("ref") and n.get("init") is not None:
            i = unwrap(n["init"])
            if i.get("k") == "Member" and (VEC_RE.search(i.get("qn", "")) or SIZE_RE.search(i.get("qn", ""))):
                out[n["d"]] = i
            elif i.get("k") == "This" or (i.get("k") == "Un" and i.get("op") == "*" and unwrap(i.get("e") or {}).get("k") == "This"):
                out[n["d"]] = {"k": "This"}
            elif i.get("k") == "Ref" and i.get("dk") in ("param", "local"):
                out[n["d"]] = i
    return out


def vec_member(n):
    """(kind, base-expr) if n is a Member node naming a tracked pointer vector"""
    n = _deref_alias(n)
    if n is not None and n.get("k") == "Member":
        m = VEC_RE.search(n.get("qn", ""))
        if m:
            return m.group(1), n.get("b")
    return None


def obj_id(b):
    """identity of the object an expression denotes: 'this' or 'name#decl' (params/locals)"""
    b = _deref_alias(unwrap(b))
    if b is None:
        return None
    k = b.get("k")
    if k == "This":
        return "this"
    if k == "Un" and b.get("op") == "*" and b.get("e", {}).get("k") == "This":
        return "this"
    if k == "Ref" and b.get("dk") in ("param", "local"):
        return "%s#%s" % (b["n"], b["d"])
    return None


def parent_map(fn):
    par = {}
    roots = [i.get("init") for i in (fn.d.get("inits") or [])] + [fn.body]
    for r in roots:
        for n in walk(r):
            for c in children(n):
                par[id(c)] = n
    return par


# -------------------------------------------------------------------------------------------------
# class family
# -------------------------------------------------------------------------------------------------

class Family:
    def __init__(self, facts_list):
        self.facts_list = facts_list
        self.classes = {"Container", "SparseLayout"}       # short class names
        self.capable = set()                               # may hold foreign memory
        self.by_decl = {}
        self.by_key = {}
        for facts in facts_list:
            for fn in facts.functions:
                if fn.d.get("ctor"):
                    for i in fn.d.get("inits") or []:
                        if i.get("base") and str((i.get("init") or {}).get("ccls", "")).startswith("FEAT::LAFEM::Container<"):
                            self.classes.add(short(fn.cls))
        for facts in facts_list:
            for fn in facts.functions:
                if short(fn.cls) not in self.classes or fn.body is None:
                    continue
                self.by_decl[(id(facts), fn.d.get("decl"))] = fn
                self.by_key.setdefault(fkey(fn), fn)
                for n in fn.nodes():
                    if n.get("k") == "Assign" and n.get("op") == "=":
                        l = n["lhs"]
                        if l.get("k") == "Member" and FLAG_RE.search(l.get("qn", "")):
                            r = n["rhs"]
                            if not (r.get("k") == "Bool" and not r["v"]) and not (r.get("k") == "Member" and FLAG_RE.search(r.get("qn", ""))):
                                self.capable.add(short(fn.cls))

    def is_family_type(self, tstr):
        t = short(tstr or "").replace("const ", "").replace("&", "").replace("*", "").strip()
        return t in self.classes or t.split("::")[-1] in self.classes

    def cls_of_type(self, tstr):
        t = short(tstr or "").replace("const ", "").replace("&", "").replace("*", "").strip()
        return t

    def may_be_foreign(self, cls_short):
        return cls_short == "Container" or cls_short in self.capable

    def functions(self):
        for facts in self.facts_list:
            for fn in facts.functions:
                if short(fn.cls) in self.classes and fn.body is not None and fn.tk in ("inst", "plain", "spec"):
                    yield fn

    def called_on_this(self, fn):
        """is fn called - on this, or on another named object of the family (`other._forget_indices()` in a move constructor) - by
        some other analysed family function?  (The callers' interpretation then covers it in their state of the receiver.)"""
        memo = self.__dict__.setdefault("_callers", None)
        if memo is None:
            memo = set()
            for g in self.functions():
                for n in g.nodes():
                    if n.get("k") == "MCall" and n.get("cdecl") is not None:
                        ob = unwrap(n["obj"]) if n.get("obj") is not None else None
                        if ob is None or ob.get("k") == "This" or (ob.get("k") == "Ref" and ob.get("dk") in ("param", "local")) or \
                                (ob.get("k") == "Un" and ob.get("op") == "*" and unwrap(ob.get("e") or {}).get("k") == "This"):
                            memo.add((id(g.facts), n["cdecl"], g.d.get("decl")))
            self._callers = memo
        return any(a == id(fn.facts) and d == fn.d.get("decl") and who != fn.d.get("decl") for a, d, who in memo)

    def callee_fn(self, fn, call):
        f = self.by_decl.get((id(fn.facts), call.get("cdecl")))
        if f is not None:
            return f
        key = "%s(%s)" % (short(call.get("callee", "")), ",".join(short(fn.type(t)) for t in call.get("pt", [])))
        return self.by_key.get(key)


def enum_values(name, relpath="kernel/lafem/base.hpp"):
    """{enumerator: value} of `enum class <name>` parsed from the repository source (sequential values)"""
    try:
        txt = open(featlib.repo_path(relpath)).read()
    except OSError:
        return None
    m = re.search(r"enum\s+class\s+%s\s*\{(.*?)\}" % re.escape(name), txt, re.S)
    if not m:
        return None
    body = re.sub(r"/\*.*?\*/", "", m.group(1), flags=re.S)
    body = re.sub(r"//[^\n]*", "", body)
    out, val = {}, -1
    for item in body.split(","):
        item = item.strip()
        if not item:
            continue
        mm = re.match(r"^(\w+)\s*(?:=\s*(\d+))?$", item)
        if not mm:
            return None
        val = int(mm.group(2)) if mm.group(2) else val + 1
        out[mm.group(1)] = val
    return out


def is_inlined_helper(fam, fn):
    """context helpers (see Interp.is_context_helper) that have callers are interpreted inside their callers only"""
    if any(re.search(r"std::vector<[^<>]*\*[^<>]*>\s*&$", (fn.type(p_["t"]) or "").strip()) for p_ in fn.params):
        # a helper that works on pointer vectors handed in by reference (`_clone_alloc_arrays(dst, src, sizes, copy)`): it has no
        # container state of its own; its body is interpreted on the caller's vectors at every call site (Interp.vector_helper)
        callers = any(x.get("k") in ("Call", "MCall") and x.get("cdecl") == fn.d.get("decl") for g in fam.functions() if g is not fn and g.facts is fn.facts for x in g.nodes())
        if callers:
            return True
    if not (fn.name or "").startswith("_") or not fam.called_on_this(fn):
        return False
    return Interp(fam, fn).is_context_helper(fn)


def interpret_cases(fam, fn, summaries):
    """interpret fn once, or - if it takes a CloneMode parameter - once per enumerator (the enum is
    exhaustive, so the fall-through path of an if-chain over all enumerators is not a path).
    -> list of (case label, Interp)"""
    modep = [p["n"] for p in fn.params if short(fn.type(p["t"])).replace("const ", "").strip() == "CloneMode"]
    vals = enum_values("CloneMode") if modep else None
    if not modep or not vals:
        return [("", Interp(fam, fn, summaries=summaries).run())]
    return [("%s=%s" % (modep[0], name), Interp(fam, fn, env={modep[0]: v}, summaries=summaries).run()) for name, v in sorted(vals.items(), key=lambda kv: kv[1])]


def errors_in_family(fam, facts):
    """front-end errors located inside the body of a family function: its fact tree is unreliable"""
    out = []
    fns = [f for f in fam.functions() if f.facts is facts]
    for e in facts.errors_in_repo():
        locs = [(e["file"], e["line"])] + [(n["file"], n["line"]) for n in e.get("notes", []) if n["msg"].startswith("in instantiation of")]
        hit = None
        for (ef, el) in locs[:1]:
            for f in fns:
                if f.file == ef and f.line <= el <= f.end:
                    hit = f
                    break
        if hit is not None:
            out.append("front-end error inside %s (%s:%s): %s" % (fkey(hit), rel(e["file"]), e["line"], e["msg"][:140]))
        elif "/kernel/lafem/" in e["file"] or "/kernel/util/memory_pool" in e["file"]:
            # a function whose body does not compile is not dumped at all: no rule would see it.
            # known and unrelated: SparseMatrixBanded::ImageIterator::operator= assigns const members (only
            # instantiated by the whole-class explicit instantiation of the driver)
            if e["file"].endswith("sparse_matrix_banded.hpp") and "cannot assign to non-static data member" in e["msg"]:
                continue
            out.append("front-end error in %s:%s (the enclosing function is not analysable): %s" % (rel(e["file"]), e["line"], e["msg"][:140]))
    return sorted(set(out))


# -------------------------------------------------------------------------------------------------
# typestate
# -------------------------------------------------------------------------------------------------

class VS:
    """state of one pointer vector"""
    __slots__ = ("own", "g", "origin", "filled")

    def __init__(self, own, g=None, origin=frozenset(), filled=frozenset()):
        self.own, self.g, self.origin, self.filled = own, g, frozenset(origin), frozenset(filled)

    def key(self):
        return (self.own, self.g, self.origin, self.filled)

    def __eq__(self, o):
        return isinstance(o, VS) and self.key() == o.key()

    def __hash__(self):
        return hash(self.key())

    def __repr__(self):
        s = self.own + ("[%s]" % self.g if self.own == "VALID" else "")
        if self.origin:
            s += "{%s}" % ",".join(sorted(self.origin))
        if self.filled:
            s += "+copy"
        return s

    def with_(self, **kw):
        d = dict(own=self.own, g=self.g, origin=self.origin, filled=self.filled)
        d.update(kw)
        return VS(**d)


EMPTY = VS("EMPTY")


def join_vs(a, b):
    if a == b:
        return a
    if a.own == "EMPTY":
        return b
    if b.own == "EMPTY":
        return a
    if a.own == b.own and a.g == b.g:
        return VS(a.own, a.g, a.origin | b.origin, a.filled & b.filled)
    if {a.own, b.own} <= {"NOREF", "UNCOUNTED"}:
        return VS("NOREF", None, a.origin | b.origin)
    return VS("TOP", None, a.origin | b.origin)


def join_flag(a, b):
    return a if a == b else "U"


def join_state(a, b):
    if a is None:
        return b
    if b is None:
        return a
    out = {}
    for k in set(a) | set(b):
        if k[0] == "fs":
            if k in a and k in b and (a[k] & b[k]):
                out[k] = a[k] & b[k]
            continue
        if k[0] == "lenvar":
            if k in a and k in b and a[k] != b[k]:
                continue
            out[k] = a.get(k, b.get(k))
            continue
        if k[0] == "pval":
            # value assigned to an environment parameter: unknown as soon as the paths disagree (a path without the key still
            # has the caller's value)
            out[k] = a[k] if (k in a and k in b and a[k] == b[k] and type(a[k]) is type(b[k])) else "?"
            continue
        if k[0] == "val":
            # value of a flag / mode local: kept only if both paths agree (a path on which it was never set does not)
            if k in a and k in b and a[k] == b[k] and type(a[k]) is type(b[k]):
                out[k] = a[k]
            continue
        if k[0] == "pend":
            d = dict(a.get(k) or ())
            d.update(dict(b.get(k) or ()))
            if d:
                out[k] = tuple(sorted(d.items()))
            continue
        if k not in a or k not in b:
            # object (local) only known on one path: keep what is known
            out[k] = a.get(k, b.get(k))
            continue
        if k[0] == "flag":
            out[k] = join_flag(a[k], b[k])
        elif k[0] == "len":
            out[k] = join_len(a[k], b[k], "%s/%s" % (k[1].split("#")[0], k[2]))
        else:
            out[k] = join_vs(a[k], b[k])
    # object-level join: two different but each self-consistent states of one object join to
    # "consistent with its (now unknown) flag"
    for k in [k for k in out if k[0] == "flag"]:
        o = k[1]
        ks = [(o, "elements"), (o, "indices")]
        if any(x not in a or x not in b for x in ks) or k not in a or k not in b:
            continue
        if out[k] != "U" and all(out[x].own != "TOP" for x in ks):
            continue
        if all(consistent(a[x], a[k]) for x in ks) and all(consistent(b[x], b[k]) for x in ks):
            tag = "j:" + o.split("#")[0]
            out[k] = ("sym", tag)
            for x in ks:
                if a[x].own == "EMPTY" and b[x].own == "EMPTY":
                    out[x] = EMPTY
                else:
                    out[x] = VS("VALID", tag, a[x].origin | b[x].origin)
    return out


# ---- lengths of a pointer vector V and of its size vector V_size: (base symbol, offset) each ------
L0 = ("0", 0)


def add_len(a, b):
    """sum of two symbolic lengths (base, offset); bases are '+'-joined sorted symbol lists"""
    if a[0] == "0":
        return (b[0], a[1] + b[1])
    if b[0] == "0":
        return (a[0], a[1] + b[1])
    return ("+".join(sorted(a[0].split("+") + b[0].split("+"))), a[1] + b[1])


def len_opaque(l):
    return l[0] == "U" or l[0].startswith("e:")


def join_len(a, b, tag):
    """a, b: pairs (len V, len V_size)"""
    if a == b:
        return a
    if a[0] == a[1] and b[0] == b[1]:
        s = ("j:" + tag, 0)
        return (s, s)
    out = []
    for i, (x, y) in enumerate(zip(a, b)):
        if x == y:
            out.append(x)
        elif len_opaque(x) or len_opaque(y) or x[0] == y[0]:
            out.append(("U", 0))          # grows in a loop / unknown on one path
        else:
            out.append(("ne:%s%d" % (tag, i), 0))   # definitely different histories on the two paths
    return tuple(out)


def consistent(vs, flag):
    """is (vector state, flag) a state in which the object may be left alone (used, destroyed)?"""
    if vs.own == "EMPTY":
        return True
    if vs.own == "OWN":
        return flag == "F"
    if vs.own in ("NOREF", "UNCOUNTED"):
        return flag == "T"
    if vs.own == "VALID":
        return flag == ("sym", vs.g)
    return False


class Unknown(Exception):
    pass


_FALL = object()       # Interp.ret_value: the statement fell through
_NOVAL = object()      # Interp.ret_value: value not derivable


class Interp:
    """abstract interpretation of one function.  Results:
         obligations : list of (rule, subkey, ok, detail, line)
         exits       : list of (state, line)
         unknown     : list of unrecognised constructs (strings) -> analysis incomplete
         touched     : the function has at least one lifetime event
    """

    def __init__(self, fam, fn, env=None, summaries=None, depth=0):
        self.fam = fam
        self.fn = fn
        self.env = env or {}
        self.summaries = summaries if summaries is not None else {}
        self.depth = depth
        self.cls = short(fn.cls)
        self.obligations = []
        self.exits = []
        self.unknown = []
        self.touched = False
        self.taints = {}
        self.inline_accessors = False
        self.opaque_conds = []
        self.taint_all = None
        self.opaque_fills = set()
        self.init_state = None
        self.nevents = 0
        self.par = parent_map(fn)
        self.aliases = build_aliases(fn)
        _ALIAS.clear()
        _ALIAS.update(self.aliases)
        self.breaks = []
        self.conts = []
        self.fresh = 0
        self.copy_events = []     # (dst obj, vec, src obj, line) content copies (MemoryPool::copy/convert)
        self.localdefs = {}
        self.localvars = {}
        for n in fn.nodes():
            if n.get("k") == "Var" and n.get("init") is not None:
                self.localdefs[n["d"]] = n["init"]
                self.localvars[n["d"]] = n
        # branch conditions that depend on an environment parameter (the CloneMode under which the function is interpreted)
        # but could not be evaluated: both sides were interpreted and joined, so a per-mode table read off the exit
        # state is an over-approximation, not the table of that mode
        self.mode_undecided = []
        self.inlined_obs = []          # (helper id, rule, subkey, ok) of obligations that came from inlined helpers
        self._stable = {}
        self._cur = None          # the path state conditions are evaluated in (values of flag / mode locals assigned on the way)
        if self.env:
            for x in fn.nodes():
                t = None
                if x.get("k") == "Assign" and x.get("op") != "=":
                    t = unwrap(x["lhs"])
                elif x.get("k") == "Un" and x.get("op") in ("++", "--", "&"):
                    t = unwrap(x["e"])
                if t is not None and t.get("k") == "Ref" and t.get("dk") == "param" and t.get("n") in self.env:
                    self.unknown.append("parameter %s is modified at line %s: the interpretation under a fixed value of it is not valid" % (t["n"], x.get("l")))

    # ---- helpers -------------------------------------------------------------------------------
    def ob(self, rule, sub, ok, detail, line):
        self.nevents += 1
        if not ok:
            why = self.tainted_by(sub)
            if why:
                # the verdict would rest on the absence of an effect that an unmodelled construct may have had
                self.unk("%s of %s cannot be decided: %s" % (rule, sub, why))
                ok, detail = True, "undecided: " + why
        self.obligations.append((rule, sub, bool(ok), detail, line))

    def taint(self, o, why, kinds=("elements", "indices")):
        for k in kinds:
            self.taints.setdefault((o.split("#")[0], k), why)

    def tainted_by(self, sub):
        if self.taint_all:
            return self.taint_all
        m = re.match(r"^(\w+)\._(elements|indices)", sub)
        if m:
            return self.taints.get((m.group(1), m.group(2)))
        m = re.match(r"^(\w+)$", sub)
        if m:
            return self.taints.get((m.group(1), "elements")) or self.taints.get((m.group(1), "indices"))
        return None

    def unk(self, what, n=None):
        s = "%s%s" % (what, " at line %s: %s" % (n.get("l"), render(n)[:160]) if n is not None else "")
        if s not in self.unknown:
            self.unknown.append(s)

    def valid_for(self, cls_short, tag):
        """(vector state, flag) of a valid object of the class"""
        if cls_short.split("::")[-1] == "SparseLayout":
            return VS("OWN"), "F"
        if self.fam.may_be_foreign(cls_short):
            return VS("VALID", tag), ("sym", tag)
        return VS("OWN"), "F"

    def obj_type(self, b):
        b = unwrap(b)
        if b is None:
            return ""
        t = self.fn.ntype(b)
        return t

    def ensure(self, st, o, tstr=None):
        """make sure object o has a state (params / objects first seen): valid object of its type"""
        if ("flag", o) in st:
            return
        cls_short = self.fam.cls_of_type(tstr) if tstr else self.cls
        if o == "this":
            cls_short = self.cls
        vs, fl = self.valid_for(cls_short, o.split("#")[0] + "@entry")
        st[("flag", o)] = fl
        st[(o, "elements")] = vs
        st[(o, "indices")] = vs
        for kind in ("elements", "indices"):
            sym = ("n:%s@entry/%s" % (o.split("#")[0], kind), 0)
            st[("len", o, kind)] = (sym, sym)

    def set_valid(self, st, o, cls_short):
        self.fresh += 1
        vs, fl = self.valid_for(cls_short, "%s@%d" % (o.split("#")[0], self.fresh))
        st[("flag", o)] = fl
        st[(o, "elements")] = vs
        st[(o, "indices")] = vs
        for kind in ("elements", "indices"):
            sym = ("n:%s@%d/%s" % (o.split("#")[0], self.fresh, kind), 0)
            st[("len", o, kind)] = (sym, sym)

    # ---- entry ---------------------------------------------------------------------------------
    def run(self):
        saved = dict(_ALIAS)
        _ALIAS.clear()
        _ALIAS.update(self.aliases)
        try:
            return self._run()
        finally:
            _ALIAS.clear()
            _ALIAS.update(saved)

    def _run(self):
        fn = self.fn
        st = {}
        modelled = set()
        for n in fn.nodes():
            if is_call(n) and self.for_each_pool(n) is not None:
                modelled.add(id(n["a"][2]))
        for n in fn.nodes():
            if n.get("k") == "Lambda" and n.get("body") is not None and self.has_events(n["body"]) and id(n) not in modelled:
                self.taint_all = "a lambda at line %s works on the pointer vectors / MemoryPool" % n.get("l")
        if self.init_state is not None:
            st = dict(self.init_state)
            try:
                out = self.stmt(fn.body, st)
            except Unknown as e:
                self.unk(str(e))
                out = None
            if out is not None:
                self.exits.append((out, fn.end))
            return self
        if fn.d.get("ctor"):
            st[("flag", "this")] = "F" if self.cls == "SparseLayout" else "U"
            st[("this", "elements")] = EMPTY
            st[("this", "indices")] = EMPTY
            st[("len", "this", "elements")] = (L0, L0)
            st[("len", "this", "indices")] = (L0, L0)
            try:
                for i in fn.d.get("inits") or []:
                    st = self.ctor_init(i, st)
            except Unknown as e:
                self.unk(str(e))
        else:
            self.ensure(st, "this")
        try:
            out = self.stmt(fn.body, st)
        except Unknown as e:
            self.unk(str(e))
            out = None
        if out is not None:
            self.exits.append((out, fn.end))
        return self

    def ctor_init(self, i, st):
        init = i.get("init")
        if i.get("delegating") and init is not None and init.get("k") in ("Construct", "TempObj") and self.fam.is_family_type(init.get("ccls", "")):
            # `X(a, b, v) : X(a, b) { ... }`: the target constructor establishes the object; the body continues from its exit state
            return self.expr(init, st, base_init=True)
        if i.get("base"):
            if init is not None and (str(init.get("ccls", "")).startswith("FEAT::LAFEM::Container<") or self.fam.is_family_type(init.get("ccls", ""))):
                st = self.expr(init, st, base_init=True)
            else:
                st = self.expr(init, st)
            return st
        m = i.get("member", "")
        if m in ("_elements", "_indices") and self.cls in self.fam.classes:
            kind = m[1:]
            self.touched = True
            a = (init or {}).get("a") or []
            if init is None or init.get("k") not in ("Construct", "TempObj") or len(a) == 0:
                st[("this", kind)] = EMPTY
                return st
            src = a[0]
            cur = st.get(("len", "this", kind), (L0, L0))
            st[("len", "this", kind)] = (self.len_of_vec(src, st), cur[1])
            if src.get("k") == "Call" and src.get("callee") == "std::move":
                self.zero_len(src, st)
            moved = src.get("k") == "Call" and src.get("callee") == "std::move"
            s = unwrap(src)
            vm = vec_member(s)
            if vm and obj_id(vm[1]):
                o2 = obj_id(vm[1])
                self.ensure(st, o2, self.obj_type(vm[1]))
                if moved:
                    st[("this", kind)] = st[(o2, vm[0])].with_(origin={"move:" + o2.split("#")[0]})
                    # the moved-from std::vector of a move *constructor* is guaranteed empty
                    st[(o2, vm[0])] = EMPTY
                    if ("flag", "this") in st and st[("flag", "this")] == "U":
                        pass
                else:
                    st[("this", kind)] = VS("UNCOUNTED", None, {"copy:" + o2.split("#")[0]})
                return st
            if s.get("k") == "Ref" and s.get("dk") == "param":
                st[("this", kind)] = VS("UNCOUNTED", None, {"copy:" + s["n"]})
                return st
            raise Unknown("initialiser of %s: %s" % (m, render(init)[:120]))
        if m == "_foreign_memory":
            st[("flag", "this")] = self.flag_value(init, st)
            return st
        if m in ("_elements_size", "_indices_size") and self.cls in self.fam.classes:
            kind = m[1:-5]
            a = (init or {}).get("a") or []
            cur = st.get(("len", "this", kind), (L0, L0))
            if not a:
                st[("len", "this", kind)] = (cur[0], L0)
            else:
                moved = a[0].get("k") == "Call" and a[0].get("callee") == "std::move"
                st[("len", "this", kind)] = (cur[0], self.len_of_vec(a[0], st))
                if moved:
                    self.zero_len(a[0], st)
            return st
        return self.expr(init, st) if init is not None else st

    def flag_value(self, e, st):
        e = unwrap(e)
        if e.get("k") == "Bool":
            return "T" if e["v"] else "F"
        if e.get("k") == "Member" and FLAG_RE.search(e.get("qn", "")):
            o = obj_id(e.get("b"))
            if o:
                self.ensure(st, o, self.obj_type(e.get("b")))
                return st[("flag", o)]
        return "U"

    # ---- statements ----------------------------------------------------------------------------
    def stmt(self, n, st):
        if st is None or n is None:
            return st
        k = n.get("k")
        self._cur = st
        if k == "Block":
            stmts = n.get("s", [])
            i = 0
            while i < len(stmts):
                s = stmts[i]
                f = self.while_as_for(stmts, i)
                if f is not None:
                    s = f
                    i += 1
                st = self.stmt(s, st)
                if st is None:
                    break
                i += 1
            return st
        if k == "Null_":
            return st
        if k == "Decl":
            for v in n.get("vars", []):
                st = self.decl(v, st)
                if st is None:
                    break
            return st
        if k == "If":
            return self.if_(n, st)
        if k in ("For", "While", "Do", "ForRange"):
            return self.loop(n, st)
        if k == "Switch":
            return self.switch(n, st)
        if k == "Return":
            if n.get("e") is not None:
                st = self.expr(n["e"], st)
            if st is not None:
                self.exits.append((st, n.get("l")))
            return None
        if k == "Break":
            self.breaks.append(st)
            return None
        if k == "Continue":
            self.conts.append(st)
            return None
        if k == "Throw":
            return None
        if k == "OMP":
            return self.stmt(n.get("body"), st)
        if k == "Try":
            if self.has_events(n):
                raise Unknown("try block with lifetime events at line %s" % n.get("l"))
            return st
        if k in ("Case", "Default"):
            return self.stmt(n.get("s"), st)
        return self.expr(n, st)

    def while_as_for(self, stmts, i):
        """`T v(init); while(c(v)) { body; ++v; }` with v dead after the loop -> the equivalent For node (for <-> while)"""
        if i + 1 >= len(stmts):
            return None
        d, w = stmts[i], stmts[i + 1]
        if d.get("k") != "Decl" or len(d.get("vars", [])) != 1 or w.get("k") != "While" or w.get("c") is None:
            return None
        v = d["vars"][0]
        if v.get("init") is None or v.get("ref"):
            return None
        vd = v["d"]
        body = w.get("body") or {}
        items = body.get("s", []) if body.get("k") == "Block" else [body]
        if not items:
            return None
        last = items[-1]
        step = last.get("k") == "Un" and last.get("op") in ("++", "--") and unwrap(last["e"]).get("k") == "Ref" and unwrap(last["e"]).get("d") == vd
        if not step and last.get("k") in ("OpCall",) and last.get("op") in ("++", "--") and last.get("a") and unwrap(last["a"][0]).get("d") == vd:
            step = True
        if not step:
            # reverse form: `T v(n); while(v > 0) { --v; body; }` - the step leads the body
            first = items[0]
            if len(items) >= 2 and first.get("k") == "Un" and first.get("op") == "--" and unwrap(first["e"]).get("k") == "Ref" and unwrap(first["e"]).get("d") == vd \
                    and not self.reassigned_in({"k": "Block", "s": items[1:]}, vd) and not any(x.get("k") == "Continue" for x in walk(body)) \
                    and not any(x.get("k") == "Ref" and x.get("d") == vd for later in stmts[i + 2:] for x in walk(later)):
                return {"k": "For", "init": d, "c": w["c"], "inc": None, "body": body, "l": w.get("l"), "i": w.get("i")}
            return None
        if not any(x.get("k") == "Ref" and x.get("d") == vd for x in walk(w["c"])):
            return None
        rest = {"k": "Block", "s": items[:-1]}
        # the step must be the only modification of v, and no `continue` may skip it
        for x in walk(rest):
            if x.get("k") == "Continue":
                return None
        if self.reassigned_in(rest, vd):
            return None
        for later in stmts[i + 2:]:
            if any(x.get("k") == "Ref" and x.get("d") == vd for x in walk(later)):
                return None
        return {"k": "For", "init": d, "c": w["c"], "inc": last, "body": rest if len(items) != 2 else items[0], "l": w.get("l"), "i": w.get("i")}

    def decl(self, v, st):
        init = v.get("init")
        t = self.fn.type(v.get("t"))
        o = "%s#%s" % (v["n"], v["d"])
        if init is not None:
            st = self.expr(init, st, decl_obj=o)
            if st is None:
                return None
            # hoisted loop bound `const std::size_t n(O.V.size())`: the abstract length of the vector at this point
            sz = self.size_call_of(init)
            if sz is not None and not v.get("ref"):
                st[("lenvar", v["d"])] = self.len_of_vec(sz, st)
            if not v.get("ref") and re.search(r"\bbool\b|CloneMode|\b(int|unsigned|long|short|char)\b", t or ""):
                self._cur = st
                self.track_value(st, v["d"], init)
        if self.fam.is_family_type(t) and not v.get("ref") and "*" not in t:
            if (("flag", o)) not in st:
                self.set_valid(st, o, self.fam.cls_of_type(t))
        elif self.fam.is_family_type(t) and v.get("ref") and init is not None and obj_id(init):
            if v["d"] not in self.aliases and self.has_events_on(o.split("#")[0]):
                raise Unknown("reference alias %s of a container with lifetime events" % v["n"])
        return st

    def size_call_of(self, e):
        """X if e is `X.size()` (through casts / value-initialising wrappers) of a tracked pointer vector, size vector or getter"""
        e = unwrap(e)
        while e is not None and e.get("k") in ("Construct", "TempObj") and len(e.get("a", [])) == 1:
            e = unwrap(e["a"][0])
        if e is not None and e.get("k") == "MCall" and e.get("n") == "size" and e.get("obj") is not None:
            x = unwrap(e["obj"])
            if vec_member(x) or size_member(x) or (x.get("k") == "MCall" and x.get("n") in ("get_elements", "get_indices", "get_elements_size", "get_indices_size")):
                return e["obj"]
        return None

    def hoisted_len(self, e, st):
        """abstract length a loop bound denotes: `X.size()` now, or a single-assignment local initialised with it earlier"""
        e = unwrap(e)
        while e is not None and e.get("k") in ("Construct", "TempObj") and len(e.get("a", [])) == 1:
            e = unwrap(e["a"][0])
        if e is None:
            return None
        if e.get("k") == "Ref" and e.get("dk") == "local" and st is not None and ("lenvar", e.get("d")) in st and self.stable_init(e) is not None:
            return st[("lenvar", e["d"])]
        return None

    def has_events(self, n):
        for x in walk(n):
            if vec_member(x) or (is_call(x) and str(x.get("callee", "")).startswith(POOL + ("release_memory")) or str(x.get("callee", "")).startswith(POOL + "increase_memory")):
                return True
            if x.get("k") in ("Call", "MCall") and len(x.get("a") or []) == 1 and short(x.get("ccls", "")) in self.fam.classes and self.depth < 3 and self.pool_callee(x) is not None:
                return True
        return False

    def has_mutations(self, n):
        """does the expression change the tracked state (pool calls, vector mutators, flag writes, non-const family methods)?"""
        for x in walk(n):
            if is_call(x) and str(x.get("callee", "")).startswith(POOL) and not str(x.get("callee", "")).endswith("allocated_size"):
                return True
            if x.get("k") == "MCall" and x.get("obj") is not None and (vec_member(x["obj"]) or size_member(x["obj"])):
                if x.get("n") not in VEC_READS | VEC_SLOT or self.is_written(x):
                    return True
            if x.get("k") == "OpCall" and x.get("op") == "=" and x.get("a") and (vec_member(x["a"][0]) or size_member(x["a"][0])):
                return True
            if x.get("k") == "Assign" and unwrap(x["lhs"]).get("k") == "Member" and FLAG_RE.search(unwrap(x["lhs"]).get("qn", "")):
                return True
            if x.get("k") == "MCall" and short(x.get("ccls", "")) in self.fam.classes and not x.get("cconst") and not x.get("cstatic"):
                return True
        return False

    def has_events_on(self, name):
        for x in self.fn.nodes():
            vm = vec_member(x)
            if vm and (unwrap(vm[1]) or {}).get("n") == name:
                return True
        return False

    # conditions ---------------------------------------------------------------------------------
    def eval_cond(self, c):
        """True/False/None under self.env (enum-valued parameters fixed by the caller)"""
        c = unwrap(c)
        k = c.get("k")
        if k == "Bool":
            return bool(c["v"])
        if k == "Ref" and c.get("dk") == "param" and c.get("n") in self.env:
            v = self.param_value(c)
            return v if isinstance(v, bool) else None
        if k == "Ref" and c.get("dk") == "local":
            # named temporary for a test (`const bool copy_content(clone_mode == CloneMode::Deep)`): copy propagation;
            # a flag assigned on the way (`bool copy = false; if(mode == Deep) copy = true;`): its value on this path
            v = self.tracked_value(c)
            if v is not None:
                return bool(v)
            init = self.pure_stable_init(c)
            return self.eval_cond(init) if init is not None else None
        if k in ("Construct", "TempObj") and len(c.get("a", [])) == 1 and not short(c.get("ccls", "")) in self.fam.classes:
            return self.eval_cond(c["a"][0])
        if k == "Cond":
            v = self.eval_cond(c["c"])
            if v is None:
                a, b = self.eval_cond(c["then"]), self.eval_cond(c["else"])
                return a if a is not None and a == b else None
            return self.eval_cond(c["then"] if v else c["else"])
        if k in ("Call", "MCall") and not c.get("noreturn"):
            v = self.eval_call(c)
            return None if v is None else bool(v)
        if k == "Bin" and c.get("op") in ("<", "<=", ">", ">="):
            a, b = self.const_of(c["lhs"]), self.const_of(c["rhs"])
            if a is None or b is None or isinstance(a, bool) or isinstance(b, bool):
                return None
            return {"<": a < b, "<=": a <= b, ">": a > b, ">=": a >= b}[c["op"]]
        if k == "Ref" and c.get("v") is not None and c.get("dk") in ("smember", "global", "tparam", "enum"):
            try:
                return bool(int(c["v"]))          # compile-time constant (std::is_same<...>::value, ...)
            except ValueError:
                return None
        if k == "Un" and c.get("op") == "!":
            v = self.eval_cond(c["e"])
            return None if v is None else (not v)
        if k == "Bin" and c.get("op") in ("||", "&&"):
            a, b = self.eval_cond(c["lhs"]), self.eval_cond(c["rhs"])
            if c["op"] == "||":
                if a is True or b is True:
                    return True
                if a is False and b is False:
                    return False
                return None
            if a is False or b is False:
                return False
            if a is True and b is True:
                return True
            return None
        if k == "Bin" and c.get("op") in ("==", "!="):
            a, b = self.const_of(c["lhs"]), self.const_of(c["rhs"])
            if a is None or b is None:
                # comparison of two truth values (`copy_content == true`, `a == b` on bools)
                if "bool" in self.fn.ntype(unwrap(c["lhs"])) and "bool" in self.fn.ntype(unwrap(c["rhs"])):
                    a, b = self.eval_cond(c["lhs"]), self.eval_cond(c["rhs"])
                if a is None or b is None:
                    return None
            return (a == b) if c["op"] == "==" else (a != b)
        return None

    def const_of(self, e):
        e = unwrap(e)
        k = e.get("k")
        if k == "Cond":
            v = self.eval_cond(e["c"])
            if v is None:
                a, b = self.const_of(e["then"]), self.const_of(e["else"])
                return a if a is not None and a == b else None
            return self.const_of(e["then"] if v else e["else"])
        if k == "Ref":
            if e.get("dk") == "param" and e["n"] in self.env:
                return self.param_value(e)
            if e.get("dk") == "enum" and e.get("v") is not None:
                return int(e["v"])
            if e.get("dk") == "local":
                # `const CloneMode mode(clone_mode);` / `const int m = int(clone_mode);`
                v = self.tracked_value(e)
                if v is not None:
                    return v
                init = self.pure_stable_init(e)
                return self.const_of(init) if init is not None else None
            if e.get("v") is not None and e.get("dk") in ("smember", "global", "tparam"):
                try:
                    return int(e["v"])
                except ValueError:
                    return None
        if k in ("Construct", "TempObj") and len(e.get("a", [])) == 1 and not short(e.get("ccls", "")) in self.fam.classes:
            return self.const_of(e["a"][0])
        if k == "Int":
            return int(e["v"])
        if k == "Bool":
            return bool(e["v"])
        if k in ("Call", "MCall") and not e.get("noreturn"):
            return self.eval_call(e)
        return None

    # ---- copy propagation / helper predicates ----------------------------------------------------
    def stable_init(self, ref):
        """initialiser of a single-assignment local (never assigned, stepped, address-taken or bound to a mutable
        reference parameter after its declaration); None otherwise"""
        d = ref.get("d")
        if d not in self.localdefs:
            return None
        if d not in self._stable:
            ok = not self.reassigned(d)
            var = self.localvars.get(d) or {}
            if ok and not var.get("const"):
                for x in self.fn.nodes():
                    if is_call(x):
                        pts = x.get("pt") or []
                        for i, a in enumerate(x.get("a") or []):
                            a0 = unwrap(a)
                            if a0.get("k") == "Ref" and a0.get("d") == d:
                                t = self.fn.type(pts[i]) if i < len(pts) else ""
                                if t.rstrip().endswith("&") and not t.startswith("const "):
                                    ok = False
                    if x.get("k") == "Var" and x.get("ref") and not x.get("const") and x.get("init") is not None \
                            and unwrap(x["init"]).get("k") == "Ref" and unwrap(x["init"]).get("d") == d:
                        ok = False
            if ok and var.get("ref"):
                ok = False          # a reference local denotes something else
            self._stable[d] = ok
        return self.localdefs[d] if self._stable[d] else None

    def param_value(self, ref):
        """value of an environment parameter on the current path: the caller's value, or what the function assigned to it
        (`if(clone_mode == CloneMode::Weak) clone_mode = CloneMode::Shallow;`); None once paths disagree / the value is unknown"""
        cur = self._cur
        if cur is not None and ("pval", ref.get("d")) in cur:
            v = cur[("pval", ref["d"])]
            return None if v == "?" else v
        return self.env.get(ref.get("n"))

    def tracked_value(self, ref):
        cur = self._cur
        if cur is not None:
            return cur.get(("val", ref.get("d")))
        return None

    def pure_stable_init(self, ref, depth=0):
        """stable_init, provided the initialiser reads no local that is itself assigned later (its value at the declaration
        could differ from its value now)"""
        init = self.stable_init(ref)
        if init is None or depth > 4:
            return None
        for x in walk(init):
            if x.get("k") == "Ref" and x.get("dk") == "local" and x.get("d") != ref.get("d"):
                if self.pure_stable_init(x, depth + 1) is None and x.get("d") in self.localdefs:
                    return None
                if x.get("d") not in self.localdefs:
                    return None
        return init

    def track_value(self, st, d, e):
        v = self.value_of(e) if e is not None else None
        if v is None:
            st.pop(("val", d), None)
        else:
            st[("val", d)] = v

    def any_callee(self, call):
        """the analysed function (family or not: free / static helpers of the repository) a call resolves to"""
        f = self.fam.callee_fn(self.fn, call)
        if f is not None:
            return f
        facts = self.fn.facts
        idx = facts.__dict__.get("_lr_by_decl")
        if idx is None:
            idx = {}
            for g in facts.functions:
                if g.body is not None and g.d.get("decl") is not None:
                    idx[g.d["decl"]] = g
            facts.__dict__["_lr_by_decl"] = idx
        return idx.get(call.get("cdecl"))

    def eval_call(self, call):
        """value (bool / int) of a call to a small side-effect-free helper of the repository whose arguments are constants
        under self.env - `copies_content(clone_mode)`, `is_deep(mode)`, a constexpr table lookup: the callee's body is
        evaluated with its parameters bound (bounded depth, non-virtual).  None if it is not of that form."""
        if self.depth > 3 or call.get("k") not in ("Call", "MCall"):
            return None
        callee = self.any_callee(call)
        if callee is None or callee.body is None or callee.d.get("virtual") or callee is self.fn:
            return None
        args = call.get("a") or []
        if len(args) != len(callee.params):
            return None
        env = {}
        for p, a in zip(callee.params, args):
            v = self.value_of(a)
            if v is not None:
                env[p["n"]] = v
        if not env and callee.params:
            return None
        # the callee must not work on the tracked vectors / the pool / any state: only returns, ifs, switches, const locals
        saved = dict(_ALIAS)
        try:
            sub = Interp(self.fam, callee, env=env, depth=self.depth + 1)
            if sub.unknown:
                return None
            r = sub.ret_value(callee.body)
        finally:
            _ALIAS.clear()
            _ALIAS.update(saved)
        return None if r in (_FALL, _NOVAL) else r

    def value_of(self, e):
        e0 = unwrap(e)
        t = self.fn.ntype(e0) if e0.get("t") is not None else ""
        if e0.get("k") == "Bool" or (e0.get("k") == "Bin" and e0.get("op") in ("==", "!=", "<", "<=", ">", ">=", "&&", "||")) \
                or (e0.get("k") == "Un" and e0.get("op") == "!") or re.match(r"^(const )?bool\b", t or ""):
            return self.eval_cond(e0)
        v = self.const_of(e0)
        return v

    def ret_value(self, n):
        """value returned by a side-effect-free body under self.env; _FALL (fell through), _NOVAL (not derivable)"""
        if n is None:
            return _FALL
        k = n.get("k")
        if k == "Block":
            for s in n.get("s", []):
                r = self.ret_value(s)
                if r is not _FALL:
                    return r
            return _FALL
        if k in ("Null_",):
            return _FALL
        if k == "Decl":
            for v in n.get("vars", []):
                if v.get("init") is not None and any(is_call(x) and x.get("k") in ("Call", "MCall") and self.any_callee(x) is None and
                                                      not str(x.get("callee", "")).startswith("std::") for x in walk(v["init"])):
                    return _NOVAL
            return _FALL
        if k == "If":
            v = self.eval_cond(n["c"])
            if v is None and n.get("constexpr"):
                th, el = n.get("then"), n.get("else")
                if th is not None and th.get("k") == "Null_":
                    return self.ret_value(el)
                if el is not None and el.get("k") == "Null_":
                    return self.ret_value(th)
            if v is None:
                return _NOVAL
            return self.ret_value(n.get("then")) if v else self.ret_value(n.get("else"))
        if k == "Switch":
            val = self.const_of(n["c"])
            if val is None:
                return _NOVAL
            body = n.get("body") or {}
            items = body.get("s", []) if body.get("k") == "Block" else [body]
            start, default_at = None, None
            flat = []
            for s in items:
                inner = s
                while inner is not None and inner.get("k") in ("Case", "Default"):
                    if inner.get("k") == "Default":
                        default_at = len(flat)
                    else:
                        cv = self.const_of(inner.get("v") or {})
                        if cv is None:
                            return _NOVAL
                        if cv == val and start is None:
                            start = len(flat)
                    inner = inner.get("s")
                if inner is not None:
                    flat.append(inner)
            if start is None:
                start = default_at
            if start is None:
                return _FALL
            for s in flat[start:]:
                if s.get("k") == "Break":
                    return _FALL
                r = self.ret_value(s)
                if r is not _FALL:
                    return r
            return _FALL
        if k == "Return":
            if n.get("e") is None:
                return _NOVAL
            v = self.value_of(n["e"])
            return _NOVAL if v is None else v
        if is_call(n) and n.get("callee") == "FEAT::assertion":
            return _FALL
        return _NOVAL

    def depends_on_env(self, c, depth=0):
        """does the expression read an environment parameter (directly, through single-assignment locals, or as a call argument)?"""
        if not self.env or depth > 6:
            return False
        for x in walk(c):
            if x.get("k") == "Ref" and x.get("dk") == "param" and x.get("n") in self.env:
                return True
            if x.get("k") == "Ref" and x.get("dk") == "local":
                if x.get("d") in self.localdefs and self.depends_on_env(self.localdefs[x["d"]], depth + 1):
                    return True
                # a flag / mode local that is assigned after its declaration may be set under a test of the parameter
                # (control dependence): conservatively yes
                if self.reassigned(x["d"]) and re.search(r"\bbool\b|CloneMode|\bint\b", self.fn.ntype(x) or ""):
                    return True
        return False

    def refine(self, c, st, truth):
        """refine st by the branch condition c being `truth`"""
        c = unwrap(c)
        k = c.get("k")
        if k == "Ref" and c.get("dk") == "local" and c.get("d") in self.localdefs and not self.reassigned(c["d"]):
            init = self.localdefs[c["d"]]
            lo, hi = init.get("i", 0), c.get("i", 0)
            # the hoisted test is still valid if no _foreign_memory flag is written in between
            stale = any(x.get("k") == "Assign" and unwrap(x["lhs"]).get("k") == "Member" and FLAG_RE.search(unwrap(x["lhs"]).get("qn", ""))
                        and lo < x.get("i", 0) < hi for x in self.fn.nodes())
            if not stale:
                return self.refine(init, st, truth)
            return st
        if k == "Un" and c.get("op") == "!":
            return self.refine(c["e"], st, not truth)
        if k == "Bin" and c.get("op") in ("==", "!=") and c["rhs"].get("k") == "Bool":
            t = truth if c["op"] == "==" else not truth
            return self.refine(c["lhs"], st, t if c["rhs"]["v"] else not t)
        if k == "Bin" and ((c.get("op") == "&&" and truth) or (c.get("op") == "||" and not truth)):
            st = self.refine(c["lhs"], st, truth)
            return self.refine(c["rhs"], st, truth)
        if k == "MCall" and not c.get("a") and short(c.get("ccls", "")) in self.fam.classes and (c.get("obj") is None or obj_id(c.get("obj")) == "this") \
                and getattr(self, "_refine_depth", 0) < 2:
            # guard spelled as a predicate of this object (`bool _owns_arrays() const { return !_foreign_memory; }`)
            callee = self.fam.callee_fn(self.fn, c)
            rx = single_return_expr(callee) if callee is not None and not callee.d.get("virtual") else None
            if rx is not None and any(x.get("k") == "Member" and FLAG_RE.search(x.get("qn", "")) for x in walk(rx)):
                self._refine_depth = getattr(self, "_refine_depth", 0) + 1
                try:
                    return self.refine(rx, st, truth)
                finally:
                    self._refine_depth -= 1
        if k == "Member" and FLAG_RE.search(c.get("qn", "")):
            o = obj_id(c.get("b"))
            if o is None:
                return st
            st = dict(st)
            self.ensure(st, o, self.obj_type(c.get("b")))
            old = st[("flag", o)]
            st[("flag", o)] = "T" if truth else "F"
            for kind in ("elements", "indices"):
                vs = st[(o, kind)]
                if vs.own == "VALID" and old == ("sym", vs.g):
                    st[(o, kind)] = VS("NOREF" if truth else "OWN", None, vs.origin)
            return st
        # V.empty()  /  V.size() == 0
        tgt = None
        if k == "MCall" and c.get("n") == "empty" and vec_member(c.get("obj")):
            tgt, when = c["obj"], truth
        elif k == "Bin" and c.get("op") in ("==", "!=") and c["lhs"].get("k") == "MCall" and c["lhs"].get("n") == "size" \
                and vec_member(c["lhs"].get("obj")) and c["rhs"].get("k") == "Int" and c["rhs"]["v"] == "0":
            tgt, when = c["lhs"]["obj"], (truth if c["op"] == "==" else not truth)
        if tgt is not None and when:
            kind, b = vec_member(tgt)
            o = obj_id(b)
            if o:
                st = dict(st)
                self.ensure(st, o, self.obj_type(b))
                st[(o, kind)] = EMPTY
        return st

    def if_(self, n, st):
        c = n["c"]
        if n.get("constexpr"):
            th, el = n.get("then"), n.get("else")
            if th is not None and th.get("k") == "Null_":
                return self.stmt(el, st) if el is not None else st
            if el is not None and el.get("k") == "Null_":
                return self.stmt(th, st)
            if el is None:
                # condition true without else, or both kept: fall through to the generic treatment
                v = self.eval_cond(c)
                if v is None and c.get("k") == "Ref" and c.get("v") is not None:
                    v = bool(int(c["v"]))
                if v is True:
                    return self.stmt(th, st)
                if v is False:
                    return st
        st = self.expr(c, st)
        if st is None:
            return None
        self._cur = st
        v = self.eval_cond(c)
        if v is None and self.env and self.depends_on_env(c):
            self.mode_undecided.append("`%s` (line %s)" % (render(c)[:80], n.get("l")))
        a = b = None
        s1, s2 = self.refine(c, dict(st), True), self.refine(c, dict(st), False)
        # a condition the interpreter learns nothing from may be a guard in disguise (if(owns_arrays()) ...)
        opaque = v is None and s1 == st and s2 == st and any(
            (is_call(x) and short(x.get("ccls", "")) in self.fam.classes) or (x.get("k") == "Ref" and x.get("dk") == "local" and "bool" in self.fn.ntype(x))
            or (x.get("k") == "Member" and FLAG_RE.search(x.get("qn", ""))) for x in walk(c))
        if opaque:
            self.opaque_conds.append(render(c)[:60])
        try:
            if v is not False:
                a = self.stmt(n.get("then"), s1)
            if v is not True:
                b = self.stmt(n["else"], s2) if n.get("else") is not None else s2
        finally:
            if opaque:
                self.opaque_conds.pop()
        return join_state(a, b)

    def pool_loop(self, n, st=None):
        """recognise `for(i=0; i<O.V.size(); ++i) MemoryPool::release|increase_memory(O.V.at(i))` and the
        range-for equivalent.  -> (what, obj-expr, kind, range-ok, call) or None"""
        body = n.get("body")
        while body is not None and body.get("k") == "Block" and len(body.get("s", [])) == 1:
            body = body["s"][0]
        # `{ T* const p = V.at(i); f(p); }` - the element named first; `{ --i; f(V.at(i)); }` - reverse loop stepping in the body
        named = {}
        pre_dec = None
        if body is not None and body.get("k") == "Block" and len(body.get("s", [])) == 2:
            s0, s1 = body["s"]
            if s0.get("k") == "Decl" and len(s0.get("vars", [])) == 1 and s0["vars"][0].get("init") is not None and s1.get("k") in ("Call", "MCall"):
                named[s0["vars"][0]["d"]] = s0["vars"][0]["init"]
                body = s1
            elif s0.get("k") == "Un" and s0.get("op") == "--" and unwrap(s0["e"]).get("k") == "Ref" and s1.get("k") in ("Call", "MCall") and n.get("inc") is None:
                pre_dec = unwrap(s0["e"])["d"]
                body = s1
        if body is None or body.get("k") not in ("Call", "MCall"):
            return None
        cal = self.pool_callee(body)
        if cal is None or len(body.get("a", [])) != 1:
            return None
        what = "REL" if cal.endswith("release_memory") else "INC"
        arg = unwrap(body["a"][0])
        if arg.get("k") == "Ref" and arg.get("d") in named:
            arg = unwrap(named[arg["d"]])
            while arg.get("k") in ("Construct", "TempObj") and len(arg.get("a", [])) == 1:
                arg = unwrap(arg["a"][0])
        elif named:
            return None
        if n["k"] == "ForRange":
            rng = unwrap(n.get("range"))
            vm = vec_member(rng)
            var = n.get("var") or {}
            if vm and arg.get("k") == "Ref" and arg.get("d") == var.get("d"):
                return what, vm[1], vm[0], True, body
            return None
        if n["k"] != "For":
            return None
        # iterator form: for(auto it = O.V.begin(); it != O.V.end(); ++it) f(*it)
        init0 = n.get("init")
        if init0 is not None and init0.get("k") == "Decl" and len(init0["vars"]) == 1 and init0["vars"][0].get("init") is not None:
            v0 = init0["vars"][0]
            i0 = unwrap(v0["init"])
            while i0.get("k") in ("Construct", "TempObj") and len(i0.get("a", [])) == 1:
                i0 = unwrap(i0["a"][0])
            if i0.get("k") == "MCall" and i0.get("n") in ("begin", "cbegin") and vec_member(i0.get("obj")):
                kind0, b0 = vec_member(i0["obj"])
                deref = arg.get("k") in ("OpCall", "Un") and arg.get("op") == "*" and \
                    unwrap((arg.get("a") or [arg.get("e")])[0] or {}).get("d") == v0["d"]
                c0 = unwrap(n.get("c") or {})
                ops = c0.get("a") or [c0.get("lhs"), c0.get("rhs")]
                endok = c0.get("op") in ("!=", "<") and len(ops) == 2 and ops[0] is not None and unwrap(ops[0]).get("d") == v0["d"]
                e0 = unwrap(ops[1]) if endok else {}
                while e0.get("k") in ("Construct", "TempObj") and len(e0.get("a", [])) == 1:
                    e0 = unwrap(e0["a"][0])
                inc0 = n.get("inc") or {}
                incok = inc0.get("op") == "++" and unwrap((inc0.get("a") or [inc0.get("e")])[0] or {}).get("d") == v0["d"]
                if deref and endok and incok and e0.get("k") == "MCall" and e0.get("n") in ("end", "cend") and vec_member(e0.get("obj")):
                    k1, b1 = vec_member(e0["obj"])
                    return what, b0, kind0, (k1 == kind0 and obj_id(b1) == obj_id(b0)), body
        # pointer-range form: for(T** p = O.V.data(); p != O.V.data() + O.V.size(); ++p) f(*p)   (end possibly hoisted)
        if init0 is not None and init0.get("k") == "Decl" and len(init0["vars"]) >= 1 and init0["vars"][0].get("init") is not None:
            v0 = init0["vars"][0]
            vb = self.vec_base_ptr(v0["init"])
            if vb is not None and "*" in (self.fn.type(v0.get("t")) or ""):
                kind0, b0 = vb
                deref = (arg.get("k") == "Un" and arg.get("op") == "*" and unwrap(arg["e"]).get("d") == v0["d"]) or \
                    (arg.get("k") == "Index" and unwrap(arg["b"]).get("d") == v0["d"] and unwrap(arg["idx"]).get("k") == "Int" and unwrap(arg["idx"])["v"] == "0")
                c0 = unwrap(n.get("c") or {})
                inc0 = n.get("inc") or {}
                incok = inc0.get("k") == "Un" and inc0.get("op") == "++" and unwrap(inc0["e"]).get("d") == v0["d"]
                if deref and incok and c0.get("k") == "Bin" and c0.get("op") in ("!=", "<") and unwrap(c0["lhs"]).get("d") == v0["d"]:
                    e0 = unwrap(c0["rhs"])
                    if e0.get("k") == "Ref" and e0.get("dk") == "local":
                        # the end pointer declared next to the cursor or hoisted before the loop
                        e1 = None
                        for vv in init0["vars"][1:]:
                            if vv["d"] == e0.get("d"):
                                e1 = vv.get("init")
                        if e1 is None:
                            e1 = self.stable_init(e0)
                        e0 = unwrap(e1) if e1 is not None else {}
                    ve = self.vec_end_ptr(e0)
                    if ve is not None:
                        return what, b0, kind0, (ve[0] == kind0 and obj_id(ve[1]) == obj_id(b0)), body
                    return None
        # slot expression O.V.at(i) / O.V[i]
        slot = None
        if arg.get("k") == "MCall" and arg.get("n") in ("at", "operator[]") and vec_member(arg.get("obj")):
            slot = (arg["obj"], arg["a"][0])
        elif arg.get("k") == "OpCall" and arg.get("op") == "[]" and vec_member(arg["a"][0]):
            slot = (arg["a"][0], arg["a"][1])
        if slot is None:
            return None
        kind, b = vec_member(slot[0])
        idx = unwrap(slot[1])
        init = n.get("init")
        # reverse index form (the order of the independent release / increase calls does not matter):
        #   for(i = O.V.size(); i > 0; --i) f(O.V.at(i - 1))      for(i = O.V.size(); i > 0;) { --i; f(O.V.at(i)); }
        #   for(i = O.V.size(); i-- > 0;) f(O.V.at(i))
        rv = self.reverse_index_loop(n, idx, pre_dec, st, b, kind)
        if rv is not None:
            return what, b, kind, rv == "ok", body
        if pre_dec is not None:
            return None
        ivar = None
        if init is not None and init.get("k") == "Decl" and len(init["vars"]) == 1:
            v = init["vars"][0]
            if v.get("init") is not None and unwrap(v["init"]).get("k") == "Int" and unwrap(v["init"])["v"] == "0":
                ivar = v["d"]
        if ivar is None or idx.get("k") != "Ref" or idx.get("d") != ivar:
            return None
        inc = n.get("inc") or {}
        if not (inc.get("k") == "Un" and inc.get("op") == "++" and unwrap(inc["e"]).get("d") == ivar):
            return None
        c = n.get("c") or {}
        rng_ok = False
        if c.get("k") == "Bin" and c.get("op") in ("<", "!=") and unwrap(c["lhs"]).get("d") == ivar:
            r = unwrap(c["rhs"])
            if r.get("k") == "MCall" and r.get("n") == "size":
                vm2 = vec_member(r.get("obj"))
                if vm2 and vm2[0] == kind and obj_id(vm2[1]) == obj_id(b):
                    rng_ok = True
                elif vm2:
                    rng_ok = False
                else:
                    return None
            else:
                # hoisted bound: a single-assignment local that recorded the length of a tracked vector; it bounds this
                # loop correctly iff that length is the present length of the vector whose slots are passed
                hl = self.hoisted_len(r, st)
                o_ = obj_id(b)
                if hl is None or o_ is None or st is None or ("len", o_, kind) not in st:
                    return None
                cur = st[("len", o_, kind)][0]
                if len_opaque(hl) or len_opaque(cur):
                    return None
                rng_ok = hl == cur
        else:
            return None
        return what, b, kind, rng_ok, body

    def pool_callee(self, call, depth=0):
        """POOL::release_memory / POOL::increase_memory if the call is one of them or a thin wrapper around one
        (`static void _release(DT_* p) { MemoryPool::release_memory(p); }`), else None"""
        cal = call.get("callee", "")
        if cal in (POOL + "release_memory", POOL + "increase_memory"):
            return cal
        if call.get("k") not in ("Call", "MCall") or len(call.get("a") or []) != 1 or depth > 1 or str(cal).startswith("std::"):
            return None
        g = self.any_callee(call)
        if g is None or g.body is None or len(g.params) != 1 or g.d.get("virtual"):
            return None
        body = g.body
        while body is not None and body.get("k") == "Block" and len([x for x in body.get("s", []) if x.get("k") != "Null_"]) == 1:
            body = [x for x in body["s"] if x.get("k") != "Null_"][0]
        if body is None or body.get("k") not in ("Call", "MCall") or len(body.get("a") or []) != 1:
            return None
        a0 = unwrap(body["a"][0])
        if a0.get("k") != "Ref" or a0.get("d") != g.params[0]["d"]:
            return None
        saved = dict(_ALIAS)
        try:
            sub = Interp(self.fam, g, depth=self.depth + 1)
            return sub.pool_callee(body, depth + 1)
        finally:
            _ALIAS.clear()
            _ALIAS.update(saved)

    def vector_helper(self, call):
        """the analysed function behind a call that receives tracked pointer / size vectors by reference
        (`static void _clone_alloc_arrays(std::vector<T*>& dst, const std::vector<T*>& src, const std::vector<Index>& sizes, bool copy)`):
        a static or same-object, non-virtual helper of the repository whose body is interpreted on the caller's vectors"""
        if self.depth > 3 or call.get("k") not in ("Call", "MCall"):
            return None
        args = call.get("a") or []
        if not any(vec_member(unwrap(a)) or size_member(unwrap(a)) for a in args):
            return None
        if call.get("k") == "MCall" and not call.get("cstatic") and not (call.get("obj") is None or obj_id(call.get("obj")) == "this"):
            return None
        g = self.any_callee(call)
        if g is None or g.body is None or g is self.fn or g.d.get("virtual") or len(g.params) != len(args) or str(call.get("callee", "")).startswith("std::"):
            return None
        for p_, a in zip(g.params, args):
            if vec_member(unwrap(a)) or size_member(unwrap(a)):
                if not (g.type(p_["t"]) or "").rstrip().endswith("&"):
                    return None          # passed by value: a copy of the pointers, not the member
        return g

    def inline_vector_helper(self, call, g, st):
        bind = {}
        for p_, a in zip(g.params, call.get("a") or []):
            a0 = _deref_alias(unwrap(a))
            if vec_member(a0) or size_member(a0):
                bind[p_["d"]] = a0
        saved = dict(_ALIAS)
        try:
            sub = Interp(self.fam, g, env=self.call_env(g, call), summaries=self.summaries, depth=self.depth + 1)
            sub.aliases = dict(sub.aliases)
            sub.aliases.update(bind)
            sub.init_state = dict(st)
            sub.run()
        finally:
            _ALIAS.clear()
            _ALIAS.update(saved)
        for u in sub.unknown:
            self.unk("in helper %s: %s" % (short(g.qn), u))
        for (r, sub_, ok, det, line) in sub.obligations:
            self.nevents += 1
            self.obligations.append((r, sub_, ok, ("[in helper %s] " % short(g.qn)) + det if not ok else det, line))
        for kk, why in sub.taints.items():
            self.taints.setdefault(kk, why)
        if sub.taint_all and not self.taint_all:
            self.taint_all = sub.taint_all
        self.copy_events.extend(sub.copy_events)
        self.mode_undecided.extend(sub.mode_undecided)
        self.opaque_fills |= sub.opaque_fills
        self.touched = self.touched or sub.touched
        out = None
        for s_, _l in sub.exits:
            out = join_state(out, s_)
        if out is None:
            return None          # the helper never returns normally
        # locals of the helper do not outlive it
        return {k_: v_ for k_, v_ in out.items() if not (k_[0] in ("val", "lenvar") and k_ not in st)}

    def for_each_pool(self, n):
        """`std::for_each(O.V.begin(), O.V.end(), [](T* p){ MemoryPool::release|increase_memory(p); })` - the algorithm form
        of the whole-vector loop.  -> (what, obj-expr, kind, range-ok) or None"""
        if n.get("k") != "Call" or n.get("callee") != "std::for_each" or len(n.get("a") or []) != 3:
            return None
        a0, a1, lam = unwrap(n["a"][0]), unwrap(n["a"][1]), unwrap(n["a"][2])
        if lam.get("k") != "Lambda" or lam.get("body") is None:
            return None
        if not (a0.get("k") == "MCall" and a0.get("n") in ("begin", "cbegin") and vec_member(a0.get("obj"))):
            return None
        if not (a1.get("k") == "MCall" and a1.get("n") in ("end", "cend") and vec_member(a1.get("obj"))):
            return None
        body = lam["body"]
        while body is not None and body.get("k") == "Block" and len(body.get("s", [])) == 1:
            body = body["s"][0]
        if body is None or body.get("k") not in ("Call", "MCall") or self.pool_callee(body) is None or len(body.get("a", [])) != 1:
            return None
        arg = unwrap(body["a"][0])
        own_params = {p_["d"] for p_ in self.fn.params}
        if arg.get("k") != "Ref" or arg.get("dk") != "param" or arg.get("d") in own_params:
            return None
        k0, b0 = vec_member(a0["obj"])
        k1, b1 = vec_member(a1["obj"])
        return ("REL" if self.pool_callee(body).endswith("release_memory") else "INC"), b0, k0, (k0 == k1 and obj_id(b0) == obj_id(b1))

    def vec_base_ptr(self, e):
        """(kind, base) if e points at element 0 of a tracked pointer vector: V.data(), &V[0], &V.at(0), &V.front(), &*V.begin()"""
        e = unwrap(e)
        while e is not None and e.get("k") in ("Construct", "TempObj") and len(e.get("a", [])) == 1:
            e = unwrap(e["a"][0])
        if e is None:
            return None
        if e.get("k") == "MCall" and e.get("n") == "data" and vec_member(e.get("obj")):
            return vec_member(e["obj"])
        if e.get("k") == "Un" and e.get("op") == "&":
            x = unwrap(e["e"])
            if x.get("k") == "MCall" and x.get("n") == "front" and vec_member(x.get("obj")):
                return vec_member(x["obj"])
            if x.get("k") == "MCall" and x.get("n") in ("at", "operator[]") and vec_member(x.get("obj")) and x.get("a") and unwrap(x["a"][0]).get("k") == "Int" \
                    and unwrap(x["a"][0])["v"] == "0":
                return vec_member(x["obj"])
            if x.get("k") == "OpCall" and x.get("op") == "[]" and x.get("a") and vec_member(x["a"][0]) and unwrap(x["a"][1]).get("k") == "Int" and unwrap(x["a"][1])["v"] == "0":
                return vec_member(x["a"][0])
            if x.get("k") == "OpCall" and x.get("op") == "*" and x.get("a"):
                y = unwrap(x["a"][0])
                if y.get("k") == "MCall" and y.get("n") in ("begin", "cbegin") and vec_member(y.get("obj")):
                    return vec_member(y["obj"])
        return None

    def vec_end_ptr(self, e):
        """(kind, base) if e is one past the last element: V.data() + V.size() (either order) with both parts of the same vector"""
        e = unwrap(e)
        if e.get("k") == "Bin" and e.get("op") == "+":
            for p_, n_ in ((e["lhs"], e["rhs"]), (e["rhs"], e["lhs"])):
                vb = self.vec_base_ptr(p_)
                sz = unwrap(n_)
                while sz.get("k") in ("Construct", "TempObj") and len(sz.get("a", [])) == 1:
                    sz = unwrap(sz["a"][0])
                if vb is not None and sz.get("k") == "MCall" and sz.get("n") == "size" and vec_member(sz.get("obj")):
                    vs = vec_member(sz["obj"])
                    if vs[0] == vb[0] and obj_id(vs[1]) == obj_id(vb[1]):
                        return vb
                    return ("?", None)
        return None

    def reverse_index_loop(self, n, idx, pre_dec, st, b, kind):
        """'ok' / 'range' (bounded by another vector) if the For runs i from V.size() down to 1 and the slot index is the
        matching i - 1 (or i after a decrement that precedes the call); None if the loop is not of that form"""
        init, c, inc = n.get("init"), unwrap(n.get("c") or {}), n.get("inc")
        if init is None or init.get("k") != "Decl" or len(init["vars"]) != 1 or init["vars"][0].get("init") is None:
            return None
        v = init["vars"][0]
        start = unwrap(v["init"])
        while start.get("k") in ("Construct", "TempObj") and len(start.get("a", [])) == 1:
            start = unwrap(start["a"][0])
        # where the index is decremented: in the increment clause (slot i - 1), first thing in the body (slot i), or in the
        # condition `i-- > 0` (slot i)
        cond_dec = False
        cc = c
        if cc.get("k") == "Bin" and cc.get("op") in (">", "!="):
            l0 = unwrap(cc["lhs"])
            if l0.get("k") == "Un" and l0.get("op") == "--" and l0.get("post") and unwrap(l0["e"]).get("d") == v["d"]:
                cond_dec = True
                l0 = unwrap(l0["e"])
            r0 = unwrap(cc["rhs"])
            while r0.get("k") in ("Construct", "TempObj") and len(r0.get("a", [])) == 1:
                r0 = unwrap(r0["a"][0])
            if not (l0.get("k") == "Ref" and l0.get("d") == v["d"] and r0.get("k") == "Int" and r0["v"] == "0"):
                return None
        else:
            return None
        inc_dec = inc is not None and inc.get("k") == "Un" and inc.get("op") == "--" and unwrap(inc["e"]).get("d") == v["d"]
        ways = [inc_dec, pre_dec == v["d"], cond_dec]
        if sum(1 for w in ways if w) != 1 or (inc is not None and not inc_dec):
            return None
        # the slot index
        if inc_dec:
            ok_idx = idx.get("k") == "Bin" and idx.get("op") == "-" and unwrap(idx["lhs"]).get("d") == v["d"] and unwrap(idx["rhs"]).get("k") == "Int" \
                and unwrap(idx["rhs"])["v"] == "1"
        else:
            ok_idx = idx.get("k") == "Ref" and idx.get("d") == v["d"]
        if not ok_idx:
            return None
        # start value: the size of the very vector (now, or hoisted)
        if start.get("k") == "MCall" and start.get("n") == "size" and vec_member(start.get("obj")):
            vm2 = vec_member(start["obj"])
            return "ok" if vm2[0] == kind and obj_id(vm2[1]) == obj_id(b) else "range"
        hl = self.hoisted_len(start, st)
        o_ = obj_id(b)
        if hl is not None and o_ is not None and st is not None and ("len", o_, kind) in st:
            cur = st[("len", o_, kind)][0]
            if not len_opaque(hl) and not len_opaque(cur):
                return "ok" if hl == cur else "range"
        return None

    def loop(self, n, st):
        pl = self.pool_loop(n, st)
        if pl is not None:
            what, b, kind, rng_ok, call = pl
            o = obj_id(b)
            if o is None:
                raise Unknown("release/increase loop over the arrays of an unnamed object at line %s" % n.get("l"))
            self.touched = True
            st = dict(st)
            self.ensure(st, o, self.obj_type(b))
            self.ob("loop-range", "%s._%s/%s" % (o.split("#")[0], kind, what), rng_ok,
                    "the %s loop passes slots of _%s but is bounded by the size of a different vector" % ("release_memory" if what == "REL" else "increase_memory", kind) if not rng_ok else "loop ranges over the whole vector", n.get("l"))
            self.pool_event(what, o, kind, st, n.get("l"))
            return st
        k = n["k"]
        self.loop_depth = getattr(self, "loop_depth", 0) + 1
        try:
            return self._generic_loop(n, st)
        finally:
            self.loop_depth -= 1

    def _generic_loop(self, n, st):
        res = self._generic_loop0(n, st)
        if res is None or n.get("k") != "For":
            return res
        # canonical counting loop `for(i = 0; i < E; ++i)` that pushes exactly once per iteration into a
        # vector that was empty before: its length afterwards is the trip count
        trip = self.trip_count(n, st)
        if trip is None:
            return res
        body = n.get("body") or {}
        top = body.get("s", []) if body.get("k") == "Block" else [body]
        counts = {}
        for x in walk(body):
            if x.get("k") == "MCall" and x.get("n") in ("push_back", "clear", "assign", "resize", "pop_back", "erase", "insert", "emplace_back") and x.get("obj") is not None:
                for fn_, comp in ((vec_member, 0), (size_member, 1)):
                    vm = fn_(x["obj"])
                    if vm and obj_id(vm[1]):
                        key = (obj_id(vm[1]), vm[0], comp)
                        c = counts.setdefault(key, [0, 0])
                        c[0] += 1
                        if x.get("n") in PUSH and len(x.get("a") or []) == 1 and any(x is t for t in top):
                            c[1] += 1
            if x.get("k") == "OpCall" and x.get("op") == "=" and x.get("a") and (vec_member(x["a"][0]) or size_member(x["a"][0])):
                vm = vec_member(x["a"][0]) or size_member(x["a"][0])
                if obj_id(vm[1]):
                    counts.setdefault((obj_id(vm[1]), vm[0], 0 if vec_member(x["a"][0]) else 1), [0, 0])[0] += 5
        for (o, kind, comp), (total, toplevel) in counts.items():
            if total == 1 and toplevel == 1 and ("len", o, kind) in st and ("len", o, kind) in res:
                before = st[("len", o, kind)][comp]
                if before == L0:
                    res = dict(res)
                    self.set_len(res, o, kind, comp, trip)
                elif not len_opaque(before) and not len_opaque(trip) and not before[0].startswith(("ne:", "j:")):
                    # a second counting loop appends its trip count to what the vector already held
                    res = dict(res)
                    self.set_len(res, o, kind, comp, add_len(before, trip))
        lv = n["init"]["vars"][0]
        for x in walk(body):
            if is_call(x) and x.get("callee") in (POOL + "copy", POOL + "convert") and len(x.get("a", [])) >= 2:
                d0, s0 = unwrap(x["a"][0]), unwrap(x["a"][1])
                if d0.get("k") == "MCall" and d0.get("n") in VEC_SLOT and vec_member(d0.get("obj")) and d0.get("a") and unwrap(d0["a"][0]).get("d") == lv["d"] \
                        and any(x is t or any(x is y for y in walk(t)) for t in top if t.get("k") not in ("If", "For", "While", "Switch")):
                    kind, b = vec_member(d0["obj"])
                    o = obj_id(b)
                    src = None
                    if s0.get("k") == "MCall" and s0.get("n") in VEC_SLOT and s0.get("a") and unwrap(s0["a"][0]).get("d") == lv["d"]:
                        so = unwrap(s0.get("obj") or {})
                        vm2 = vec_member(so)
                        if vm2 and vm2[0] == kind and obj_id(vm2[1]):
                            src = obj_id(vm2[1])
                        elif so.get("k") == "MCall" and so.get("n") == "get_" + kind and obj_id(so.get("obj")):
                            src = obj_id(so["obj"])
                    if o is not None and src is not None and (o, kind) in res and ("len", o, kind) in res and res[("len", o, kind)][0] == trip \
                            and not len_opaque(trip) and res[(o, kind)].own == "OWN":
                        res = dict(res)
                        res[(o, kind)] = res[(o, kind)].with_(filled={"copy:" + src.split("#")[0]})
        return res

    def trip_count(self, n, st):
        init, c, inc = n.get("init"), n.get("c") or {}, n.get("inc") or {}
        if init is None or init.get("k") != "Decl" or len(init.get("vars", [])) != 1:
            return None
        v = init["vars"][0]
        if v.get("init") is None or unwrap(v["init"]).get("k") != "Int" or unwrap(v["init"])["v"] != "0":
            return None
        if not (inc.get("k") == "Un" and inc.get("op") == "++" and unwrap(inc["e"]).get("d") == v["d"]):
            return None
        if not (c.get("k") == "Bin" and c.get("op") in ("<", "!=") and unwrap(c["lhs"]).get("d") == v["d"]):
            return None
        if self.reassigned_in(n.get("body"), v["d"]):
            return None
        e = unwrap(c["rhs"])
        while e.get("k") in ("Construct", "TempObj") and len(e.get("a", [])) == 1:
            e = unwrap(e["a"][0])
        if e.get("k") == "MCall" and e.get("n") == "size" and e.get("obj") is not None:
            return self.len_of_vec(e["obj"], dict(st))
        hl = self.hoisted_len(e, st)
        if hl is not None:
            return hl
        return ("e:" + render(e)[:40], 0)

    def reassigned_in(self, body, d):
        for x in walk(body or {}):
            if x.get("k") == "Assign" and unwrap(x["lhs"]).get("d") == d:
                return True
            if x.get("k") == "Un" and x.get("op") in ("++", "--") and unwrap(x["e"]).get("d") == d:
                return True
        return False

    def _generic_loop0(self, n, st):
        k = n["k"]
        if k == "For" and n.get("init") is not None:
            st = self.stmt(n["init"], st)
        if k == "ForRange" and n.get("range") is not None:
            st = self.expr(n["range"], st)
        if st is None:
            return None
        saved_b, saved_c = self.breaks, self.conts
        head = st
        exit_state = None
        for it in range(8):
            self.breaks, self.conts = [], []
            s = head
            if k != "Do" and n.get("c") is not None:
                s = self.expr(n["c"], dict(s))
            out_false = s
            body_out = self.stmt(n.get("body"), dict(s)) if s is not None else None
            for c in self.conts:
                body_out = join_state(body_out, c)
            if body_out is not None and n.get("inc") is not None:
                body_out = self.expr(n["inc"], body_out)
            if k == "Do" and body_out is not None and n.get("c") is not None:
                body_out = self.expr(n["c"], body_out)
            new_head = join_state(head, body_out)
            ex = out_false if k != "Do" else body_out
            for b in self.breaks:
                ex = join_state(ex, b)
            exit_state = ex
            if new_head == head:
                break
            head = new_head
        else:
            self.breaks, self.conts = saved_b, saved_c
            raise Unknown("loop at line %s does not reach a fixpoint" % n.get("l"))
        self.breaks, self.conts = saved_b, saved_c
        # obligations recorded during non-final iterations are kept (they are monotone: a later
        # iteration starts from a weaker state)
        if k == "Do":
            return exit_state
        # the loop may run zero times: head (== fixpoint) is the state when the condition fails
        return join_state(head if exit_state is None else exit_state, head) if k != "Do" else exit_state

    def switch(self, n, st):
        st = self.expr(n["c"], st)
        if st is None:
            return None
        body = n.get("body") or {}
        items = body.get("s", []) if body.get("k") == "Block" else [body]
        def labels_of(s):
            labs, inner = [], s
            while inner is not None and inner.get("k") in ("Case", "Default"):
                labs.append(inner)
                inner = inner.get("s") or {"k": "Null_"}
            return labs, inner

        # the switch value is fixed by the caller's environment: enter at the matching label only
        self._cur = st
        val = self.const_of(n["c"])
        if val is None and self.env and self.depends_on_env(n["c"]):
            self.mode_undecided.append("switch(%s) (line %s)" % (render(n["c"])[:80], n.get("l")))
        target = None
        if val is not None:
            default_at = None
            decidable = True
            for i, s in enumerate(items):
                if s.get("k") in ("Case", "Default"):
                    labs, _ = labels_of(s)
                    for lab in labs:
                        if lab.get("k") == "Default":
                            default_at = i
                        else:
                            v = self.const_of(lab.get("v") or {})
                            if v is None:
                                decidable = False
                            elif v == val and target is None:
                                target = i
            if not decidable:
                target, val = None, None
            elif target is None:
                if default_at is None:
                    return st
                target = default_at
        saved_b = self.breaks
        self.breaks = []
        cur = None
        has_default = False
        for i, s in enumerate(items):
            if s.get("k") in ("Case", "Default"):
                labs, inner = labels_of(s)
                if any(lab.get("k") == "Default" for lab in labs):
                    has_default = True
                if val is None or i == target:
                    cur = join_state(cur, dict(st))
                cur = self.stmt(inner, cur) if cur is not None else None
            else:
                cur = self.stmt(s, cur) if cur is not None else None
        out = cur
        for b in self.breaks:
            out = join_state(out, b)
        if not has_default and val is None:
            out = join_state(out, st)
        self.breaks = saved_b
        return out

    # ---- pool events ---------------------------------------------------------------------------
    def pool_event(self, what, o, kind, st, line):
        vs = st[(o, kind)]
        fl = st[("flag", o)]
        name = "%s._%s" % (o.split("#")[0], kind)
        if what == "REL":
            ok = vs.own == "EMPTY" or (vs.own == "OWN" and fl == "F")
            why = "ok"
            if not ok:
                if vs.own in ("NOREF", "UNCOUNTED", "MOVED"):
                    why = "release loop over %s whose pointers carry no reference of this object (state %r): double release / release of foreign memory" % (name, vs)
                elif (vs.own == "VALID" or fl != "F") and self.opaque_conds:
                    raise Unknown("release loop over %s at line %s runs under the condition `%s`, which the check cannot relate to _foreign_memory" % (name, line, self.opaque_conds[-1]))
                elif vs.own == "VALID" or fl != "F":
                    why = "release loop over %s is not guarded by !_foreign_memory (flag state %s, vector %r): a range (foreign-memory) object would release arrays it does not own" % (name, fl, vs)
                else:
                    why = "release loop over %s in state %r" % (name, vs)
            self.ob("release-guard", name, ok, why, line)
            st[(o, kind)] = EMPTY if vs.own == "EMPTY" else VS("NOREF", None, vs.origin)
        else:
            ok = vs.own in ("UNCOUNTED", "EMPTY")
            why = "ok" if ok else "increase_memory loop over %s in state %r: the pointers already carry this object's reference (double count -> leak) or are dangling" % (name, vs)
            self.ob("increase-once", name, ok, why, line)
            st[(o, kind)] = EMPTY if vs.own == "EMPTY" else VS("OWN" if ok else "TOP", None, vs.origin | {"counted"})

    def kill(self, o, kind, st, how, line):
        """V is overwritten / emptied: nothing owned may be lost"""
        st.pop(("fs", o, kind), None)
        vs = st[(o, kind)]
        name = "%s._%s" % (o.split("#")[0], kind)
        ok = vs.own in ("EMPTY", "NOREF", "UNCOUNTED", "MOVED")
        self.ob("release-before-overwrite", "%s/%s" % (name, how), ok,
                "ok" if ok else "%s %s while it still holds owned references (state %r): no release loop over %s on some path before it -> the arrays are never released" % (how, name, vs, name), line)

    # ---- expressions ---------------------------------------------------------------------------
    def expr(self, n, st, base_init=False, decl_obj=None):
        """process the events of one expression (children first)"""
        if st is None or n is None:
            return st
        if n.get("k") == "Lambda":
            return st
        st = dict(st)
        order = []
        self._cur = st
        self._post(n, order)
        for x in order:
            st = self.event(x, st, base_init and x is n, decl_obj if x is unwrap_construct(n) else None)
            if st is None:
                return None
        return st

    def _post(self, n, out):
        if n.get("k") == "Lambda":
            return
        if n.get("k") == "Cond":
            # only one arm is evaluated: take the one the environment selects; arms with lifetime events under an
            # undecided condition are not modelled
            v = self.eval_cond(n["c"])
            self._post(n["c"], out)
            arms = [n["then"], n["else"]]
            if v is not None:
                self._post(arms[0 if v else 1], out)
            else:
                for arm in arms:
                    if arm is not None and self.has_mutations(arm):
                        raise Unknown("conditional expression with lifetime events in its arms at line %s: %s" % (n.get("l"), render(n)[:100]))
                    if arm is not None:
                        self._post(arm, out)
            out.append(n)
            return
        for c in children(n):
            self._post(c, out)
        out.append(n)

    def event(self, n, st, base_init, decl_obj):
        k = n.get("k")
        if is_call(n) and n.get("noreturn"):
            return None
        if k == "Assign" and n.get("op") == "=" and unwrap(n["lhs"]).get("k") == "Ref" and unwrap(n["lhs"]).get("dk") == "param" \
                and unwrap(n["lhs"]).get("n") in self.env:
            self._cur = st
            v = self.value_of(n["rhs"])
            st[("pval", unwrap(n["lhs"])["d"])] = "?" if v is None else v
        if k == "Assign" and unwrap(n["lhs"]).get("k") == "Ref" and unwrap(n["lhs"]).get("dk") == "local":
            self._cur = st
            self.track_value(st, unwrap(n["lhs"])["d"], n["rhs"] if n.get("op") == "=" else None)
        elif k == "Un" and n.get("op") in ("++", "--") and unwrap(n["e"]).get("k") == "Ref" and unwrap(n["e"]).get("dk") == "local":
            st.pop(("val", unwrap(n["e"])["d"]), None)
        elif is_call(n) and any(kk[0] == "val" for kk in st):
            pts = n.get("pt") or []
            for i, a in enumerate(n.get("a") or []):
                a0 = unwrap(a)
                if a0.get("k") == "Un" and a0.get("op") == "&" and unwrap(a0["e"]).get("k") == "Ref":
                    st.pop(("val", unwrap(a0["e"]).get("d")), None)
                elif a0.get("k") == "Ref" and a0.get("dk") == "local" and ("val", a0.get("d")) in st:
                    t = self.fn.type(pts[i]) if i < len(pts) else ""
                    if t.rstrip().endswith("&") and not t.startswith("const "):
                        st.pop(("val", a0["d"]), None)
        # ---- vector member uses
        vm = vec_member(n)
        if vm:
            self.touched = True
            return self.vec_use(n, vm, st)
        if k == "Assign" and n["lhs"].get("k") == "Member" and FLAG_RE.search(n["lhs"].get("qn", "")):
            self.touched = True
            o = obj_id(n["lhs"].get("b"))
            if o is None:
                raise Unknown("write of _foreign_memory of an unnamed object at line %s" % n.get("l"))
            self.ensure(st, o, self.obj_type(n["lhs"].get("b")))
            if n.get("op") != "=":
                raise Unknown("compound assignment to _foreign_memory at line %s" % n.get("l"))
            st[("flag", o)] = self.flag_value(n["rhs"], st)
            return st
        if not is_call(n):
            return st
        cal = n.get("callee", "")
        if k in ("Call", "MCall"):
            vh = self.vector_helper(n)
            if vh is not None:
                return self.inline_vector_helper(n, vh, st)
        if cal == "std::for_each":
            fe = self.for_each_pool(n)
            if fe is not None:
                what, b, kind, rng_ok = fe
                o = obj_id(b)
                if o is None:
                    raise Unknown("release/increase for_each over the arrays of an unnamed object at line %s" % n.get("l"))
                self.touched = True
                self.ensure(st, o, self.obj_type(b))
                self.ob("loop-range", "%s._%s/%s" % (o.split("#")[0], kind, what), rng_ok,
                        "std::for_each over [begin, end) of two different vectors" if not rng_ok else "loop ranges over the whole vector", n.get("l"))
                self.pool_event(what, o, kind, st, n.get("l"))
                return st
        if cal in (POOL + "release_memory", POOL + "increase_memory") or (n.get("k") in ("Call", "MCall") and len(n.get("a") or []) == 1 and not cal.startswith(POOL)
                                                                           and "*" in (self.fn.type((n.get("pt") or [None])[0]) or "") and self.pool_callee(n) is not None):
            return self.single_pool_call(n, st)
        if cal in (POOL + "copy", POOL + "convert") and len(n.get("a", [])) >= 2:
            self.content_copy(n, st)
            return st
        if cal == "FEAT::assertion" and n.get("a"):
            return self.refine(n["a"][0], st, True)
        # ---- whole-object calls
        return self.whole_call(n, st, base_init, decl_obj)

    def vec_use(self, n, vm, st):
        kind, b = vm
        p = self.par.get(id(n))
        o = obj_id(b)
        line = n.get("l")
        pk = (p or {}).get("k")
        if o is None:
            # arrays of an object we cannot name: only reads are fine
            if pk == "MCall" and p.get("obj") is n and p.get("n") in VEC_READS | VEC_SLOT and not self.is_written(p):
                return st
            raise Unknown("pointer vector of an unnamed object used at line %s: %s" % (line, render(p or n)[:120]))
        self.ensure(st, o, self.obj_type(b))
        name = "%s._%s" % (o.split("#")[0], kind)
        if pk == "MCall" and p.get("obj") is n:
            m = p.get("n")
            if m in ("begin", "end", "data", "cbegin", "cend") :
                pp = self.par.get(id(p))
                if pp is not None and is_call(pp) and p in (pp.get("a") or []):
                    cal = str(pp.get("callee", ""))
                    okc = pp.get("k") in ("Construct", "TempObj") or (pp.get("k") == "MCall" and pp.get("n") in ("assign", "insert")) \
                        or cal in ("std::distance",) or (cal == "std::for_each" and self.for_each_pool(pp) is not None)
                    if not okc:
                        self.taint(o, "iterators of %s are handed to %s (line %s), which the check does not model" % (name, cal or "a call", line), (kind,))
            if m in VEC_READS:
                return st
            if m in VEC_SLOT:
                return st          # the slot's fate is decided at the parent (slot_use, called from there)
            if m in PUSH:
                return st          # handled when the MCall itself is visited (args first)
            if m in ("clear", "assign", "swap"):
                return st
            if m == "insert" and len(p.get("a") or []) == 3:
                return st          # decided at the MCall (append of another container's vector)
            raise Unknown("unmodelled std::vector operation %s on %s at line %s" % (m, name, line))
        if pk == "Var" and p.get("ref"):
            return st          # reference alias; uses of the alias are resolved to this member
        if pk == "OpCall" and p.get("op") == "=":
            return st
        if pk == "OpCall" and p.get("op") == "[]" and p["a"][0] is n:
            return st
        if pk == "Call" and p.get("callee") in ("std::move", "std::forward"):
            return st
        if pk == "ForRange" and p.get("range") is n:
            return st
        if pk == "Return" and self.fn.d.get("const"):
            return st
        if (pk == "MCall" and p.get("n") == "swap" and vec_member(p.get("obj"))) or (pk == "Call" and p.get("callee") == "std::swap"):
            return st          # handled at the swap call
        if pk in ("Call", "MCall", "Construct", "TempObj") and n in (p.get("a") or []):
            i = p["a"].index(n)
            pt = p.get("pt") or []
            t = self.fn.type(pt[i]) if i < len(pt) else ""
            if pk in ("Call", "MCall") and self.vector_helper(p) is not None:
                return st          # the helper's body is interpreted on these vectors when the call itself is visited
            if t.startswith("const ") and t.endswith("&"):
                return st
            self.taint(o, "%s is passed to %s as %s (line %s), which the check does not model" % (name, p.get("callee"), t or "?", line), (kind,))
            self.set_len(st, o, kind, 0, ("U", 0))
            return st
        if pk == "Construct" or pk == "TempObj":
            return st
        raise Unknown("unrecognised use of pointer vector %s at line %s: %s" % (name, line, render(p or n)[:120]))

    def is_written(self, slot_call):
        p = self.par.get(id(slot_call))
        return p is not None and p.get("k") == "Assign" and p.get("lhs") is slot_call

    def classify_ptr(self, e):
        """origin of a pointer expression pushed into a pointer vector"""
        e0 = unwrap(e)
        if e0.get("k") == "Call" and e0.get("callee") == POOL + "allocate_memory":
            return "alloc", e0
        if e0.get("k") == "Ref" and e0.get("dk") == "local":
            d = self.localdefs.get(e0["d"])
            if d is not None and unwrap(d).get("k") == "Call" and unwrap(d).get("callee") == POOL + "allocate_memory" and not self.reassigned(e0["d"]):
                return "alloc", unwrap(d)
        return "ext", e0

    def reassigned(self, d):
        for x in self.fn.nodes():
            if x.get("k") == "Assign" and unwrap(x["lhs"]).get("k") == "Ref" and unwrap(x["lhs"]).get("d") == d:
                return True
            if x.get("k") == "Un" and x.get("op") in ("++", "--") and unwrap(x["e"]).get("k") == "Ref" and unwrap(x["e"]).get("d") == d:
                return True
            if x.get("k") == "Un" and x.get("op") == "&" and unwrap(x["e"]).get("k") == "Ref" and unwrap(x["e"]).get("d") == d:
                return True          # address taken: may be written through the pointer
        return False

    def single_pool_call(self, n, st):
        """release/increase of one pointer outside a whole-vector loop"""
        arg = unwrap(n["a"][0])
        what = "REL" if self.pool_callee(n).endswith("release_memory") else "INC"
        slot = None
        if arg.get("k") == "MCall" and arg.get("n") in VEC_SLOT and vec_member(arg.get("obj")):
            slot = arg
        if slot is None:
            # pointers that are not slots of a container's pointer vector: not our objects
            for x in walk(arg):
                if vec_member(x):
                    raise Unknown("MemoryPool::%s on an expression over a pointer vector at line %s" % (n["callee"].rsplit("::", 1)[-1], n.get("l")))
            if getattr(self, "loop_depth", 0) > 0 and self.has_events(self.fn.body):
                raise Unknown("MemoryPool::%s(%s) inside a loop that is not one of the recognised whole-vector forms (line %s)" % (n["callee"].rsplit("::", 1)[-1], render(arg)[:40], n.get("l")))
            return st
        if slot.get("a") and unwrap(slot["a"][0]).get("k") != "Int":
            raise Unknown("MemoryPool::%s of the variable slot %s outside the recognised whole-vector loop forms (line %s)" % (n["callee"].rsplit("::", 1)[-1], render(slot)[:60], n.get("l")))
        self.touched = True
        kind, b = vec_member(slot["obj"])
        o = obj_id(b)
        if o is None:
            raise Unknown("single-slot %s on an unnamed object at line %s" % (what, n.get("l")))
        self.ensure(st, o, self.obj_type(b))
        sk = render(slot["a"][0]) if slot.get("a") else slot.get("n")
        vs = st[(o, kind)]
        name = "%s._%s" % (o.split("#")[0], kind)
        if what == "REL":
            ok = vs.own == "OWN" and st[("flag", o)] == "F" and ("rel", o, kind) not in st
            self.ob("release-guard", "%s/slot" % name, ok,
                    "ok" if ok else "release of slot %s of %s in state %r / flag %s" % (sk, name, vs, st[("flag", o)]), n.get("l"))
            st[("rel", o, kind)] = VS("SLOT", sk)
        else:
            raise Unknown("single-slot MemoryPool::increase_memory on %s (line %s) is not modelled" % (name, n.get("l")))
        return st

    def content_copy(self, n, st):
        d, s = unwrap(n["a"][0]), unwrap(n["a"][1])

        def slot_of(e):
            if e.get("k") == "MCall" and e.get("n") in VEC_SLOT:
                vmx = vec_member(e.get("obj"))
                if vmx and obj_id(vmx[1]):
                    return obj_id(vmx[1]), vmx[0], render(e["a"][0]) if e.get("a") else ""
                oo = unwrap(e.get("obj"))
                if oo.get("k") == "MCall" and oo.get("n") in ("get_elements", "get_indices") and obj_id(oo.get("obj")):
                    return obj_id(oo["obj"]), oo["n"][4:], render(e["a"][0]) if e.get("a") else ""
            return None
        ds, ss = slot_of(d), slot_of(s)
        if ds and ss:
            self.copy_events.append((ds, ss, n.get("callee"), n.get("l"), self.extent_slot(n["a"][2]) if len(n.get("a") or []) >= 3 else None))
            o, kind, _ = ds
            if (o, kind) in st and ss[1] == kind and ss[2] == ds[2]:
                st[(o, kind)] = st[(o, kind)].with_(filled={"copy:" + ss[0].split("#")[0]})

    def extent_slot(self, e, depth=0):
        """(object, kind, index text) if the extent expression is slot `idx` of a recorded size vector O._<kind>_size (directly,
        through a getter, a reference parameter bound to it, or a single-assignment local)"""
        e = unwrap(e)
        while e is not None and e.get("k") in ("Construct", "TempObj") and len(e.get("a", [])) == 1:
            e = unwrap(e["a"][0])
        if e is None or depth > 3:
            return None
        if e.get("k") == "Ref" and e.get("dk") == "local":
            init = self.stable_init(e)
            return self.extent_slot(init, depth + 1) if init is not None else None
        if e.get("k") == "MCall" and e.get("n") in VEC_SLOT and e.get("obj") is not None:
            sm = size_member(unwrap(e["obj"]))
            idx = render(e["a"][0]) if e.get("a") else ""
            if sm:
                return (obj_id(sm[1]) or "?").split("#")[0], sm[0], idx
            oo = unwrap(e["obj"])
            if oo.get("k") == "MCall" and oo.get("n") in ("get_elements_size", "get_indices_size") and obj_id(oo.get("obj")):
                return obj_id(oo["obj"]).split("#")[0], oo["n"][4:-5], idx
        return None

    def whole_call(self, n, st, base_init, decl_obj):
        k = n.get("k")
        ccls = short(n.get("ccls", ""))
        args = n.get("a") or []
        pts = [self.fn.type(t) for t in (n.get("pt") or [])]
        # receiver
        if k == "MCall" and n.get("obj") is not None and ccls in self.fam.classes and not n.get("cstatic"):
            o = obj_id(n["obj"])
            if o is not None and not n.get("cconst"):
                self.touched_call = True
                st = self.apply_call(o, n, st, self.obj_type(n["obj"]))
                if st is None:
                    return None
        if base_init and k in ("Construct", "TempObj"):
            st = self.apply_call("this", n, st, None, ctor=True)
        elif decl_obj is not None and k in ("Construct", "TempObj") and ccls in self.fam.classes:
            st = self.apply_call(decl_obj, n, st, n.get("ccls"), ctor=True)
        # arguments handed over by non-const reference / rvalue reference
        if n.get("callee") in ("std::move", "std::forward"):
            return st          # a cast; the call that receives the result decides what happens to the object
        for i, a in enumerate(args):
            t = pts[i] if i < len(pts) else ""
            if not self.fam.is_family_type(t):
                continue
            if t.startswith("const ") or not t.rstrip().endswith("&"):
                continue
            o = obj_id(a)
            if o is None:
                continue
            if getattr(self, "_moved_arg", None) == id(a):
                continue
            self.ensure(st, o, self.obj_type(a))
            self.nevents += 1
            if self.fam.callee_fn(self.fn, n) is None:
                self.taint(o, "%s is handed to %s (line %s), which the check does not model" % (o.split("#")[0], n.get("callee", "a call"), n.get("l")))
            self.check_valid(o, st, "passed to %s" % short(n.get("callee", "")), n.get("l"))
            self.set_valid(st, o, self.fam.cls_of_type(self.obj_type(a)) if o != "this" else self.cls)
        return st

    def check_valid(self, o, st, why, line):
        fl = st[("flag", o)]
        for kind in ("elements", "indices"):
            vs = st[(o, kind)]
            if not consistent(vs, fl):
                # a non-foreign-capable object is always flag F
                self.ob("valid-at-call", "%s._%s" % (o.split("#")[0], kind), False,
                        "%s._%s is in state %r (flag %s) when the object is %s: a method that releases/overwrites its arrays would double-release or leak" % (o.split("#")[0], kind, vs, fl, why), line)
                return False
        self.ob("valid-at-call", o.split("#")[0], True, "ok", line)
        return True

    def apply_call(self, o, n, st, tstr, ctor=False):
        self.ensure(st, o, tstr) if not ctor else None
        callee = self.fam.callee_fn(self.fn, n)
        if not ctor and self.move_transfer(o, n, st, callee):
            return st
        if callee is None and not ctor:
            self.taint(o, "%s() is called on %s (line %s) but its body is not part of the analysed program" % (n.get("callee", "?"), o.split("#")[0], n.get("l")))
        if callee is not None and not ctor and self.inline_helper(o, n, st, callee):
            return st
        summ = self.summary(callee, n) if callee is not None else None
        if summ == "identity" and not ctor:
            return st          # the callee neither touches the arrays nor calls anything that does
        if summ == "identity":
            summ = None
        if not ctor:
            self.check_valid(o, st, "the receiver of %s()" % n.get("callee", "").rsplit("::", 1)[-1], n.get("l"))
        cls_short = self.cls if o == "this" else self.fam.cls_of_type(tstr or n.get("ccls", ""))
        if not hasattr(self, "_objcls"):
            self._objcls = {}
        self._objcls[o] = cls_short
        if summ is not None:
            fl, ve, vi = summ
            if fl in ("F", "T", "U") and ve.own in ("EMPTY", "OWN", "NOREF", "UNCOUNTED") and vi.own in ("EMPTY", "OWN", "NOREF", "UNCOUNTED"):
                st[("flag", o)] = fl
                st[(o, "elements")] = VS(ve.own, None, ve.origin)
                st[(o, "indices")] = VS(vi.own, None, vi.origin)
                self.fresh += 1
                for kind, v in (("elements", ve), ("indices", vi)):
                    sym = L0 if v.own == "EMPTY" else ("n:%s@%d/%s" % (o.split("#")[0], self.fresh, kind), 0)
                    st[("len", o, kind)] = (sym, sym)
                return st
        self.set_valid(st, o, cls_short)
        return st

    def is_context_helper(self, callee):
        """a private piece of a lifetime function (leading underscore, parameterless or not) whose stand-alone
        interpretation fails ownership obligations: it only makes sense in the state its callers establish"""
        memo = self.fam.__dict__.setdefault("_ctxhelper", {})
        if id(callee) in memo:
            return memo[id(callee)]
        res = False
        if callee.name and callee.name.startswith("_") and not callee.d.get("ctor") and not callee.d.get("dtor") and self.depth < 4:
            memo[id(callee)] = False
            with _alias_scope():
                it = Interp(self.fam, callee, summaries={}, depth=self.depth + 2).run()
            allbad = [o_ for o_ in it.obligations + exit_obligations(it) if not o_[2]]
            bad = [o_ for o_ in allbad if o_[0] != "index-array-write"]
            res = bool(bad) and not it.unknown
            if not res and allbad and not it.unknown and self.depth < 2:
                # only writes through index arrays the helper did not allocate itself: a defect of the helper if no caller
                # provides freshly allocated arrays (reported on the helper, e.g. _copy_content), but a piece of its callers if
                # some call site does (`_append_entry` behind the re-allocation): then it is judged at the call sites
                res = self._idx_write_depends_on_caller(callee)
        memo[id(callee)] = res
        return res

    def _idx_write_depends_on_caller(self, callee):
        for g in self.fam.functions():
            if g is callee or g.facts is not callee.facts:
                continue
            if not any(x.get("k") == "MCall" and x.get("cdecl") == callee.d.get("decl") for x in g.nodes()):
                continue
            with _alias_scope():
                it = Interp(self.fam, g, summaries={}, depth=self.depth + 2)
                it.force_inline = {id(callee)}
                it.run()
            if any(cid == id(callee) and r == "index-array-write" and ok for (cid, r, sub, ok) in it.inlined_obs):
                return True
        return False

    def inline_helper(self, o, n, st, callee):
        """interpret a context helper in the caller's state of the receiver"""
        if id(callee) not in getattr(self, "force_inline", ()) and not self.is_context_helper(callee):
            return False
        init = {}
        for k, v in st.items():
            if len(k) >= 2 and k[0] == o:
                init[("this",) + k[1:]] = v
            elif len(k) >= 2 and k[1] == o and k[0] in ("flag", "len", "fs", "pend", "rel"):
                init[(k[0], "this") + k[2:]] = v
        with _alias_scope():
            it = Interp(self.fam, callee, env=self.call_env(callee, n), summaries=self.summaries, depth=self.depth + 1)
            it.init_state = init
            it.run()
        for u in it.unknown:
            self.unk("in helper %s: %s" % (short(callee.qn), u))
        tag = "this" if o == "this" else o.split("#")[0]
        for (r, sub, ok, det, line) in it.obligations:
            sub2 = re.sub(r"^this\b", tag, sub)
            self.nevents += 1
            self.inlined_obs.append((id(callee), r, sub2, ok))
            self.obligations.append((r, sub2, ok, ("[in helper %s] " % short(callee.qn)) + det if not ok else det, line))
        out = None
        for s_, _ in it.exits:
            out = join_state(out, s_)
        if out is None:
            return True
        ren = {}
        for p_, a_ in zip(callee.params, n.get("a") or []):
            ao = obj_id(a_)
            if ao is not None:
                ren[p_["n"]] = "this" if ao == "this" else ao.split("#")[0]

        def retag(tags):
            return frozenset((t.split(":", 1)[0] + ":" + ren.get(t.split(":", 1)[1], t.split(":", 1)[1])) if ":" in t else t for t in tags)
        for k, v in list(out.items()):
            if isinstance(v, VS):
                out[k] = VS(v.own, v.g, retag(v.origin), retag(v.filled))
        for k, v in out.items():
            if len(k) >= 2 and k[0] == "this":
                st[(o,) + k[1:]] = v
            elif len(k) >= 2 and k[1] == "this" and k[0] in ("flag", "len", "fs", "pend", "rel"):
                st[(k[0], o) + k[2:]] = v
        for (name, kind), why in it.taints.items():
            if name == "this":
                self.taints.setdefault((tag, kind), why)
        self.touched = self.touched or it.touched
        return True

    def move_transfer(self, o, n, st, callee):
        """`O.move(std::move(X))` (Container::move, itself verified): O takes over X's arrays, state and all.
        X may be a named container, a family constructor temporary, or the value of X.clone(<constant mode>)."""
        if n.get("n") != "move" or short(n.get("ccls", "")) != "Container" or len(n.get("a") or []) != 1:
            return False
        a = unwrap(n["a"][0])
        src = obj_id(a)
        new = None
        if src is not None and ("flag", src) in st and src != o:
            new = {k: st[(src, k)] for k in ("elements", "indices")}
            new["flag"] = st[("flag", src)]
            new["len"] = {k: st[("len", src, k)] for k in ("elements", "indices")}
        elif a.get("k") in ("Construct", "TempObj") and short(a.get("ccls", "")) in self.fam.classes:
            c2 = self.fam.callee_fn(self.fn, a)
            sm = self.summary(c2, a) if c2 is not None else None
            if sm and sm != "identity" and sm[0] in ("F", "T") and consistent(sm[1], sm[0]) and consistent(sm[2], sm[0]) and sm[1].own != "VALID" and sm[2].own != "VALID":
                new = {"elements": sm[1], "indices": sm[2], "flag": sm[0], "len": None}
        elif a.get("k") == "MCall" and a.get("n") == "clone" and short(a.get("ccls", "")) in self.fam.classes and a.get("a"):
            mode = self.const_of(a["a"][-1])
            base = self.fam.by_key.get("Container::clone(const Container &,CloneMode)")
            if mode is not None and base is not None:
                with _alias_scope():
                    it = Interp(self.fam, base, env={base.params[1]["n"]: mode}, summaries=self.summaries, depth=self.depth + 1).run()
                if it.unknown or it.mode_undecided or it.taints or it.taint_all:
                    # the clone could not be interpreted completely: what the receiver holds afterwards is not known - nothing about
                    # its arrays may be concluded from the absence of an effect
                    self.taint(o, "the arrays come from %s (line %s), whose body uses a construct the check does not model (%s)" % (
                        render(a)[:40], n.get("l"), (it.unknown or it.mode_undecided or list(it.taints.values()) or [it.taint_all])[0][:80]))
                if not it.unknown and it.exits and not it.mode_undecided and not it.taints and not it.taint_all:
                    stx = None
                    for s_, _ in it.exits:
                        stx = join_state(stx, s_)
                    fl = stx.get(("flag", "this"))
                    if fl in ("F", "T") and all(consistent(stx[("this", k)], fl) for k in ("elements", "indices")):
                        new = {"elements": stx[("this", "elements")], "indices": stx[("this", "indices")], "flag": fl, "len": None}
        if new is None:
            return False
        self.ensure(st, o, None)
        self.check_valid(o, st, "the receiver of move()", n.get("l"))
        self.fresh += 1
        for k in ("elements", "indices"):
            st[(o, k)] = VS(new[k].own, new[k].g, new[k].origin)
            st.pop(("fs", o, k), None)
            if new["len"] is not None:
                st[("len", o, k)] = new["len"][k]
            else:
                sym = L0 if new[k].own == "EMPTY" else ("n:%s@%d/%s" % (o.split("#")[0], self.fresh, k), 0)
                st[("len", o, k)] = (sym, sym)
        st[("flag", o)] = new["flag"]
        if src is not None and ("flag", src) in st and src != o:
            for k in ("elements", "indices"):
                st[(src, k)] = EMPTY
                st[("len", src, k)] = (L0, L0)
        self._moved_arg = id(n["a"][0])
        return True

    def call_env(self, callee, call):
        """constant CloneMode arguments of a call -> environment of the callee"""
        env = {}
        if callee is None or call is None:
            return env
        for p, a in zip(callee.params, call.get("a") or []):
            t = short(callee.type(p["t"])).replace("const ", "").strip()
            if t == "CloneMode":
                v = self.const_of(a)
                if v is not None:
                    env[p["n"]] = v
            elif t == "bool":
                v = self.eval_cond(a)
                if v is not None:
                    env[p["n"]] = v
        return env

    def summary(self, callee, call=None):
        """(flag, elements, indices) of `this` at the normal exits of a family function"""
        env = self.call_env(callee, call)
        key = (id(callee), tuple(sorted(env.items()))) if env else id(callee)
        if key in self.summaries:
            return self.summaries[key]
        if self.depth > 6:
            return None
        self.summaries[key] = None     # recursion guard
        with _alias_scope():
            it = Interp(self.fam, callee, env=env, summaries=self.summaries, depth=self.depth + 1).run()
        if it.unknown or not it.exits:
            return None
        if it.nevents == 0 and not callee.d.get("ctor"):
            entry = {}
            it.ensure(entry, "this")
            if not it.touched or all(all(st.get(k) == v or (isinstance(st.get(k), VS) and st[k].own == "EMPTY") for k, v in entry.items()) for st, _ in it.exits):
                # the callee neither changes the arrays' ownership/length state nor calls anything that does
                self.summaries[key] = "identity"
                return "identity"
        fl, ve, vi = None, None, None
        for st, _ in it.exits:
            f2, e2, i2 = st.get(("flag", "this")), st.get(("this", "elements")), st.get(("this", "indices"))
            if f2 is None:
                return None
            fl = f2 if fl is None else join_flag(fl, f2)
            ve = e2 if ve is None else join_vs(ve, e2)
            vi = i2 if vi is None else join_vs(vi, i2)
        self.summaries[key] = (fl, ve, vi)
        return self.summaries[key]


def unwrap_construct(n):
    return n


# the vector-method events are attached to the MCall / OpCall nodes themselves: extend Interp.event
_orig_event = Interp.event


def _event(self, n, st, base_init, decl_obj):
    k = n.get("k")
    if k == "MCall" and vec_member(n.get("obj")):
        kind, b = vec_member(n["obj"])
        o = obj_id(b)
        m = n.get("n")
        if m == "emplace_back" and len(n.get("a") or []) == 1:
            m = "push_back"
        if o is not None and m in ("push_back", "clear", "assign"):
            self.ensure(st, o, self.obj_type(b))
            name = "%s._%s" % (o.split("#")[0], kind)
            vs = st[(o, kind)]
            if m == "push_back":
                org, e = self.classify_ptr(n["a"][0])
                if org == "alloc":
                    ok = vs.own in ("EMPTY", "OWN")
                    self.ob("pointer-origin", "%s/push-alloc" % name, ok,
                            "ok" if ok else "freshly allocated array pushed into %s in state %r" % (name, vs), n.get("l"))
                    st[(o, kind)] = VS("OWN" if ok else "TOP", None, vs.origin | {"alloc"}, vs.filled if vs.own != "EMPTY" else frozenset())
                else:
                    ok = vs.own in ("EMPTY", "UNCOUNTED")
                    self.ob("pointer-origin", "%s/push-shared" % name, ok,
                            "ok" if ok else "pointer %s that is not a fresh allocation pushed into %s in state %r (a later increase loop would count the owned ones twice)" % (render(e)[:60], name, vs), n.get("l"))
                    st[(o, kind)] = VS("UNCOUNTED" if ok else "TOP", None, vs.origin | {"ext"})
                return st
            if m == "clear":
                self.kill(o, kind, st, "clear()", n.get("l"))
                st[(o, kind)] = EMPTY
                st.pop(("rel", o, kind), None)
                return st
            if m == "assign":
                self.kill(o, kind, st, "assign()", n.get("l"))
                src = self.src_of_range(n.get("a") or [], kind)
                if src is None:
                    raise Unknown("source of %s.assign(...) at line %s: %s" % (name, n.get("l"), render(n)[:140]))
                st[(o, kind)] = VS("UNCOUNTED", None, {"copy:" + src})
                return st
        if o is not None and m == "insert" and len(n.get("a") or []) == 3:
            # V.insert(V.end(), X.begin(), X.end()): appends the like-named vector of another container
            at_end = any(x.get("k") == "MCall" and x.get("n") in ("end", "cend") and vec_member(x.get("obj")) and vec_member(x["obj"])[0] == kind
                         and obj_id(vec_member(x["obj"])[1]) == o for x in walk(n["a"][0]))
            src = self.src_of_range(n["a"][1:], kind)
            self.ensure(st, o, self.obj_type(b))
            vs = st[(o, kind)]
            name = "%s._%s" % (o.split("#")[0], kind)
            if not at_end or src is None or vs.own not in ("EMPTY", "UNCOUNTED"):
                raise Unknown("unmodelled %s.insert(...) at line %s: %s" % (name, n.get("l"), render(n)[:140]))
            self.ob("pointer-origin", "%s/push-shared" % name, True, "ok", n.get("l"))
            st[(o, kind)] = VS("UNCOUNTED", None, vs.origin | {"copy:" + src})
            return st
        if o is not None and m in VEC_SLOT and self.is_written(n):
            # V.at(k) = p
            self.ensure(st, o, self.obj_type(b))
            p = self.par[id(n)]
            org, e = self.classify_ptr(p["rhs"])
            name = "%s._%s" % (o.split("#")[0], kind)
            rel_ = st.get(("rel", o, kind))
            sk = render(n["a"][0]) if n.get("a") else m
            ok = rel_ is not None and rel_.g == sk and org == "alloc"
            self.ob("release-before-overwrite", "%s/slot-assign" % name, ok,
                    "ok" if ok else "slot %s of %s overwritten with %s without a preceding release_memory of that slot / with a pointer that is not a fresh allocation" % (sk, name, render(e)[:60]), n.get("l"))
            st.pop(("rel", o, kind), None)
            if ok and n.get("a") and unwrap(n["a"][0]).get("k") == "Int":
                st[("fs", o, kind)] = frozenset(st.get(("fs", o, kind), frozenset()) | {int(unwrap(n["a"][0])["v"])})
            if org == "alloc" and e.get("a"):
                # the size slot must be set to the same extent before the next exit
                pend = dict(st.get(("pend", o, kind)) or ())
                pend[sk] = (_norm_extent(self, e["a"][0]), e.get("i", 0), n.get("l"))
                st[("pend", o, kind)] = tuple(sorted(pend.items()))
                self.__dict__.setdefault("_pend_nodes", {})[(o, kind, sk, e.get("i", 0))] = e["a"][0]
            return st
        return st
    if k == "OpCall" and n.get("op") == "=" and n.get("a") and vec_member(n["a"][0]):
        kind, b = vec_member(n["a"][0])
        o = obj_id(b)
        if o is None:
            raise Unknown("assignment to the pointer vector of an unnamed object at line %s" % n.get("l"))
        self.ensure(st, o, self.obj_type(b))
        rhs = n["a"][1]
        moved = rhs.get("k") == "Call" and rhs.get("callee") == "std::move"
        r = unwrap(rhs)
        vm2 = vec_member(r)
        self.kill(o, kind, st, "operator=", n.get("l"))
        if vm2 and obj_id(vm2[1]) and vm2[0] == kind:
            o2 = obj_id(vm2[1])
            self.ensure(st, o2, self.obj_type(vm2[1]))
            if moved:
                st[(o, kind)] = st[(o2, kind)].with_(origin={"move:" + o2.split("#")[0]})
                # assumption (stated in the checks): a moved-from std::vector is empty
                st[(o2, kind)] = EMPTY
            else:
                st[(o, kind)] = VS("UNCOUNTED", None, {"copy:" + o2.split("#")[0]})
            return st
        raise Unknown("right-hand side of pointer-vector assignment at line %s: %s" % (n.get("l"), render(n)[:140]))
    return _orig_event(self, n, st, base_init, decl_obj)


def _src_of_range(self, args, kind):
    """`X.begin(), X.end()` with X the like-named pointer vector of another object -> its name"""
    if len(args) != 2:
        return None
    names = []
    for a, m in zip(args, ("begin", "end")):
        a = unwrap(a)
        if a.get("k") != "MCall" or a.get("n") not in (m, "c" + m):
            return None
        x = unwrap(a.get("obj"))
        vm = vec_member(x)
        if vm:
            if vm[0] != kind or obj_id(vm[1]) is None:
                return None
            names.append(obj_id(vm[1]).split("#")[0])
        elif x.get("k") == "MCall" and x.get("n") == "get_" + kind and obj_id(x.get("obj")):
            names.append(obj_id(x["obj"]).split("#")[0])
        else:
            return None
    return names[0] if names[0] == names[1] else None


def size_member(n):
    n = _deref_alias(n)
    if n is not None and n.get("k") == "Member":
        m = SIZE_RE.search(n.get("qn", ""))
        if m:
            return m.group(1), n.get("b")
    return None


def _len_of_vec(self, x, st):
    """abstract length of the std::vector denoted by x (a pointer vector, a size vector, a getter, a parameter)"""
    x = unwrap(x)
    for fn_, comp in ((vec_member, 0), (size_member, 1)):
        vm = fn_(x)
        if vm:
            o = obj_id(vm[1])
            if o is None:
                return ("e:" + render(x)[:40], 0)
            self.ensure(st, o, self.obj_type(vm[1]))
            return st[("len", o, vm[0])][comp]
    if x.get("k") == "MCall" and x.get("n") in ("get_elements", "get_indices", "get_elements_size", "get_indices_size") and x.get("obj") is not None:
        o = obj_id(x["obj"])
        if o is not None:
            self.ensure(st, o, self.obj_type(x["obj"]))
            nm = x["n"][4:]
            comp = 1 if nm.endswith("_size") else 0
            return st[("len", o, nm.replace("_size", ""))][comp]
    if x.get("k") == "Ref" and x.get("dk") == "param":
        nm = x["n"]
        return ("p:" + (nm[:-5] if nm.endswith("_size") else nm), 0)
    return ("e:" + render(x)[:40], 0)


def _zero_len(self, x, st):
    x = unwrap(x)
    for fn_, comp in ((vec_member, 0), (size_member, 1)):
        vm = fn_(x)
        if vm and obj_id(vm[1]):
            o = obj_id(vm[1])
            cur = list(st[("len", o, vm[0])])
            cur[comp] = L0
            st[("len", o, vm[0])] = tuple(cur)


def _set_len(self, st, o, kind, comp, val):
    cur = list(st[("len", o, kind)])
    cur[comp] = val
    st[("len", o, kind)] = tuple(cur)


def _range_src(args):
    """X of `X.begin(), X.end()`"""
    if len(args) == 2:
        a = unwrap(args[0])
        if a.get("k") == "MCall" and a.get("n") in ("begin", "cbegin") and a.get("obj") is not None:
            return a["obj"]
    return None


def _swap_operands(n):
    """(a, b) for a.swap(b) / std::swap(a, b) on vectors"""
    if n.get("k") == "MCall" and n.get("n") == "swap" and n.get("obj") is not None and len(n.get("a") or []) == 1:
        return n["obj"], n["a"][0]
    if n.get("k") == "Call" and n.get("callee") == "std::swap" and len(n.get("a") or []) == 2:
        return n["a"][0], n["a"][1]
    return None


def _event_len(self, n, st, base_init, decl_obj):
    """length bookkeeping of V / V_size, layered over the ownership events"""
    k = n.get("k")
    sw = _swap_operands(n)
    if sw is not None:
        a, b = unwrap(sw[0]), unwrap(sw[1])
        for fn_, comp in ((vec_member, 0), (size_member, 1)):
            va, vb = fn_(a), fn_(b)
            if va or vb:
                if not (va and vb) or va[0] != vb[0] or obj_id(va[1]) is None or obj_id(vb[1]) is None:
                    raise Unknown("swap of a container vector with something the check does not model at line %s: %s" % (n.get("l"), render(n)[:100]))
                kind, oa, ob_ = va[0], obj_id(va[1]), obj_id(vb[1])
                self.ensure(st, oa, self.obj_type(va[1]))
                self.ensure(st, ob_, self.obj_type(vb[1]))
                self.touched = True
                la, lb = list(st[("len", oa, kind)]), list(st[("len", ob_, kind)])
                la[comp], lb[comp] = lb[comp], la[comp]
                st[("len", oa, kind)], st[("len", ob_, kind)] = tuple(la), tuple(lb)
                if comp == 0:
                    # the pointers - and with them their ownership state - change places; nothing is lost or gained
                    st[(oa, kind)], st[(ob_, kind)] = st[(ob_, kind)], st[(oa, kind)]
                    for extra in ("fs", "pend", "rel"):
                        xa, xb = st.pop((extra, oa, kind), None), st.pop((extra, ob_, kind), None)
                        if xb is not None:
                            st[(extra, oa, kind)] = xb
                        if xa is not None:
                            st[(extra, ob_, kind)] = xa
                    self.nevents += 1
                return st
    if k == "Member" and size_member(n):
        kind, b = size_member(n)
        o = obj_id(b)
        p = self.par.get(id(n)) or {}
        pk = p.get("k")
        known = (pk == "MCall" and p.get("obj") is n) or (pk == "OpCall" and p.get("op") in ("=", "[]")) or pk in ("ForRange", "Return") \
            or (pk == "MCall" and p.get("n") == "swap" and size_member(p.get("obj"))) or (pk == "Call" and p.get("callee") == "std::swap") \
            or (pk == "Call" and p.get("callee") in ("std::move", "std::forward")) or pk in ("Construct", "TempObj")
        if not known and pk in ("Call", "MCall") and n in (p.get("a") or []):
            i = p["a"].index(n)
            pt = p.get("pt") or []
            t = self.fn.type(pt[i]) if i < len(pt) else ""
            known = t.startswith("const ") and t.endswith("&")
        if not known and o is not None:
            self.ensure(st, o, self.obj_type(b))
            self.set_len(st, o, kind, 1, ("U", 0))
        return st
    if k == "MCall" and n.get("obj") is not None:
        for fn_, comp in ((vec_member, 0), (size_member, 1)):
            vm = fn_(n["obj"])
            if not vm:
                continue
            kind, b = vm
            o = obj_id(b)
            m = n.get("n")
            if o is None:
                if comp == 1 and m not in VEC_READS | VEC_SLOT:
                    raise Unknown("size vector of an unnamed object modified at line %s" % n.get("l"))
                break
            self.ensure(st, o, self.obj_type(b))
            if m in PUSH and len(n.get("a") or []) == 1:
                cur = st[("len", o, kind)][comp]
                self.set_len(st, o, kind, comp, (cur[0], cur[1] + 1))
                self.touched = True
            elif m == "clear":
                self.set_len(st, o, kind, comp, L0)
                self.touched = True
            elif m == "assign":
                src = _range_src(n.get("a") or [])
                self.set_len(st, o, kind, comp, self.len_of_vec(src, st) if src is not None else ("e:" + render(n)[:40], 0))
                self.touched = True
            elif m == "insert" and len(n.get("a") or []) == 3:
                src = _range_src((n.get("a") or [])[1:])
                cur = st[("len", o, kind)][comp]
                add = self.len_of_vec(src, st) if src is not None else ("U", 0)
                self.set_len(st, o, kind, comp, add_len(cur, add) if not len_opaque(cur) and not len_opaque(add) else ("U", 0))
                self.touched = True
            elif comp == 1 and m not in VEC_READS | VEC_SLOT:
                raise Unknown("unmodelled std::vector operation %s on %s._%s_size at line %s" % (m, o.split("#")[0], kind, n.get("l")))
            if comp == 1:
                return st
            break
    if k == "OpCall" and n.get("op") == "=" and n.get("a"):
        for fn_, comp in ((vec_member, 0), (size_member, 1)):
            vm = fn_(n["a"][0])
            if not vm:
                continue
            kind, b = vm
            o = obj_id(b)
            if o is None:
                raise Unknown("assignment to a vector of an unnamed object at line %s" % n.get("l"))
            self.ensure(st, o, self.obj_type(b))
            rhs = n["a"][1]
            self.set_len(st, o, kind, comp, self.len_of_vec(rhs, st))
            if rhs.get("k") == "Call" and rhs.get("callee") == "std::move":
                self.zero_len(rhs, st)
            self.touched = True
            if comp == 1:
                return st
            break
    return _event(self, n, st, base_init, decl_obj)


# ---- writes through index arrays (arrays in _indices are shared by Layout/Weak/Shallow clones, layout()) ----

def _strip_ptr(e):
    e = unwrap(e)
    while e is not None and e.get("k") == "Cast" and e.get("e") is not None:
        e = unwrap(e["e"])
    return e


def _idx_accessor_slot(self, callee):
    """slot K if callee is a non-const parameterless member returning this->_indices.at(K)"""
    memo = self.fam.__dict__.setdefault("_idxacc", {})
    if id(callee) in memo:
        return memo[id(callee)]
    res = None
    if callee is not None and not callee.params and not callee.d.get("const") and callee.body is not None:
        ks = set()
        ok = True
        for r in walk(callee.body):
            if r.get("k") == "Return" and r.get("e") is not None:
                e = _strip_ptr(r["e"])
                if e.get("k") == "Null":
                    continue
                if e.get("k") == "MCall" and e.get("n") in ("at", "operator[]") and vec_member(e.get("obj")) and vec_member(e["obj"])[0] == "indices" \
                        and obj_id(vec_member(e["obj"])[1]) == "this" and e.get("a") and unwrap(e["a"][0]).get("k") == "Int":
                    ks.add(int(unwrap(e["a"][0])["v"]))
                else:
                    ok = False
        if ok and len(ks) == 1:
            res = next(iter(ks))
    memo[id(callee)] = res
    return res


def _idx_expr(self, e, depth=0, kind="indices"):
    """(object id, slot K or '?') if e is a pointer into an array stored in O._<kind>, else None"""
    e = _strip_ptr(e)
    if e is None or depth > 8:
        return None
    k = e.get("k")
    if k == "MCall" and e.get("n") in VEC_SLOT and vec_member(e.get("obj")) and vec_member(e["obj"])[0] == kind:
        o = obj_id(vec_member(e["obj"])[1])
        if o is None:
            return None
        a = e.get("a") or []
        return o, (int(unwrap(a[0])["v"]) if a and unwrap(a[0]).get("k") == "Int" else "?")
    if k == "OpCall" and e.get("op") == "[]" and e.get("a") and vec_member(e["a"][0]) and vec_member(e["a"][0])[0] == kind:
        o = obj_id(vec_member(e["a"][0])[1])
        if o is None:
            return None
        i = unwrap(e["a"][1])
        return o, (int(i["v"]) if i.get("k") == "Int" else "?")
    if k == "MCall" and not e.get("a") and not e.get("cconst") and short(e.get("ccls", "")) in self.fam.classes:
        o = obj_id(e["obj"]) if e.get("obj") is not None else "this"
        if o is None:
            return None
        slot = _idx_accessor_slot(self, self.fam.callee_fn(self.fn, e)) if kind == "indices" else None
        return (o, slot) if slot is not None else None
    if k == "Bin" and e.get("op") in ("+", "-"):
        return _idx_expr(self, e["lhs"], depth + 1, kind)
    if k == "Un" and e.get("op") == "&":
        x = unwrap(e["e"])
        if x.get("k") == "Index":
            return _idx_expr(self, x["b"], depth + 1, kind)
        return None
    if k == "Ref" and e.get("dk") == "local" and "*" in self.fn.ntype(e):
        defs = self.ptr_defs().get(e["d"], [])
        got = [g for g in (_idx_expr(self, d, depth + 1, kind) for d in defs) if g is not None]
        if not got:
            return None
        if all(g == got[0] for g in got):
            return got[0]
        return got[0][0], "?"
    return None


def _ptr_defs(self):
    if getattr(self, "_ptrdefs", None) is None:
        d = {}
        for n in self.fn.nodes():
            if n.get("k") == "Var" and n.get("init") is not None and "*" in self.fn.type(n.get("t")):
                d.setdefault(n["d"], []).append(n["init"])
            if n.get("k") == "Assign" and n.get("op") == "=" and unwrap(n["lhs"]).get("k") == "Ref" and unwrap(n["lhs"]).get("dk") == "local":
                d.setdefault(unwrap(n["lhs"])["d"], []).append(n["rhs"])
        self._ptrdefs = d
    return self._ptrdefs


def _const_pointee(t):
    t = (t or "").strip()
    if "*" not in t and "&" not in t:
        return True
    head = t[:max(t.rfind("*"), 0)] if "*" in t else t
    return bool(re.search(r"\bconst\b", head))


def _idx_write(self, tgt, st, how, n):
    o, slot = tgt
    if ("flag", o) not in st:
        return
    vs = st[(o, "indices")]
    fresh_all = vs.own == "OWN" and bool(vs.origin) and set(vs.origin) <= {"alloc"}
    fresh = fresh_all or (slot != "?" and slot in st.get(("fs", o, "indices"), ()))
    self.touched = True
    self.ob("index-array-write", "%s._indices[%s]" % (o.split("#")[0], slot), fresh,
            "ok: the array was allocated in this function" if fresh else
            "%s writes through array %s of %s._indices, which this function did not allocate (state %r): index arrays are shared by reference count with "
            "Layout/Weak/Shallow clones, layout() objects and matrices built from them, so their contents change too" % (how, slot, o.split("#")[0], vs), n.get("l"))


def _event_idx(self, n, st, base_init, decl_obj):
    k = n.get("k")
    if k == "Assign" or (k == "Un" and n.get("op") in ("++", "--")):
        l = unwrap(n["lhs"] if k == "Assign" else n["e"])
        ptr = None
        if l.get("k") == "Index":
            ptr = l["b"]
        elif l.get("k") == "Un" and l.get("op") == "*":
            ptr = l["e"]
        elif l.get("k") == "OpCall" and l.get("op") == "[]":
            ptr = None
        if ptr is not None:
            tgt = _idx_expr(self, ptr)
            if tgt is not None:
                _idx_write(self, tgt, st, "store `%s`" % render(n)[:70], n)
    elif is_call(n) and n.get("callee") not in (POOL + "release_memory", POOL + "increase_memory", POOL + "allocated_size") and \
            not (n.get("k") in ("Call", "MCall") and len(n.get("a") or []) == 1 and short(n.get("ccls", "")) in self.fam.classes and self.pool_callee(n) is not None):
        pts = n.get("pt") or []
        cal = str(n.get("callee", ""))
        for i, a in enumerate(n.get("a") or []):
            t = self.fn.type(pts[i]) if i < len(pts) else ""
            if "*" not in t or _const_pointee(t):
                continue
            for kd in ("elements", "indices"):
                sl = _idx_expr(self, a, 0, kd)
                if sl is not None and cal not in (POOL + "copy", POOL + "convert"):
                    # the array may be filled (or, for callees we do not know, even released) there
                    self.opaque_fills.add((sl[0], kd))
                    fam_callee = short(n.get("ccls", "")) in self.fam.classes
                    if fam_callee and self.pool_callee(n) is None:
                        g_ = self.any_callee(n)
                        if g_ is None or any(is_call(y) and str(y.get("callee", "")) in (POOL + "release_memory", POOL + "increase_memory") for y in walk(g_.body or {})):
                            fam_callee = False          # may release / count the array: not a mere reader / filler
                    if not re.match(r"^(FEAT::MemoryPool::|memcpy$|memset$|memmove$|std::(copy|fill|memcpy|memset|memmove|transform|generate|iota|sort)|FEAT::Pack::|FEAT::LAFEM::Arch::)", cal) \
                            and not fam_callee:
                        self.taint(sl[0], "an array of %s._%s is passed to %s (line %s), which the check does not model" % (sl[0].split("#")[0], kd, cal or "a call", n.get("l")), (kd,))
            tgt = _idx_expr(self, a)
            if tgt is not None:
                _idx_write(self, tgt, st, "call %s(... %s ...) (mutable parameter %s)" % (short(n.get("callee", "")), render(a)[:40], (n.get("pn") or ["?"] * (i + 1))[i] if i < len(n.get("pn") or []) else "?"), n)
    return _event_len(self, n, st, base_init, decl_obj)


def _accessor_modified_between(self, text, lo, hi):
    """is a quantity named in the extent (an accessor like allocated_elements()) assigned between two points?"""
    names = set(re.findall(r"\.(\w+?)(?:<[^()]*>)?\(\)", text))
    for x in self.fn.nodes():
        if x.get("i") is None or not (lo < x["i"] < hi):
            continue
        tgt = None
        if x.get("k") == "Assign":
            tgt = unwrap(x["lhs"])
        elif x.get("k") == "Un" and x.get("op") in ("++", "--"):
            tgt = unwrap(x["e"])
        if tgt is not None and tgt.get("k") == "MCall" and tgt.get("n", "").lstrip("_") in {n.lstrip("_") for n in names}:
            return tgt.get("n")
    return None


def _event_sizeslot(self, n, st, base_init, decl_obj):
    """`O._elements_size.at(k) = E` / `[k] = E`: the recorded extent of slot k"""
    if n.get("k") == "Assign" and n.get("op") == "=":
        l = unwrap(n["lhs"])
        tgt = None
        if l.get("k") == "MCall" and l.get("n") in VEC_SLOT and size_member(l.get("obj")):
            tgt = (size_member(l["obj"]), l.get("a") or [])
        elif l.get("k") == "OpCall" and l.get("op") == "[]" and l.get("a") and size_member(l["a"][0]):
            tgt = (size_member(l["a"][0]), l["a"][1:])
        if tgt is not None:
            (kind, b), idx = tgt
            o = obj_id(b)
            if o is None:
                raise Unknown("size slot of an unnamed object assigned at line %s" % n.get("l"))
            self.ensure(st, o, self.obj_type(b))
            self.touched = True
            sk = render(idx[0]) if idx else "?"
            name = "%s._%s" % (o.split("#")[0], kind)
            pend = dict(st.get(("pend", o, kind)) or ())
            got = _norm_extent(self, n["rhs"])
            if sk in pend:
                want, at, line0 = pend.pop(sk)
                mod = _accessor_modified_between(self, want, at, n.get("i", 0)) if want == got else None
                if mod:
                    self.ob("size-pairing", "%s/slot%s-reseat" % (name, sk), True,
                            "undecided: %s is modified between the allocation and the recorded extent" % mod, n.get("l"))
                else:
                    ok = want == got
                    if not ok:
                        # two spellings of one quantity (accessor vs raw slot, commuted sum)? compare as polynomials
                        node = self.__dict__.get("_pend_nodes", {}).get((o, kind, sk, at))
                        v = semantic_extent_verdict(self, node, n["rhs"], n.get("i", 0)) if node is not None else "ne"
                        if v == "eq":
                            ok = True
                        elif v == "unknown":
                            self.ob("size-pairing", "%s/slot%s-reseat" % (name, sk), True,
                                    "undecided: slot %s of %s was re-seated to an array of %s entries; the size slot records %s (not comparable)" % (sk, name, want, got), n.get("l"))
                            if pend:
                                st[("pend", o, kind)] = tuple(sorted(pend.items()))
                            else:
                                st.pop(("pend", o, kind), None)
                            return _event_idx(self, n, st, base_init, decl_obj)
                    self.ob("size-pairing", "%s/slot%s-reseat" % (name, sk), ok,
                            "slot %s of %s was re-seated (line %s) to an array of %s entries; the size slot records %s%s" % (
                                sk, name, line0, want, got, "" if ok else ": clone/convert/serialize size their copies from the recorded extent, so a copy gets a shorter array than "
                                "the capacity it believes to have (heap overrun on the next append) or reads past the end"), n.get("l"))
                if pend:
                    st[("pend", o, kind)] = tuple(sorted(pend.items()))
                else:
                    st.pop(("pend", o, kind), None)
            else:
                self.ob("size-pairing", "%s/slot%s-set" % (name, sk), True,
                        "undecided: size slot %s of %s set to %s without a re-seated array in this function" % (sk, name, got), n.get("l"))
            return _event_idx(self, n, st, base_init, decl_obj)
    return _event_idx(self, n, st, base_init, decl_obj)


Interp.event = _event_sizeslot
Interp.ptr_defs = _ptr_defs
Interp.src_of_range = _src_of_range
Interp.len_of_vec = _len_of_vec
Interp.zero_len = _zero_len
Interp.set_len = _set_len


# -------------------------------------------------------------------------------------------------
# allocate / size pairing
# -------------------------------------------------------------------------------------------------

INT_T = re.compile(r"^(const )?((unsigned |signed )?(int|long|short|long long|char)|unsigned|(FEAT::)?Index|(std::)?size_t|(std::)?u?int\d+_t|IT_?|DT_?|IndexType|[\w:]*::IndexType)( const)?$")


def _norm_extent(it, e):
    """normal form of an extent expression: const locals resolved through their initialiser, casts dropped"""
    e = unwrap(e)
    k = e.get("k")
    if k == "Ref" and e.get("dk") == "local" and INT_T.match(it.fn.ntype(e)):
        d = it.localdefs.get(e["d"])
        if d is not None and not it.reassigned(e["d"]):
            return _norm_extent(it, d)
    if k in ("Construct", "TempObj") and len(e.get("a", [])) == 1:
        return _norm_extent(it, e["a"][0])
    if k == "Bin" and e.get("op") in ("+", "*"):
        a, b = _norm_extent(it, e["lhs"]), _norm_extent(it, e["rhs"])
        return "(" + (" %s " % e["op"]).join(sorted([a, b])) + ")"
    if k == "Bin":
        return "(%s %s %s)" % (_norm_extent(it, e["lhs"]), e["op"], _norm_extent(it, e["rhs"]))
    if k == "MCall":
        nm = e.get("n") or e.get("callee", "").rsplit("::", 1)[-1]
        cf = e.get("cfull", "")
        j = cf.rfind("::" + nm)
        if j >= 0:
            nm = cf[j + 2:]
        ob = unwrap(e.get("obj")) if e.get("obj") is not None else None
        rec = "this" if ob is None or ob.get("k") == "This" else _norm_extent(it, ob)
        if not e.get("a"):
            nm = nm.lstrip("_")          # _rows() / rows(): private and public accessor of the same slot
        return "%s.%s(%s)" % (rec, re.sub(r"\s+", "", nm), ",".join(_norm_extent(it, a) for a in e.get("a", [])))
    if k == "Member":
        ob = unwrap(e.get("b")) if e.get("b") is not None else None
        rec = "this" if ob is None or ob.get("k") == "This" else _norm_extent(it, ob)
        return "%s.%s" % (rec, e["n"])
    return render(e)


def poly(it, e, depth=0):
    """polynomial normal form {monomial(tuple of atoms): coeff} of an integer extent expression"""
    e = unwrap(e)
    k = e.get("k")
    if depth > 12:
        return {(render(e),): 1}
    if k == "Int":
        v = int(e["v"])
        return {(): v} if v else {}
    if k in ("Construct", "TempObj") and len(e.get("a", [])) == 1:
        return poly(it, e["a"][0], depth + 1)
    if k == "Ref" and e.get("dk") == "local" and INT_T.match(it.fn.ntype(e)):
        d = it.localdefs.get(e["d"])
        if d is not None and not it.reassigned(e["d"]):
            return poly(it, d, depth + 1)
    if k == "Ref" and e.get("v") is not None and e.get("dk") in ("tparam", "enum", "smember", "global"):
        v = int(e["v"])
        return {(): v} if v else {}
    if k == "Bin" and e.get("op") in ("+", "-"):
        a, b = poly(it, e["lhs"], depth + 1), poly(it, e["rhs"], depth + 1)
        out = dict(a)
        for m, c in b.items():
            out[m] = out.get(m, 0) + (c if e["op"] == "+" else -c)
        return {m: c for m, c in out.items() if c}
    if k == "Bin" and e.get("op") == "*":
        a, b = poly(it, e["lhs"], depth + 1), poly(it, e["rhs"], depth + 1)
        out = {}
        for m1, c1 in a.items():
            for m2, c2 in b.items():
                m = tuple(sorted(m1 + m2))
                out[m] = out.get(m, 0) + c1 * c2
        return {m: c for m, c in out.items() if c}
    if it.inline_accessors and k == "MCall" and not e.get("a") and depth < 10:
        ob = e.get("obj")
        ob0 = unwrap(ob) if ob is not None else None
        while ob0 is not None and ob0.get("k") == "Cast" and ob0.get("e") is not None:
            ob0 = unwrap(ob0["e"])
        if ob0 is None or ob0.get("k") == "This":
            callee = it.fam.callee_fn(it.fn, e)
            rx = single_return_expr(callee) if callee is not None and short(callee.cls) in it.fam.classes else None
            if rx is not None:
                it2 = Interp(it.fam, callee)
                it2.inline_accessors = True
                _ALIAS.clear()
                _ALIAS.update(it.aliases)
                return poly(it2, rx, depth + 1)
    if k == "MCall" and e.get("n") in ("at", "operator[]") and e.get("a") and unwrap(e["a"][0]).get("k") == "Int" and e.get("obj") is not None \
            and unwrap(e["obj"]).get("k") == "Member" and SCAL_RE.search(unwrap(e["obj"]).get("qn", "")) and obj_id(unwrap(e["obj"]).get("b")) == "this":
        return {("slot%s" % unwrap(e["a"][0])["v"],): 1}
    return {(_norm_extent(it, e),): 1}


def single_return_expr(fn):
    """the expression a small accessor returns: `return E;`, possibly selected by `if constexpr`, possibly wrapped in
    `if(cond) return E; else return 0;` (Container::size); None if the body is anything else"""
    def rec(n):
        if n is None:
            return None
        k = n.get("k")
        if k == "Block":
            ss = [x for x in n.get("s", []) if x.get("k") != "Null_"]
            if len(ss) == 1:
                return rec(ss[0])
            if len(ss) == 2 and ss[0].get("k") == "If" and ss[0].get("else") is None and ss[1].get("k") == "Return":
                a, b = rec(ss[0].get("then")), rec(ss[1])
                return pick(a, b)
            return None
        if k == "Return":
            return n.get("e")
        if k == "If":
            th, el = n.get("then"), n.get("else")
            if n.get("constexpr"):
                if th is not None and th.get("k") == "Null_":
                    return rec(el)
                if el is None or el.get("k") == "Null_":
                    return rec(th)
            return pick(rec(th), rec(el))
        return None

    def pick(a, b):
        def zero(x):
            x = unwrap(x) if x is not None else None
            while x is not None and x.get("k") in ("Construct", "TempObj") and len(x.get("a", [])) == 1:
                x = unwrap(x["a"][0])
            return x is not None and x.get("k") == "Int" and x.get("v") == "0"
        if a is not None and b is not None:
            if zero(a) and not zero(b):
                return b
            if zero(b) and not zero(a):
                return a
        return None
    if fn is None or fn.body is None or fn.params:
        return None
    return rec(fn.body)


def psubst(p, atom, q):
    """substitute polynomial q for the atom in p"""
    out = {}
    for m, c in p.items():
        cur = {(): c}
        for a in m:
            factor = q if a == atom else {(a,): 1}
            nxt = {}
            for m1, c1 in cur.items():
                for m2, c2 in factor.items():
                    mm = tuple(sorted(m1 + m2))
                    nxt[mm] = nxt.get(mm, 0) + c1 * c2
            cur = nxt
        for mm, cc in cur.items():
            out[mm] = out.get(mm, 0) + cc
    return {m: c for m, c in out.items() if c}


def pmul(p, c):
    return {m: v * c for m, v in p.items() if v * c}


def pshow(p):
    if not p:
        return "0"
    return " + ".join(str(c) if not m else ("%d*" % c if c != 1 else "") + "*".join(m) for m, c in sorted(p.items(), key=lambda kv: (not kv[0], kv[0])))


def psub(a, b):
    out = dict(a)
    for m, c in b.items():
        out[m] = out.get(m, 0) - c
    return {m: c for m, c in out.items() if c}


def single_atom(p):
    ms = [m for m in p if m]
    if len(ms) == 1 and len(ms[0]) == 1 and p[ms[0]] == 1:
        return ms[0][0]
    return None



def poly_verdict(p, q):
    """'eq' | 'ne' | 'unknown' for two extent polynomials over opaque size atoms.
    'ne' (definitely different quantities) only if they differ by a non-zero constant, or the differing atoms are all
    accessor calls on one and the same object (two different accessors / perspectives of one object are different
    quantities by the repository's own naming); atoms of different objects or locals may be equal in value."""
    d = psub(p, q)
    if not d:
        return "eq"
    if all(not m for m in d):
        return "ne"
    if {m for m in p if m} == {m for m in q if m}:
        return "ne"          # the same size quantities with different coefficients
    atoms = set()
    for m in d:
        atoms.update(m)
    if any(len(m) > 1 for m in d):
        # a product of size quantities may equal another one (size() == rows() * columns()): not decidable from the names
        return "unknown"
    recv = set()
    for a in atoms:
        if re.match(r"^slot\d+$", a):
            recv.add("this")          # a slot of this object's _scalar_index (an inlined accessor of this)
            continue
        mm = re.match(r"^([\w>-]+(?:#\d+)?)\.[\w<>:, ]+\(\)$", a)
        if not mm:
            return "unknown"
        recv.add(mm.group(1))
    return "ne" if len(recv) == 1 else "unknown"


def ctor_slot_values(it, before):
    """{'slotK': polynomial} of the values a constructor has stored in _scalar_index by the time statement id `before`
    executes: slot 0 from the Container(size_in) base initialiser, the others from the unconditional top-level
    `_scalar_index.push_back(E)` / `_scalar_index.at(k) = E` statements of the body.  None if the list is filled in any
    other way (then nothing is known)."""
    fn = it.fn
    if not fn.d.get("ctor") or fn.body is None:
        return None
    vals, nxt = {}, 0
    for i in fn.d.get("inits") or []:
        init = i.get("init") or {}
        if i.get("base") and str(init.get("ccls", "")).startswith("FEAT::LAFEM::Container<"):
            if init.get("pn") == ["size_in"] and init.get("a"):
                vals["slot0"] = poly(it, init["a"][0])
                nxt = 1
            else:
                return None
    if nxt == 0:
        return None
    top = fn.body.get("s", []) if fn.body.get("k") == "Block" else [fn.body]
    top_ids = {id(x) for x in top}
    for x in fn.nodes():
        tgt = None
        if x.get("k") == "MCall" and x.get("obj") is not None and unwrap(x["obj"]).get("k") == "Member" and SCAL_RE.search(unwrap(x["obj"]).get("qn", "")):
            if obj_id(unwrap(x["obj"]).get("b")) != "this" or x.get("n") in VEC_READS | VEC_SLOT:
                continue
            if x.get("n") not in PUSH or id(x) not in top_ids or len(x.get("a") or []) != 1:
                return None
            if x.get("i", 0) < before:
                vals["slot%d" % nxt] = poly(it, x["a"][0])
            nxt += 1
        elif x.get("k") == "Assign" and unwrap(x["lhs"]).get("k") == "MCall" and unwrap(x["lhs"]).get("n") in VEC_SLOT:
            l = unwrap(x["lhs"])
            ob = unwrap(l.get("obj") or {})
            if ob.get("k") == "Member" and SCAL_RE.search(ob.get("qn", "")) and obj_id(ob.get("b")) == "this":
                if x.get("op") != "=" or id(x) not in top_ids or not l.get("a") or unwrap(l["a"][0]).get("k") != "Int":
                    return None
                k = "slot%s" % unwrap(l["a"][0])["v"]
                if x.get("i", 0) < before:
                    vals[k] = poly(it, x["rhs"])
                else:
                    vals.pop(k, None)          # overwritten later: the value at `before` is the earlier one, keep it simple
        elif x.get("k") == "OpCall" and x.get("op") == "=" and x.get("a") and unwrap(x["a"][0]).get("k") == "Member" and SCAL_RE.search(unwrap(x["a"][0]).get("qn", "")) \
                and obj_id(unwrap(x["a"][0]).get("b")) == "this":
            return None
    return vals


def semantic_extent_verdict(it, e1, e2, at):
    """'eq' | 'ne' | 'unknown' for two extent expressions of one function, compared as polynomials after inlining the
    class's own accessors (size() -> slot 0, rows() -> slot 1, size<pod>() -> slot 0 * BlockSize, ...) and - in a
    constructor - the values the scalar slots were given before statement id `at`"""
    it.inline_accessors = True
    saved = dict(_ALIAS)
    try:
        p, q = poly(it, e1), poly(it, e2)
        sv = ctor_slot_values(it, at)
    finally:
        it.inline_accessors = False
        _ALIAS.clear()
        _ALIAS.update(saved)
    v = poly_verdict(p, q)
    if v == "eq" or not sv:
        return v
    for k, val in sv.items():
        p, q = psubst(p, k, val), psubst(q, k, val)
    v = poly_verdict(p, q)
    if v == "unknown":
        # two different polynomials over the constructor's own (independent) integer parameters differ for some arguments
        atoms = {a for m in psub(p, q) for a in m}
        if atoms and atoms <= {p_["n"] for p_ in it.fn.params if INT_T.match(it.fn.type(p_["t"]) or "")}:
            return "ne"
    return v


def pair_pushes(fam, fn):
    """-> (obligations [(subkey, ok, detail, line, trivial)], unknown [str]).

    Within every statement list, the pushes into O._elements (resp. O._indices) and the pushes into
    O._elements_size (resp. O._indices_size) must alternate pairwise, the k-th array with the k-th extent:
      * array = MemoryPool::allocate_memory<T>(E): the recorded extent must be E (normal forms equal);
        the indexed form `V.push_back(allocate_memory(V_size.at(i)))` in a loop over i is accepted when V
        is filled from index 0 (the sizes were assigned wholesale before);
      * array = X.elements()/X.template elements<P>() of a vector X: the recorded extent must be X.size()/
        X.template size<P>() of the same X and perspective;
      * other raw pointers: extent not derivable (recorded as trivial).
    """
    it = Interp(fam, fn)
    obs, unknown = [], []
    seen = set()

    def pushes_in(block_stmts):
        seq = []
        for s in block_stmts:
            if s.get("k") == "MCall" and s.get("n") in PUSH and len(s.get("a") or []) == 1 and s.get("obj", {}).get("k") == "Member":
                q = s["obj"].get("qn", "")
                mv, ms = VEC_RE.search(q), SIZE_RE.search(q)
                if mv or ms:
                    o = obj_id(s["obj"].get("b"))
                    seq.append(("P" if mv else "S", (mv or ms).group(1), o, s))
                    seen.add(id(s))
        return seq

    def handle_block(stmts, loopvar=None):
        seq = pushes_in(stmts)
        for kind in ("elements", "indices"):
            objs = sorted({x[2] or "?" for x in seq if x[1] == kind})
            for o in objs:
                sub = [x for x in seq if x[1] == kind and (x[2] or "?") == o]
                P = [x for x in sub if x[0] == "P"]
                S = [x for x in sub if x[0] == "S"]
                name = "%s._%s" % (o.split("#")[0], kind)
                if not P:
                    # sizes pushed alone (e.g. deserialisation reads all sizes first): nothing to pair here
                    continue
                if not S:
                    for i, p in enumerate(P):
                        org, e = it.classify_ptr(p[3]["a"][0])
                        ok, det = None, "array pushed into %s without a push into _%s_size in the same statement list" % (name, kind)
                        if org == "alloc":
                            ext = unwrap(e["a"][0]) if e.get("a") else None
                            extn = _norm_extent(it, ext) if ext is not None else ""
                            m = re.match(r"^(\w+)\._%s_size\.at\((\w+)\)$" % kind, extn)
                            if m and m.group(1) == o.split("#")[0] and loopvar is not None and m.group(2) == loopvar and len(P) == 1:
                                ok, det = True, "indexed pairing: slot i of %s is allocated with extent _%s_size.at(i)" % (name, kind)
                        if ok is None:
                            # the extent may be recorded elsewhere (another block, a helper): the length rule decides the count
                            obs.append(("%s/%d" % (name, i), True, "undecided: " + det, p[3].get("l"), True))
                        else:
                            obs.append(("%s/%d" % (name, i), ok, det, p[3].get("l"), False))
                    continue
                if len(P) != len(S):
                    obs.append(("%s/count" % name, True, "undecided: %d arrays pushed into %s but %d extents pushed into _%s_size in the same statement list (the length rule decides the count)" % (len(P), name, len(S), kind), P[0][3].get("l"), True))
                    continue
                for i, (p, s) in enumerate(zip(P, S)):
                    org, e = it.classify_ptr(p[3]["a"][0])
                    sz = _norm_extent(it, s[3]["a"][0])
                    line = p[3].get("l")
                    if org == "alloc":
                        ext = _norm_extent(it, e["a"][0]) if e.get("a") else "?"
                        v = "eq" if ext == sz else (poly_verdict(poly(it, e["a"][0]), poly(it, s[3]["a"][0])) if e.get("a") else "unknown")
                        if v != "eq" and e.get("a"):
                            # two spellings of one quantity (size() vs rows() * columns(), a hoisted rows_in * columns_in)?
                            v = semantic_extent_verdict(it, e["a"][0], s[3]["a"][0], min(p[3].get("i", 0), s[3].get("i", 0)))
                        det = "array %d of %s allocated with extent %s, recorded extent %s" % (i, name, ext, sz)
                        if v == "unknown":
                            obs.append(("%s/%d" % (name, i), True, "undecided: " + det + " (quantities of different objects, not comparable)", line, True))
                        else:
                            obs.append(("%s/%d" % (name, i), v == "eq", det, line, False))
                        continue
                    # shared array of a vector object X
                    e0 = unwrap(e)
                    if e0.get("k") == "MCall" and e0.get("cfull", "").rsplit("::", 1)[-1].split("<")[0] == "elements" and obj_id(e0.get("obj")):
                        x = obj_id(e0["obj"]).split("#")[0]
                        persp = re.search(r"<(.*)>$", e0.get("cfull", ""))
                        persp = re.sub(r"\s+", "", persp.group(1)) if persp else "FEAT::LAFEM::Perspective::native"
                        want1 = "%s.size<%s>()" % (x, persp)
                        ok = sz == want1
                        obs.append(("%s/%d" % (name, i), ok, "array %d of %s is %s, recorded extent %s (expected %s)" % (i, name, render(e0)[:60], sz, want1), line, False))
                        continue
                    obs.append(("%s/%d" % (name, i), True, "array %d of %s is the raw pointer %s; recorded extent %s not derivable from it" % (i, name, render(e0)[:60], sz), line, True))

    def visit(n, loopvar=None):
        k = n.get("k")
        if k == "Block":
            handle_block(n.get("s", []), loopvar)
            for s in n["s"]:
                visit(s, loopvar)
            return
        if k in ("For",):
            lv = None
            init = n.get("init")
            if init is not None and init.get("k") == "Decl" and len(init["vars"]) == 1:
                v = init["vars"][0]
                if v.get("init") is not None and unwrap(v["init"]).get("k") == "Int" and unwrap(v["init"])["v"] == "0":
                    lv = v["n"]
            b = n.get("body")
            if b is not None and b.get("k") != "Block":
                handle_block([b], lv)
            if b is not None:
                visit(b, lv)
            return
        for key in ("then", "else", "body", "s"):
            c = n.get(key)
            if isinstance(c, dict) and "k" in c:
                if c.get("k") != "Block":
                    handle_block([c], loopvar if key == "body" else None)
                visit(c, None if key != "body" else loopvar)
            elif isinstance(c, list):
                for x in c:
                    if isinstance(x, dict) and "k" in x:
                        visit(x, loopvar)

    if fn.body is not None:
        visit(fn.body)
    # pushes we did not see as plain statements (nested in expressions) -> unknown
    for n in fn.nodes():
        if n.get("k") == "MCall" and n.get("n") in PUSH and n.get("obj", {}).get("k") == "Member":
            q = n["obj"].get("qn", "")
            if VEC_RE.search(q) and id(n) not in seen:
                unknown.append("push_back into a pointer vector in an unrecognised position at line %s" % n.get("l"))
    return obs, unknown


def exit_obligations(it):
    """-> [(rule, subkey, ok, detail, line)] for the normal exits of an interpreted function.

    Every container object the function leaves behind (this, moved-from parameters, locals about to be
    destroyed) must be in a state consistent with its _foreign_memory flag; the destructors of the
    classes that own the release loops (Container, SparseLayout) must leave nothing owned."""
    out = {}
    fn = it.fn
    releasing_dtor = bool(fn.d.get("dtor")) and it.cls in ("Container", "SparseLayout")
    no_elements = it.cls == "SparseLayout"
    for st, line in it.exits:
        objs = sorted({k[1] for k in st if k[0] == "flag"})
        for o in objs:
            fl = st[("flag", o)]
            for kind in ("elements", "indices"):
                vs = st.get((o, kind))
                if vs is None or (no_elements and o == "this" and kind == "elements"):
                    continue
                name = "%s._%s" % (o.split("#")[0], kind)
                if releasing_dtor and o == "this":
                    ok = vs.own in ("EMPTY", "NOREF")
                    det = "ok" if ok else "destructor exit at line %s leaves %s in state %r: its arrays are never released" % (line, name, vs)
                    rule = "destructor-releases"
                else:
                    ok = consistent(vs, fl)
                    rule = "exit-state"
                    det = "ok"
                    if not ok:
                        if vs.own == "MOVED":
                            det = "exit at line %s: %s was moved from but not emptied" % (line, name)
                        elif vs.own == "UNCOUNTED":
                            det = "exit at line %s: %s holds pointers copied from %s for which no reference was taken (no increase_memory loop on this path) and the object is not marked _foreign_memory (flag %s): the arrays are released once too often" % (line, name, ",".join(sorted(vs.origin)) or "?", fl)
                        elif vs.own == "NOREF":
                            det = "exit at line %s: %s holds pointers without owned references (released or foreign) but _foreign_memory is %s" % (line, name, fl)
                        elif vs.own == "OWN":
                            det = "exit at line %s: %s owns its arrays but _foreign_memory is %s (not reset to false): they would never be released" % (line, name, fl)
                        elif vs.own == "VALID":
                            det = "exit at line %s: %s is governed by the flag value %s but _foreign_memory is %s on this path" % (line, name, vs.g, fl)
                        else:
                            det = "exit at line %s: paths disagree on the ownership of %s (%r, flag %s)" % (line, name, vs, fl)
                if not ok and it.tainted_by(name):
                    it.unk("%s of %s cannot be decided: %s" % (rule, name, it.tainted_by(name)))
                    ok, det = True, "undecided: " + it.tainted_by(name)
                prev = out.get((rule, name))
                if prev is None or (prev[0] and not ok):
                    out[(rule, name)] = (ok, det, line)
                pend = st.get(("pend", o, kind))
                if pend:
                    for sk, (want, at, line0) in pend:
                        out[("size-pairing", "%s/slot%s-reseat" % (name, sk))] = (False,
                            "exit at line %s: slot %s of %s was re-seated (line %s) to an array of %s entries but the size slot was not updated" % (line, sk, name, line0, want), line)
                # length agreement of V and V_size
                ln = st.get(("len", o, kind))
                if ln is not None and not fn.d.get("dtor"):
                    if ln[0] == ln[1]:
                        ok2, det2 = True, "ok"
                    elif len_opaque(ln[0]) or len_opaque(ln[1]):
                        ok2, det2 = True, "undecided: lengths %s / %s depend on data-dependent loop bounds" % (show_len(ln[0]), show_len(ln[1]))
                    elif it.tainted_by(name):
                        ok2, det2 = True, "undecided: " + it.tainted_by(name)
                    else:
                        ok2 = False
                        det2 = "exit at line %s: %s holds %s arrays but %s_size holds %s extents: a clear()/assign()/move of one vector is not matched on its partner, so slot i of the size vector no longer describes array i (format/clone/copy/serialize then use the extent of another array)" % (
                            line, name, show_len(ln[0]), name, show_len(ln[1]))
                    prev = out.get(("size-vector-length", name))
                    if prev is None or (prev[0] and not ok2) or (prev[0] and ok2 and prev[1].startswith("undecided") and not det2.startswith("undecided")):
                        out[("size-vector-length", name)] = (ok2, det2, line)
    return [(r, n, v[0], v[1], v[2]) for (r, n), v in sorted(out.items())]


def show_len(l):
    b, o = l
    if b == "0":
        return str(o)
    b = {"U": "an unknown number of"}.get(b, " + ".join("len(%s)" % t.split(":", 1)[-1] for t in b.split("+")))
    return b if o == 0 else "%s%+d" % (b, o)


# -------------------------------------------------------------------------------------------------
# clone / assign aliasing tables and their composition (shared by C02 and C20)
# -------------------------------------------------------------------------------------------------

DOC_PHRASES = [
    # (regex on the doxygen text of the enumerator, (indices, elements))
    (r"^share index and data arrays$", ("shared", "shared")),
    (r"^share index arrays, allocate new data array$", ("shared", "fresh")),
    (r"^share index arrays, allocate new data array and copy content$", ("shared", "fresh+copy")),
    (r"^allocate new index and data arrays and copy content$", ("fresh+copy", "fresh+copy")),
    (r"^allocate new index and data arrays$", ("fresh", "fresh")),
]


def documented_clone_table():
    """{mode: (value, indices, elements)} parsed from the enumerator comments in kernel/lafem/base.hpp"""
    p = featlib.repo_path("kernel/lafem/base.hpp")
    txt = open(p).read()
    m = re.search(r"enum\s+class\s+CloneMode\s*\{(.*?)\}", txt, re.S)
    if not m:
        return None, "enum class CloneMode not found in kernel/lafem/base.hpp"
    out = {}
    val = -1
    for line in m.group(1).splitlines():
        mm = re.match(r"\s*(\w+)\s*(?:=\s*(\d+))?\s*,?\s*/\*\*<\s*(.*?)\s*\*/", line)
        if not mm:
            if line.strip():
                return None, "unparsed enumerator line %r" % line.strip()
            continue
        val = int(mm.group(2)) if mm.group(2) else val + 1
        doc = mm.group(3).strip().lower().rstrip(".")
        cls = None
        for rx, c in DOC_PHRASES:
            if re.match(rx, doc):
                cls = c
        if cls is None:
            return None, "documentation of CloneMode::%s (%r) is not one of the transcribed phrases" % (mm.group(1), doc)
        out[mm.group(1)] = (val, cls[0], cls[1])
    return out, None


def classify(vs, flag, it, obj_kind, srcname):
    """shared | fresh | fresh+copy | other(<why>) for the exit state of one pointer vector"""
    if vs.own != "OWN" or flag != "F":
        return "other(%r, flag %s)" % (vs, flag)
    org = set(vs.origin)
    if org == {"copy:" + srcname, "counted"}:
        return "shared"
    if org == {"alloc"}:
        if vs.filled == {"copy:" + srcname}:
            return "fresh+copy"
        if not vs.filled:
            if ("this", obj_kind) in getattr(it, "opaque_fills", ()):
                return "unknown(fresh arrays handed to a call the check does not model - they may be filled there)"
            return "fresh"
    return "other(%r)" % (vs,)


def targs(s):
    """top-level template arguments of the last <...> group of s"""
    if not s.endswith(">"):
        return []
    depth = 0
    i = len(s) - 1
    while i >= 0:
        if s[i] == ">":
            depth += 1
        elif s[i] == "<":
            depth -= 1
            if depth == 0:
                break
        i -= 1
    inner = s[i + 1:-1]
    out, cur, depth = [], "", 0
    for ch in inner:
        if ch == "," and depth == 0:
            out.append(cur.strip())
            cur = ""
            continue
        if ch in "<(":
            depth += 1
        elif ch in ">)":
            depth -= 1
        cur += ch
    if cur.strip():
        out.append(cur.strip())
    return out


def extracted_tables(fam):
    """-> (clone table {mode value: (indices, elements)} of the same-type Container::clone,
           assign table {(sameDT, sameIT): {kind: shared|fresh+copy|...}}) extracted from the code; None entries on failure"""
    doc, err = documented_clone_table()
    ctab, atab = {}, {}
    fns = [f for f in fam.functions() if f.name == "clone" and short(f.cls) == "Container" and len(f.params) == 2
           and f.full.count("<") == f.cls.count("<")]
    if doc and fns:
        fn = fns[0]
        for mode, (val, _, _) in doc.items():
            it = Interp(fam, fn, env={fn.params[1]["n"]: val}).run()
            st = None
            for s_, _ in it.exits:
                st = join_state(st, s_)
            if it.unknown or st is None or it.mode_undecided:
                continue
            fl = st.get(("flag", "this"))
            ctab[val] = (classify(st[("this", "indices")], fl, it, "indices", fn.params[0]["n"]),
                         classify(st[("this", "elements")], fl, it, "elements", fn.params[0]["n"]))
    for fn in [f for f in fam.functions() if f.name == "assign" and short(f.cls) == "Container" and len(f.params) == 1]:
        ca, fa = targs(fn.cls), targs(fn.full)
        if len(ca) != 2 or len(fa) != 2:
            continue
        it = Interp(fam, fn).run()
        st = None
        for s_, _ in it.exits:
            st = join_state(st, s_)
        if it.unknown or st is None:
            continue
        fl = st.get(("flag", "this"))
        atab[(ca[0] == fa[0], ca[1] == fa[1])] = {k: classify(st[("this", k)], fl, it, k, fn.params[0]["n"]) for k in ("elements", "indices")}
    return ctab, atab


def _dt_it(tstr, fam=None):
    """(data type, index type) of a container type string: the template arguments of its Container<DT, IT> base class
    (read from the base initialisers of its constructors - class names are printed with defaulted arguments elided)"""
    t = re.sub(r"\s+", " ", (tstr or "").replace("const ", "").replace("&", "")).strip()
    if fam is not None:
        bases = fam.__dict__.get("_container_base")
        if bases is None:
            bases = {}
            for facts in fam.facts_list:
                for fn in facts.functions:
                    if fn.d.get("ctor"):
                        for i in fn.d.get("inits") or []:
                            cc = str((i.get("init") or {}).get("ccls", ""))
                            if i.get("base") and cc.startswith("FEAT::LAFEM::Container<"):
                                ta = targs(cc)
                                if len(ta) == 2:
                                    bases[re.sub(r"\s+", " ", fn.cls).strip()] = (ta[0], ta[1])
            fam._container_base = bases
        if t in bases:
            return bases[t]
        if not t.startswith("FEAT::") and ("FEAT::LAFEM::" + t) in bases:
            return bases["FEAT::LAFEM::" + t]
    ta = targs(t)
    return (ta[0], ta[1]) if len(ta) >= 2 else None


class _CloneEval:
    """symbolic evaluation of one clone overload for one clone mode: which arrays of each container object alias the
    arrays of the *source* (the object the clone is taken from).  Objects: 'this', the source parameter, family locals.
    rel[obj] = {'elements': 'shared' | 'fresh' | 'none' | '?', 'indices': ...}.  Calls on tracked objects are composed
    from the extracted tables of Container::assign / Container::clone(same type) and Container::move; every other
    family member that receives a tracked object (T::convert(other), the templated Container::clone, a helper) is
    evaluated recursively on its own body (bounded depth) - so a clone overload that delegates to convert/assign is
    judged by what convert/assign really shares."""

    def __init__(self, fam, ctab, atab, mode_name):
        self.fam, self.ctab, self.atab, self.mode_name = fam, ctab, atab, mode_name
        self.problems = []

    def run(self, fn, env, src_rels, depth=0, this_rel=None):
        """src_rels: {parameter decl id: relation dict} for the container parameters that are tracked.
        -> (rel of this at the exits joined, rel of the returned local or None)"""
        fam = self.fam
        with _alias_scope():
            it = Interp(fam, fn, env=dict(env))
        _ALIAS.clear()
        _ALIAS.update(it.aliases)
        rel_ = {}
        if this_rel is not None:
            rel_["this"] = dict(this_rel)
        for p_ in fn.params:
            if p_["d"] in src_rels:
                rel_["%s#%s" % (p_["n"], p_["d"])] = dict(src_rels[p_["d"]])
        exits = []
        me = self

        def prob(s_):
            if s_ not in me.problems:
                me.problems.append(s_)

        def relof(o):
            return rel_.get(o)

        def compose(tab_i, tab_e, srcrel):
            return {"indices": srcrel["indices"] if tab_i == "shared" else "fresh" if tab_i.startswith("fresh") else "?",
                    "elements": srcrel["elements"] if tab_e == "shared" else "fresh" if tab_e.startswith("fresh") else "?"}

        def call_effect(n):
            nm = n.get("n")
            o = obj_id(n.get("obj")) if n.get("obj") is not None else "this"
            ccls = short(n.get("ccls", ""))
            if o is None or ccls not in fam.classes or n.get("cstatic"):
                return False
            args = n.get("a") or []
            a0 = obj_id(args[0]) if args else None
            callee = fam.callee_fn(fn, n)
            templ = callee is not None and callee.full.count("<") > callee.cls.count("<")
            if ccls == "Container" and nm == "assign" and len(args) == 1 and a0 is not None:
                if callee is None:
                    prob("callee of assign not found")
                    return True
                ct, pt = _dt_it(callee.cls, fam), _dt_it(callee.type(callee.params[0]["t"]), fam)
                tab = me.atab.get((ct[0] == pt[0], ct[1] == pt[1])) if ct and pt else None
                if tab is None:
                    prob("no extracted sharing table for %s" % callee.full)
                    return True
                srcrel = relof(a0)
                if srcrel is None:
                    prob("assign from an untracked object (%s)" % a0.split("#")[0])
                    return True
                rel_[o] = compose(tab["indices"], tab["elements"], srcrel)
                return True
            if ccls == "Container" and nm == "clone" and len(args) == 2 and a0 is not None and not templ:
                m = it.const_of(args[1])
                if m is None or m not in me.ctab:
                    prob("clone with a mode that is not a constant under clone_mode == %s" % me.mode_name)
                    return True
                srcrel = relof(a0)
                if srcrel is None:
                    prob("clone from an untracked object (%s)" % a0.split("#")[0])
                    return True
                rel_[o] = compose(me.ctab[m][0], me.ctab[m][1], srcrel)
                return True
            if ccls == "Container" and nm == "move" and len(args) == 1 and a0 is not None:
                srcrel = relof(a0)
                if srcrel is None:
                    prob("move from an untracked object (%s)" % a0.split("#")[0])
                    return True
                rel_[o] = dict(srcrel)
                rel_[a0] = {"elements": "none", "indices": "none"}
                return True
            if nm == "clear" and not args:
                rel_[o] = {"elements": "none", "indices": "none"}
                return True
            if n.get("cconst"):
                return True
            # any other member that works on a tracked object: follow its body
            tracked = [(i, obj_id(a_)) for i, a_ in enumerate(args) if obj_id(a_) is not None and relof(obj_id(a_)) is not None]
            if callee is None or callee.body is None or callee is fn or depth >= 4:
                if tracked or relof(o) is not None:
                    prob("call %s at line %s: body not available / too deep" % (render(n)[:60], n.get("l")))
                return True
            if not tracked:
                if relof(o) is not None and fam.callee_fn(fn, n) is not None:
                    # a member of an object whose arrays are tracked, receiving no tracked object: harmless only if it does
                    # not touch the pointer vectors
                    if any(vec_member(x) for x in walk(callee.body)) or any(is_call(x) and short(x.get("ccls", "")) in fam.classes and not x.get("cconst") for x in walk(callee.body)):
                        prob("call %s at line %s changes the arrays of a tracked object" % (render(n)[:60], n.get("l")))
                return True
            sub_src = {}
            for i, ao in tracked:
                if i < len(callee.params):
                    sub_src[callee.params[i]["d"]] = relof(ao)
            env2 = it.call_env(callee, n)
            modeps = [p_["n"] for p_ in callee.params if short(callee.type(p_["t"])).replace("const ", "").strip() == "CloneMode"]
            if any(mp not in env2 for mp in modeps):
                prob("call %s at line %s: clone mode argument is not a constant under clone_mode == %s" % (render(n)[:60], n.get("l"), me.mode_name))
                return True
            saved = dict(_ALIAS)
            try:
                r_this, _ = me.run(callee, env2, sub_src, depth + 1)
            finally:
                _ALIAS.clear()
                _ALIAS.update(saved)
            if r_this is not None:
                rel_[o] = r_this
            return True

        def snapshot():
            exits.append({k: dict(v) for k, v in rel_.items()})

        ret_local = []

        def ex(n):
            """True: fell through; False: returned; 'brk': left the enclosing switch"""
            k = n.get("k")
            if k == "Block":
                for s_ in n.get("s", []):
                    r_ = ex(s_)
                    if r_ is not True:
                        return r_
                return True
            if k == "Null_":
                return True
            if k == "Break":
                return "brk"
            if k == "Decl":
                for v in n.get("vars", []):
                    t = fn.type(v.get("t"))
                    if fam.is_family_type(t) and not v.get("ref") and "*" not in t:
                        init = v.get("init")
                        o = "%s#%s" % (v["n"], v["d"])
                        if init is None or (init.get("k") in ("Construct", "TempObj") and not any(obj_id(a_) is not None and relof(obj_id(a_)) is not None for a_ in init.get("a") or [])):
                            rel_[o] = {"elements": "none", "indices": "none"}
                        else:
                            prob("declaration %s at line %s is initialised from a tracked object" % (v["n"], n.get("l")))
                    elif v.get("init") is not None and any(is_call(x) and short(x.get("ccls", "")) in fam.classes and not x.get("cconst") for x in walk(v["init"])):
                        prob("declaration %s at line %s" % (v["n"], n.get("l")))
                return True
            if k == "If":
                if n.get("constexpr"):
                    th, el = n.get("then"), n.get("else")
                    if th is not None and th.get("k") == "Null_":
                        return ex(el) if el is not None else True
                    if el is not None and el.get("k") == "Null_":
                        return ex(th)
                    c = n["c"]
                    cv = it.eval_cond(c)
                    if cv is None and c.get("k") == "Ref" and c.get("v") is not None:
                        cv = bool(int(c["v"]))
                    if el is None and cv is True:
                        return ex(th)
                    if el is None and cv is False:
                        return True
                v = it.eval_cond(n["c"])
                if v is True:
                    return ex(n["then"])
                if v is False:
                    return ex(n["else"]) if n.get("else") is not None else True
                # `if(this == &other)` style guards without effect on the arrays: both sides, must agree
                th, el = n.get("then"), n.get("else")
                if not any(is_call(x) and short(x.get("ccls", "")) in fam.classes and not x.get("cconst") for x in walk(n)) and \
                        not any(x.get("k") == "Return" for x in walk(n)):
                    return True
                if th is not None and el is None and all((is_call(x) and x.get("noreturn")) or x.get("k") in ("Block", "Str", "Int", "Ref", "Cast") or not is_call(x)
                                                        for x in walk(th)) and any(is_call(x) and x.get("noreturn") for x in walk(th)):
                    return True          # `if(cond) XABORTM(...)`
                prob("condition %s not decided by clone_mode == %s" % (render(n["c"])[:60], me.mode_name))
                return False
            if k == "Return":
                e = unwrap(n["e"]) if n.get("e") is not None else None
                if e is not None and e.get("k") == "MCall":
                    ex(e)
                elif e is not None and e.get("k") == "Ref" and e.get("dk") == "local":
                    ret_local.append(dict(relof("%s#%s" % (e["n"], e["d"])) or {"elements": "?", "indices": "?"}))
                elif e is not None and e.get("k") in ("Construct", "TempObj") and len(e.get("a") or []) == 1 and unwrap(e["a"][0]).get("k") == "Ref":
                    r0 = unwrap(e["a"][0])
                    ret_local.append(dict(relof("%s#%s" % (r0["n"], r0["d"])) or {"elements": "?", "indices": "?"}))
                snapshot()
                return False
            if k == "Switch":
                val = it.const_of(n["c"])
                if val is None:
                    prob("switch(%s) not decided by clone_mode == %s" % (render(n["c"])[:60], me.mode_name))
                    return False
                body = n.get("body") or {}
                flat, start, default_at = [], None, None
                for s_ in (body.get("s", []) if body.get("k") == "Block" else [body]):
                    inner = s_
                    while inner is not None and inner.get("k") in ("Case", "Default"):
                        if inner.get("k") == "Default":
                            default_at = len(flat)
                        else:
                            cv = it.const_of(inner.get("v") or {})
                            if cv is None:
                                prob("case label %s not a constant" % render(inner.get("v") or {})[:40])
                                return False
                            if cv == val and start is None:
                                start = len(flat)
                        inner = inner.get("s")
                    if inner is not None:
                        flat.append(inner)
                if start is None:
                    start = default_at
                if start is None:
                    return True
                for s_ in flat[start:]:
                    r_ = ex(s_)
                    if r_ == "brk":
                        return True
                    if r_ is False:
                        return False
                return True
            if k == "Assign" and n.get("op") == "=" and unwrap(n["lhs"]).get("k") == "Ref" and unwrap(n["lhs"]).get("dk") == "param" \
                    and unwrap(n["lhs"]).get("n") in it.env:
                v = it.value_of(n["rhs"])
                if v is None:
                    prob("%s is assigned a value the check cannot evaluate at line %s" % (unwrap(n["lhs"])["n"], n.get("l")))
                    return False
                it.env[unwrap(n["lhs"])["n"]] = v          # statements are evaluated in path order: the new value holds from here on
                return True
            if k == "MCall":
                if call_effect(n):
                    return True
                return True
            if is_call(n) and n.get("callee") in ("FEAT::assertion",):
                return True
            if is_call(n) and n.get("noreturn"):
                return False
            if any(is_call(x) and short(x.get("ccls", "")) in fam.classes and not x.get("cconst") for x in walk(n)) or any(vec_member(x) for x in walk(n)):
                prob("statement %s at line %s" % (render(n)[:60], n.get("l")))
            return True

        if ex(fn.body) is True:
            snapshot()
        # join of the exits: every exit must agree, else '?'
        out = None
        for e_ in exits:
            r = e_.get("this")
            if r is None:
                continue
            if out is None:
                out = dict(r)
            else:
                for kd in ("elements", "indices"):
                    if out[kd] != r[kd]:
                        out[kd] = "shared" if "shared" in (out[kd], r[kd]) else "?"
        rl = None
        for r in ret_local:
            if rl is None:
                rl = dict(r)
            else:
                for kd in ("elements", "indices"):
                    if rl[kd] != r.get(kd):
                        rl[kd] = "shared" if "shared" in (rl[kd], r.get(kd)) else "?"
        return out, rl


def cross_clone_rules(ck, fam, seen_fail, rule="C02.clone-cross-type"):
    """every clone overload of every container class (the templated Container::clone, T::clone(const T<DT2,IT2>&, mode),
    T::clone(mode) const) x every clone mode x the instantiations present: arrays documented as freshly allocated must not
    alias the source, whatever the overload delegates to"""
    doc, err = documented_clone_table()
    if doc is None:
        ck.incomplete(rule, err)
        return
    ctab, atab = extracted_tables(fam)
    fns = []
    for f in fam.functions():
        if f.name != "clone" or f.body is None:
            continue
        ptypes = [short(f.type(p_["t"])).replace("const ", "").replace("&", "").strip() for p_ in f.params]
        if len(f.params) == 2 and ptypes[1] == "CloneMode" and fam.is_family_type(f.type(f.params[0]["t"])):
            if short(f.cls) == "Container" and f.full.count("<") == f.cls.count("<"):
                continue          # the same-type worker: decided by the clone-table rule itself
            fns.append((f, "binary"))
        elif len(f.params) == 1 and ptypes[0] == "CloneMode" and f.d.get("const") and short(f.cls) != "Container":
            fns.append((f, "value"))
    combos = set()
    done = set()
    for fn, form in fns:
        cls = short(fn.cls)
        if form == "binary":
            ct, pt = _dt_it(fn.cls, fam), _dt_it(fn.type(fn.params[0]["t"]), fam)
            if ct is None or pt is None:
                ck.incomplete(rule, "template arguments of %s not recognised" % fn.full)
                continue
            same = (ct[0] == pt[0], ct[1] == pt[1])
            if cls == "Container":
                combos.add(same)
            modep = fn.params[1]["n"]
            combo = "%s,%s" % ("sameDT" if same[0] else "diffDT", "sameIT" if same[1] else "diffIT")
            label = "%s::clone<DT2,IT2>" % cls
        else:
            same = (True, True)
            modep = fn.params[0]["n"]
            combo = "value"
            label = "%s::clone(CloneMode)" % cls
        if (label, combo) in done:
            continue          # another instantiation (block size, tier) of the same source-level overload and type relation
        done.add((label, combo))
        for mode, (val, want_i, want_e) in sorted(doc.items(), key=lambda kv: kv[1][0]):
            ev = _CloneEval(fam, ctab, atab, mode)
            saved = dict(_ALIAS)
            try:
                if form == "binary":
                    got, _ = ev.run(fn, {modep: val}, {fn.params[0]["d"]: {"elements": "shared", "indices": "shared"}})
                else:
                    # T clone(mode) const: the source is *this; the result is the returned local
                    _, got = ev.run(fn, {modep: val}, {}, this_rel={"elements": "shared", "indices": "shared"})
            finally:
                _ALIAS.clear()
                _ALIAS.update(saved)
            problems = ev.problems
            if problems or got is None:
                ck.incomplete(rule, "%s with clone_mode == %s: %s" % (fkey(fn), mode, "; ".join(problems[:3]) or "result never defined"))
                continue
            for kind, want in (("indices", want_i), ("elements", want_e)):
                sub = "%s/CloneMode::%s/%s/%s" % (label, mode, combo, kind)
                if want == "shared":
                    ck.ob(rule, sub, True, "documented as shared: no independence required (extracted: %s)" % got[kind], fn.file, fn.line, trivial=True)
                    continue
                if got[kind] not in ("fresh", "shared"):
                    ck.incomplete(rule, "%s with clone_mode == %s: aliasing of the %s arrays not derivable (%s)" % (fkey(fn), mode, kind, got[kind]))
                    continue
                ok = got[kind] == "fresh"
                if not ok:
                    if (rule, sub) in seen_fail:
                        continue
                    seen_fail.add((rule, sub))
                ck.ob(rule, sub, ok,
                      "%s, clone_mode == %s: documented %s arrays %s; composed from what the overload delegates to (assign: %s; same-type clone; move; convert): the result's %s arrays are %s%s" % (
                          fn.full, mode, kind, want, atab.get(same) if form == "binary" else "-", kind, got[kind],
                          "" if ok else " with the source -> the clone is not value-independent"),
                      fn.file, fn.line, sample={"function": fn.full, "mode": mode, "array": kind, "documented": want, "composed": got[kind]})
    need = {(True, False), (False, True), (False, False)}
    if not need <= combos:
        ck.incomplete(rule, "instantiations of the templated Container::clone missing for (same DT, same IT) in %s" % sorted(need - combos))
