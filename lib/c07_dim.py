"""E6 for C07: dimension (units-of-measure) inference on the recurrences of a solver's _apply_intern.

Every vector object and scalar gets a dimension = linear form over the generators X (solution space) and
B (right-hand-side space) plus unknowns.  [A] = B - X.  Typing of the LAFEM / solver API is by callee name
and callee *parameter names*.  One equation system per function: every block entry has one unknown per
tracked key, every CFG edge equates the out-state of its source with the in-state of its target, so no
fixpoint iteration is needed.  A system that forces a non-zero form over {X, B} to vanish is inconsistent:
some statement combines quantities of different physical dimension (wrong operand in an update, quotient of
the wrong inner products, ...).  Any correct algorithm is consistent, so refactorings cannot fire.
"""
from fractions import Fraction

from featlib import render, walk, is_call

GEN = ("X", "B")


class Conflict(Exception):
    pass


class Unmodelled(Exception):
    pass


def f_add(a, b, sb=1):
    out = dict(a)
    for k, v in b.items():
        nv = out.get(k, 0) + sb * v
        if nv == 0:
            out.pop(k, None)
        else:
            out[k] = nv
    return out


def f_scale(a, s):
    return {k: v * s for k, v in a.items()} if s != 0 else {}


def f_str(a):
    if not a:
        return "1"
    parts = []
    for k in sorted(a):
        v = a[k]
        parts.append(k if v == 1 else "%s^%s" % (k, v))
    return " ".join(parts)


A_DIM = {"B": Fraction(1), "X": Fraction(-1)}


class System:
    def __init__(self):
        self.sub = {}
        self.n = 0
        self.conflicts = []

    def fresh(self, hint=""):
        self.n += 1
        return {"?%d%s" % (self.n, hint): Fraction(1)}

    def norm(self, f):
        out = {}
        for k, v in f.items():
            if k in self.sub:
                out = f_add(out, f_scale(self.norm(self.sub[k]), v))
            else:
                out = f_add(out, {k: v})
        return out

    def unify(self, f, g, why):
        h = self.norm(f_add(f, g, -1))
        if not h:
            return True
        unk = [k for k in h if k not in GEN]
        if not unk:
            self.conflicts.append((why, h))
            return False
        k = sorted(unk)[0]
        c = h[k]
        rest = {kk: -vv / c for kk, vv in h.items() if kk != k}
        self.sub[k] = rest
        return True


def _strip_targs(s):
    out, depth = [], 0
    for ch in s:
        if ch == "<":
            depth += 1
        elif ch == ">":
            depth -= 1
        elif depth == 0:
            out.append(ch)
    return "".join(out)


class DimFlow:
    """dimension inference for one function.  `helpers` supplies strip/objkey/Locals/cname from checks/c07.py"""

    VEC_T = ("Vector",)

    def __init__(self, fn, lo, helpers, assume=None, skip=()):
        self.fn = fn
        self.lo = lo
        self.h = helpers
        self.assume = assume or {}        # render(cond leaf text contains key) -> bool : CFG specialisation
        self.sys = System()
        self.const = {}                   # per-function constants (fields, preconditioner scalings)
        self.unmodelled = []
        self.stmt_conflicts = []
        self.cur_stmt = None
        self.skip = set(skip)
        self.evaluated = []
        self.depth = 0
        self.returns = None

    # ---- classification
    def is_vec(self, e):
        t = _strip_targs(self.fn.ntype(e) or "")
        return "Vector" in t and "std::vector" not in t

    def konst(self, name):
        if name not in self.const:
            self.const[name] = self.sys.fresh(":" + name)
        return self.const[name]

    def unify(self, f, g, what):
        before = len(self.sys.conflicts)
        self.sys.unify(f, g, what)
        if len(self.sys.conflicts) > before:
            why, h = self.sys.conflicts[-1]
            self.stmt_conflicts.append((self.cur_stmt, what, h))

    # ---- expression dimensions (scalars and vector reads)
    def key_of(self, e):
        return self.h["objkey"](self.lo, e)

    def dim(self, e, st):
        h = self.h
        e0 = e
        e = h["strip"](e)
        k = e.get("k")
        if k in ("Int", "Float"):
            try:
                if float(e.get("text") or e.get("v")) == 0.0:
                    return self.sys.fresh(":0")
            except (TypeError, ValueError):
                pass
            return {}
        if k == "Bool":
            return {}
        if k == "Ref":
            if e.get("dk") == "local":
                v = self.lo.var.get(e.get("d"))
                if v is not None and v.get("ref"):
                    return self.read_obj(self.key_of(e), st)
                key = "l:%s" % e["d"]
                return self.read_obj(key, st)
            if e.get("dk") == "param":
                return self.read_obj(self.key_of(e), st)
            if e.get("dk") == "enum":
                return {}
            raise Unmodelled("reference %s" % render(e))
        if k == "Member" and e.get("field"):
            return self.read_obj(self.key_of(e), st)
        if k == "Un":
            if e["op"] in ("-", "+"):
                return self.dim(e["e"], st)
            if e["op"] == "!":
                self.dim(e["e"], st)
                return {}
            if e["op"] in ("++", "--"):
                return self.dim(e["e"], st)
            raise Unmodelled("unary %s" % e["op"])
        if k == "Bin":
            op = e["op"]
            a, b = self.dim(e["lhs"], st), self.dim(e["rhs"], st)
            if op == "*":
                return f_add(a, b)
            if op == "/":
                return f_add(a, b, -1)
            if op in ("+", "-"):
                self.unify(a, b, "operands of `%s` in %s" % (op, render(e)[:70]))
                return a
            if op in ("<", "<=", ">", ">=", "==", "!="):
                ta = self.fn.ntype(h["strip"](e["lhs"])) or ""
                if "Status" not in ta and "Variant" not in ta:
                    self.unify(a, b, "operands of comparison %s" % render(e)[:70])
                return {}
            if op in ("&&", "||"):
                return {}
            raise Unmodelled("binary %s" % op)
        if k == "Cond":
            self.dim(e["c"], st)
            a, b = self.dim(e["then"], st), self.dim(e["else"], st)
            self.unify(a, b, "branches of ?: in %s" % render(e)[:60])
            return a
        if k == "Assign":
            return self.assign(e, st)
        if is_call(e):
            return self.call(e, st)
        if k == "This":
            return {}
        raise Unmodelled("expression %s" % render(e0)[:60])

    def key_name(self, key):
        if key.startswith("l:"):
            try:
                return "local '%s'" % self.lo.var[int(key[2:])]["n"]
            except (KeyError, ValueError):
                return key
        return key

    def read_obj(self, key, st):
        return st[self.summary(key)]

    @staticmethod
    def summary(key):
        """elements of a std::vector of vectors are one summary object"""
        i = key.find("[")
        return key[:i] + "[*]" if i >= 0 else key

    def assign(self, n, st):
        h = self.h
        lhs = h["strip"](n["lhs"])
        op = n.get("op")
        r = self.dim(n["rhs"], st)
        if lhs.get("k") == "Ref" and lhs.get("dk") == "local" and not (self.lo.var.get(lhs["d"]) or {}).get("ref"):
            key = "l:%s" % lhs["d"]
        else:
            key = self.key_of(lhs)
        t = self.fn.ntype(lhs) or ""
        if "Status" in t or "bool" == t.strip():
            return {}
        if op == "=":
            if "[" in key:
                self.unify(st[self.summary(key)], r, "assignment to element of %s" % key)
            else:
                st[key] = r
            return r
        key = self.summary(key)
        cur = self.read_obj(key, st)
        if op in ("+=", "-="):
            self.unify(cur, r, "`%s` in %s" % (op, render(n)[:70]))
            return cur
        if op == "*=":
            st[key] = f_add(cur, r)
            return st[key]
        if op == "/=":
            st[key] = f_add(cur, r, -1)
            return st[key]
        raise Unmodelled("assignment operator %s" % op)

    # ---- calls
    def call(self, c, st):
        h = self.h
        nm = h["cname"](c)
        args = c.get("a", [])
        pn = c.get("pn", [])
        obj = c.get("obj")
        role = dict(zip(pn, args))
        callee = c.get("callee", "")
        if c.get("k") == "Call" and (callee.startswith("FEAT::Math::") or callee.startswith("std::")):
            if nm in ("sqrt",):
                return f_scale(self.dim(args[0], st), Fraction(1, 2))
            if nm in ("sqr",):
                return f_scale(self.dim(args[0], st), 2)
            if nm in ("abs", "move", "forward"):
                return self.dim(args[0], st)
            if nm in ("isfinite", "isnan"):
                self.dim(args[0], st)
                return {}
            if nm in ("min", "max"):
                a, b = self.dim(args[0], st), self.dim(args[1], st)
                self.unify(a, b, "arguments of %s" % nm)
                return a
            if nm in ("eps", "huge"):
                return self.sys.fresh(":" + nm)
            if nm in ("make_shared", "shared_ptr"):
                return {}
            raise Unmodelled("call %s" % callee)
        if callee.startswith("FEAT::Statistics::") or nm in ("destroy", "name", "get_num_iter", "_plot_iter", "_plot_iter_line", "IterationStats", "stringify", "_print_line",
                                                                "ExpressionStartSolve", "ExpressionEndSolve", "plot_summary", "_progress"):
            return {}
        if c.get("k") in ("Construct", "TempObj"):
            cls = c.get("ccls", "") or callee
            if "IterationStats" in cls or "shared_ptr" in cls or "String" in cls or "Expression" in cls:
                return {}
            if len(args) == 1:
                return self.dim(args[0], st)
            raise Unmodelled("construction %s" % render(c)[:60])
        if c.get("k") == "OpCall":
            raise Unmodelled("operator call %s" % render(c)[:60])
        # --- solver protocol
        if nm == "_set_initial_defect" or nm == "_set_new_defect":
            self.unify(self.dim(role["vec_def"], st), {"B": Fraction(1)}, "%s: the defect vector %s lies in the right-hand-side space" % (nm, render(role["vec_def"])))
            self.unify(self.dim(role["vec_sol"], st), {"X": Fraction(1)}, "%s: the iterate %s lies in the solution space" % (nm, render(role["vec_sol"])))
            return {}
        if nm == "_update_defect":
            self.unify(self.dim(args[0], st), {"B": Fraction(1)}, "_update_defect(%s): a defect norm has the dimension of the right-hand side" % render(args[0])[:40])
            return {}
        if nm in ("is_converged", "is_diverged") and len(args) == 1:
            self.unify(self.dim(args[0], st), {"B": Fraction(1)}, "%s(%s): a defect norm has the dimension of the right-hand side" % (nm, render(args[0])[:40]))
            return {}
        if nm.startswith("_apply_precond") or nm in ("_precond_l", "_precond_r"):
            # generalised inverse of the system operator (own scaling for the split preconditioners of the normal-equation solvers)
            zc, zd = args[0], args[1]
            if nm == "_apply_precond":
                m = A_DIM
            else:
                m = self.konst("M" + nm[-2:])
            d = self.dim(zd, st)
            self.define(zc, f_add(d, m, -1), st)
            return {}
        # --- vector methods
        if obj is not None and c.get("k") == "MCall":
            o = h["strip"](obj)
            if nm in ("wait",):
                return self.dim(o, st)
            key = self.key_of(o)
            if nm == "apply" and key in ("this._system_matrix", "this._transp_matrix"):
                if set(pn) == {"r", "x"}:
                    self.define(role["r"], f_add(self.dim(role["x"], st), A_DIM), st)
                    return {}
                if set(pn) == {"r", "x", "y", "alpha"}:
                    y = self.dim(role["y"], st)
                    self.unify(y, f_add(f_add(self.dim(role["x"], st), A_DIM), self.dim(role["alpha"], st)),
                               "%s: r = y + alpha*A*x needs [y] = [alpha][A][x]" % render(c)[:70])
                    self.define(role["r"], y, st)
                    return {}
                raise Unmodelled("matrix apply with parameters %s" % pn)
            if nm in ("filter_def", "filter_cor", "filter_sol", "filter_rhs") and key == "this._system_filter":
                self.dim(args[0], st)
                return {}
            if nm in ("at", "front", "back") and "std::vector" in (self.fn.ntype(o) or ""):
                return self.read_obj(self.key_of(c), st)
            if self.is_vec(o) or nm in ("dot", "norm2", "axpy", "scale", "copy", "format", "dot_async", "norm2_async", "norm2sqr", "clone", "clear"):
                if nm in ("dot", "dot_async", "triple_dot"):
                    d = self.dim(o, st)
                    for a in args:
                        d = f_add(d, self.dim(a, st))
                    return d
                if nm in ("norm2", "norm2_async", "max_abs_element", "min_abs_element"):
                    return self.dim(o, st)
                if nm == "norm2sqr":
                    return f_scale(self.dim(o, st), 2)
                if nm == "copy":
                    self.define(o, self.dim(args[0], st), st)
                    return {}
                if nm == "clone":
                    return self.dim(o, st)
                if nm in ("format", "clear"):
                    self.define(o, self.sys.fresh(":fmt"), st)
                    return {}
                if nm == "scale":
                    self.define(o, f_add(self.dim(role["x"], st), self.dim(role["alpha"], st)), st)
                    return {}
                if nm == "axpy":
                    a = self.dim(role["alpha"], st) if "alpha" in role else {}
                    self.unify(self.dim(o, st), f_add(self.dim(role["x"], st), a),
                               "%s: r += alpha*x needs [r] = [alpha][x]" % render(c)[:70])
                    return {}
                if nm == "component_product":
                    self.define(o, f_add(self.dim(role["x"], st), self.dim(role["y"], st)), st)
                    return {}
                raise Unmodelled("vector method %s" % nm)
            if nm in ("at", "front", "back"):
                return self.read_obj(self.key_of(c), st)
            if nm in ("size",):
                return {}
            if nm in ("resize", "reserve"):
                return {}
            if nm == "push_back":
                self.unify(st[self.key_of(o) + "[*]"], self.dim(args[0], st), "push_back into %s" % self.key_of(o))
                return {}
        # --- a private helper of the same class: analyse its body with the caller's state bound to its entry
        methods = self.h.get("methods") or {}
        if c.get("k") == "MCall" and (obj is None or obj.get("k") == "This") and nm in methods and self.depth < 2:
            return self.inline(c, methods[nm], st)
        raise Unmodelled("call %s" % render(c)[:70])

    def inline(self, c, callee, st):
        sub = DimFlow(callee, self.h["Locals"](callee), self.h, assume=self.assume, skip=self.skip)
        sub.sys = self.sys
        sub.depth = self.depth + 1
        sub.stmt_conflicts = self.stmt_conflicts
        sub.unmodelled = self.unmodelled
        sub.evaluated = self.evaluated
        sub.returns = []
        sub.run()
        cfg = callee.cfg
        args = c.get("a", [])
        trans = {}
        for i, prm in enumerate(callee.params):
            if i >= len(args):
                continue
            ty = callee.type(prm["t"]) or ""
            if "&" in ty and "Vector" in _strip_targs(ty):
                trans["$%d" % i] = ("obj", self.key_of(args[i]))
            else:
                trans["$%d" % i] = ("val", self.dim(args[i], st))
        # entry unknowns of the callee = the caller's current values
        self.cur_stmt = c
        for key, var in list(sub.ins[cfg.entry].entry.items()):
            if key.startswith("l:"):
                continue
            if key in trans:
                kind, v = trans[key]
                self.unify(var, st[self.summary(v)] if kind == "obj" else v, "argument %s of %s" % (key, callee.name))
            elif key.startswith("$"):
                continue
            else:
                self.unify(var, st[key], "value of %s on entry of %s" % (key, callee.name))
        # exit state of the callee flows back
        exits = [b for b in cfg.normal_exit_preds() if b in sub.ins]
        written = {}
        for b in exits:
            for key in dict.keys(sub.ins[b]):
                if key.startswith("l:") or (key in trans and trans[key][0] == "val"):
                    continue
                written.setdefault(key, []).append(sub.ins[b][key])
        for key, vals in written.items():
            tgt = trans[key][1] if key in trans else key
            if key.startswith("$") and key not in trans:
                continue
            v = vals[0]
            for w in vals[1:]:
                self.unify(v, w, "value of %s at the exits of %s" % (key, callee.name))
            if len(vals) < len(exits):
                # not touched on some exit path: there the entry value survives
                self.unify(v, st[self.summary(tgt)], "value of %s around %s" % (key, callee.name))
            if "[" in tgt:
                self.unify(st[self.summary(tgt)], v, "element of container %s" % tgt)
            else:
                st[tgt] = v
        r = None
        for rv in sub.returns:
            if r is None:
                r = rv
            else:
                self.unify(r, rv, "values returned by %s" % callee.name)
        return r if r is not None else {}

    def define(self, target, f, st):
        t = self.h["strip"](target)
        if t.get("k") == "Ref" and t.get("dk") == "local" and not (self.lo.var.get(t["d"]) or {}).get("ref"):
            st["l:%s" % t["d"]] = f
            return
        key = self.key_of(t)
        if "[" in key:
            self.unify(st[self.summary(key)], f, "element of container %s (all elements share one dimension)" % key)
        else:
            st[key] = f

    # ---- driver
    def edge_allowed(self, blk, pos):
        if not self.assume or blk.get("cond") is None or len(blk.get("succ", [])) != 2:
            return True
        c = self.fn.by_id(blk["cond"])
        if c is None:
            return True
        txt = render(c)
        for key, val in self.assume.items():
            if key in txt:
                truth = val
                cc = self.h["strip"](c)
                if cc.get("k") == "Un" and cc.get("op") == "!":
                    truth = not truth
                elif cc.get("k") == "Bin" and cc.get("op") == "!=":
                    truth = not truth
                elif not (cc.get("k") == "Bin" and cc.get("op") == "=="):
                    return True
                return (pos == 0) == truth
        return True

    def run(self):
        fn, cfg = self.fn, self.fn.cfg
        ins = {}
        # reachable blocks under the assumption
        reach, stck = set(), [cfg.entry]
        while stck:
            b = stck.pop()
            if b in reach:
                continue
            reach.add(b)
            blk = cfg.blocks[b]
            for pos, s in enumerate(blk.get("succ", [])):
                if s is not None and self.edge_allowed(blk, pos):
                    stck.append(s)
        order = sorted(reach, reverse=True)      # clang numbers blocks in reverse: entry has the highest id
        self.ins = ins
        for b in order:
            blk = cfg.blocks[b]
            st = _Lazy(self, b)
            ins[b] = st
            els = [fn.by_id(sid) for sid in blk["el"]]
            els = [n for n in els if n is not None]
            ids = {n["i"] for n in els}
            nested = set()
            for n in els:
                for x in walk(n):
                    if x is not n and x.get("i") in ids:
                        nested.add(x["i"])
            for n in els:
                if n["i"] in nested:
                    continue
                if n["i"] in self.skip:
                    continue
                self.evaluated.append(n)
                self.cur_stmt = n
                try:
                    self.stmt(n, st)
                except Unmodelled as u:
                    self.unmodelled.append("line %s: %s" % (n.get("l"), u))
                except KeyError as u:
                    self.unmodelled.append("line %s: missing role %s in %s" % (n.get("l"), u, render(n)[:50]))
            if blk.get("cond") is not None and len(blk.get("succ", [])) == 2:
                c = fn.by_id(blk["cond"])
                if c is not None and not any(x.get("i") in ids for x in walk(c)):
                    self.cur_stmt = c
                    try:
                        self.dim(c, st)
                    except Unmodelled as u:
                        self.unmodelled.append("line %s: condition: %s" % (c.get("l"), u))
        # edge equations; pass-through keys materialise entry unknowns in the source block, so iterate
        done = set()
        changed = True
        while changed:
            changed = False
            for b in order:
                blk = cfg.blocks[b]
                for pos, s in enumerate(blk.get("succ", [])):
                    if s is None or s not in reach or not self.edge_allowed(blk, pos):
                        continue
                    tgt = ins[s]
                    for key, f in list(tgt.entry.items()):
                        if (b, s, key) in done:
                            continue
                        done.add((b, s, key))
                        changed = True
                        src = ins[b][key]
                        els = cfg.blocks[s]["el"]
                        self.cur_stmt = fn.by_id(els[0]) if els else None
                        self.unify(src, f, "value of %s flowing from block %d into block %d" % (self.key_name(key), b, s))
        return self

    def stmt(self, n, st):
        k = n.get("k")
        if k == "Decl":
            for v in n.get("vars", []):
                if v.get("ref"):
                    continue
                t = self.fn.type(v.get("t")) or ""
                if "Status" in t or "IterationStats" in t or "String" in t:
                    continue
                if v.get("init") is not None:
                    st["l:%s" % v["d"]] = self.dim(v["init"], st)
                else:
                    st["l:%s" % v["d"]] = self.sys.fresh(":" + v["n"])
        elif k in ("Assign", "MCall", "Call", "Construct", "TempObj", "OpCall", "Un"):
            self.dim(n, st)
        elif k == "Return" and self.returns is not None and n.get("e") is not None:
            t = self.fn.ntype(self.h["strip"](n["e"])) or ""
            if "Status" not in t and "bool" not in t:
                self.returns.append(self.dim(n["e"], st))
            else:
                self.dim(n["e"], st)


class _Lazy(dict):
    """block state: keys are materialised on first read as block-entry unknowns (phi variables)"""

    def __init__(self, df, b):
        super().__init__()
        self.df = df
        self.b = b
        self.entry = {}

    def __contains__(self, key):
        return True

    def __getitem__(self, key):
        if not dict.__contains__(self, key):
            v = self.df.sys.fresh(":b%d" % self.b)
            self.entry[key] = v
            dict.__setitem__(self, key, v)
        return dict.__getitem__(self, key)

    def get_or_entry(self, key):
        return self[key]
