"""E6 for C07: dimension (units-of-measure) inference on the recurrences of a solver's _apply_intern.

Every vector object and scalar gets a dimension = linear form over the generators X (solution space) and
B (right-hand-side space) plus unknowns.  [A] = B - X.  Typing of the LAFEM / solver API is by callee name
and callee *parameter names*.  One equation system per function: every block entry has one unknown per
tracked key, every CFG edge equates the out-state of its source with the in-state of its target, so no
fixpoint iteration is needed.  A system that forces a non-zero form over {X, B} to vanish is inconsistent:
some statement combines quantities of different physical dimension (wrong operand in an update, quotient of
the wrong inner products, ...).  Any correct algorithm is consistent, so refactorings cannot fire.

Configuration sensitivity: a test that only involves configuration fields of *this (never written by the function
or the own helpers it calls), enumerators and literals is a *configuration atom* (canonical text of checks/c07.py
`formula`, e.g. eq(_precon_variant,left)).  The analysis runs under an assumption {atom: truth}; every use of such
a test - if / ?: / && / || / switch terminators of the CFG, conditional expressions selecting an operand, const bool
locals holding the test (copy propagation), bool parameters of inlined helpers, parameterless const predicates of
the own class - is decided from the assumption, so one run sees exactly one configuration.  Atoms met without an
assumption are collected in `free_atoms` (the caller enumerates them).  Tests that may depend on the configuration
but cannot be decided (re-assigned bool locals, unknown own predicates) are collected in `opaque`: with those a
conflict may stem from merging two configurations and must not be reported as a violation.
"""
import re
from fractions import Fraction

from featlib import render, walk, is_call

GEN = ("X", "B")


class Conflict(Exception):
    pass


class Unmodelled(Exception):
    pass


def f_add(a, b, sb=1):
    out = dict(a)
    for k, v in b.items():
        nv = out.get(k, 0) + sb * v
        if nv == 0:
            out.pop(k, None)
        else:
            out[k] = nv
    return out


def f_scale(a, s):
    return {k: v * s for k, v in a.items()} if s != 0 else {}


def f_str(a):
    if not a:
        return "1"
    parts = []
    for k in sorted(a):
        v = a[k]
        parts.append(k if v == 1 else "%s^%s" % (k, v))
    return " ".join(parts)


A_DIM = {"B": Fraction(1), "X": Fraction(-1)}


class System:
    def __init__(self):
        self.sub = {}
        self.n = 0
        self.conflicts = []

    def fresh(self, hint=""):
        self.n += 1
        return {"?%d%s" % (self.n, hint): Fraction(1)}

    def norm(self, f):
        out = {}
        for k, v in f.items():
            if k in self.sub:
                out = f_add(out, f_scale(self.norm(self.sub[k]), v))
            else:
                out = f_add(out, {k: v})
        return out

    def unify(self, f, g, why):
        h = self.norm(f_add(f, g, -1))
        if not h:
            return True
        unk = [k for k in h if k not in GEN]
        if not unk:
            self.conflicts.append((why, h))
            return False
        k = sorted(unk)[0]
        c = h[k]
        rest = {kk: -vv / c for kk, vv in h.items() if kk != k}
        self.sub[k] = rest
        return True


DATA_PREDICATES = ("is_converged", "is_diverged", "isfinite", "isnan", "status_success", "_plot_iter", "_progress", "empty", "get_plot", "_plot_summary")


class CfgLocals:
    """Locals view that also resolves `c ? a : b` to the selected operand when c is decided by the assumption"""

    def __init__(self, base, df):
        self.base, self.df = base, df
        self.fn, self.var, self.writes = base.fn, base.var, base.writes

    def resolve(self, e, depth=0):
        for _ in range(20):
            e = self.base.resolve(e)
            if isinstance(e, dict) and e.get("k") == "Cond":
                t = self.df.cfg_truth(e["c"])
                if t is None:
                    break
                e = e["then"] if t else e["else"]
            else:
                break
        return e


def consistent_assume(assume, enums=None):
    """is the assumed configuration possible?  True / False / None (an enum field equal to none of the tested enumerators,
    and the enumerator list of its type is not known).  enums: {field: set of all enumerator names of its type or None}"""
    byfield = {}
    for a, v in assume.items():
        m = re.match(r"^eq\(([^(),]+),([^(),]+)\)$", a)
        if not m:
            continue
        x, y = m.group(1), m.group(2)
        if y.startswith("_") and not x.startswith("_"):
            x, y = y, x
        if not x.startswith("_") or y.startswith("_"):
            continue
        byfield.setdefault(x, {})[y] = v
    res = True
    for f, vals in byfield.items():
        pos = [y for y, v in vals.items() if v]
        if len(pos) > 1:
            return False
        if f in (enums or {}) and not pos:
            allv = enums[f]
            if allv is None:
                res = None
            elif not (set(allv) - set(vals)):
                return False
    return res


def _strip_targs(s):
    out, depth = [], 0
    for ch in s:
        if ch == "<":
            depth += 1
        elif ch == ">":
            depth -= 1
        elif depth == 0:
            out.append(ch)
    return "".join(out)


class DimFlow:
    """dimension inference for one function.  `helpers` supplies strip/objkey/Locals/cname from checks/c07.py"""

    VEC_T = ("Vector",)

    def __init__(self, fn, lo, helpers, assume=None, skip=()):
        self.fn = fn
        self.base_lo = lo.base if isinstance(lo, CfgLocals) else lo
        self.lo = CfgLocals(self.base_lo, self)
        self.h = helpers
        self.assume = assume or {}        # configuration atom (canonical text) -> truth : one configuration per run
        self.free_atoms = set()           # configuration atoms met without an assumption
        self.opaque = []                  # tests that may depend on the configuration but could not be decided
        self.ptruth = {}                  # decl id of a bool parameter -> truth bound at the inlining call site
        self._truth_cache = {}
        self.enum_fields = {}             # configuration field compared with enumerators -> its enum type
        self.flags = set()                # decl ids of re-assigned bool locals
        self.cur_flags = {}               # their known values at the point under evaluation
        self.flag_in, self.flag_out = {}, {}
        self.sys = System()
        self.const = {}                   # per-function constants (fields, preconditioner scalings)
        self.unmodelled = []
        self.stmt_conflicts = []
        self.cur_stmt = None
        self.skip = set(skip)
        self.evaluated = []
        self.evaluated_in = []            # parallel to evaluated: full name of the function the statement belongs to (skip = {(full name, node id)})
        self.depth = 0
        self.returns = None

    # ---- classification
    def is_vec(self, e):
        t = _strip_targs(self.fn.ntype(e) or "")
        return "Vector" in t and "std::vector" not in t

    def konst(self, name):
        if name not in self.const:
            self.const[name] = self.sys.fresh(":" + name)
        return self.const[name]

    def unify(self, f, g, what):
        before = len(self.sys.conflicts)
        self.sys.unify(f, g, what)
        if len(self.sys.conflicts) > before:
            why, h = self.sys.conflicts[-1]
            self.stmt_conflicts.append((self.cur_stmt, what, h))

    # ---- configuration tests
    def written_fields(self):
        """names of the fields of *this assigned / incremented by this function or an own helper it may inline"""
        w = self.h.get("_written")
        if w is None:
            w = set(self.h.get("written_extra") or ())
            methods = self.h.get("methods") or {}
            root = self.h.get("root_fn") or self.fn
            fns, todo = [], [root]
            while todo:                      # the analysed function and the own helpers it (transitively) calls
                f = todo.pop()
                if any(f is g for g in fns):
                    continue
                fns.append(f)
                for c in f.calls():
                    if c.get("k") == "MCall" and (c.get("obj") is None or c["obj"].get("k") == "This") and self.h["cname"](c) in methods:
                        todo.append(methods[self.h["cname"](c)])
            for f in fns:
                for n in f.nodes():
                    t = None
                    if n.get("k") == "Assign":
                        t = self.h["strip"](n["lhs"])
                    elif n.get("k") == "Un" and n.get("op") in ("++", "--"):
                        t = self.h["strip"](n["e"])
                    elif n.get("k") == "OpCall" and n.get("op") == "=" and n.get("a"):
                        t = self.h["strip"](n["a"][0])
                    if isinstance(t, dict) and t.get("k") == "Member" and t.get("field"):
                        w.add(t["n"])
            self.h["_written"] = w
        return w

    def is_cfg_term(self, e):
        e = self.base_lo.resolve(e)
        k = e.get("k")
        if k in ("Int", "Float", "Bool", "Char"):
            return True
        if k == "Ref" and e.get("dk") == "enum":
            return True
        if k == "Member" and e.get("field") and (e.get("b") is None or e["b"].get("k") == "This"):
            t = _strip_targs(self.fn.ntype(e) or "")
            if any(x in t for x in ("Vector", "Matrix", "Filter", "shared_ptr", "std::", "*")):
                return False
            return e["n"] not in self.written_fields()
        if k == "Un" and e.get("op") in ("-", "+"):
            return self.is_cfg_term(e["e"])
        return False

    def ptr_presence(self, e):
        """`p.operator bool()` / `p != nullptr` / `p == nullptr` / `p.get() != nullptr` for a pointer-like field p of *this that is not
        written by the analysed functions -> (field name, polarity of 'is set'), else None"""
        def field(x):
            x = self.base_lo.resolve(x)
            if x.get("k") == "MCall" and self.h["cname"](x) == "get" and x.get("obj") is not None:
                x = self.base_lo.resolve(x["obj"])
            if x.get("k") == "Member" and x.get("field") and (x.get("b") is None or x["b"].get("k") == "This"):
                t = self.fn.ntype(x) or ""
                if ("shared_ptr" in t or "unique_ptr" in t or t.strip().endswith("*")) and x["n"] not in self.written_fields():
                    return x["n"]
            return None
        k = e.get("k")
        if k == "Member" and field(e):
            return (field(e), True)          # the pointer itself in a bool context (static_cast<bool>(p), bool(p))
        if k in ("MCall", "OpCall", "Call") and (e.get("n") == "operator bool" or self.h["cname"](e) == "operator bool") and e.get("obj") is not None:
            f = field(e["obj"])
            return (f, True) if f else None
        if k in ("Bin", "OpCall") and e.get("op") in ("==", "!="):
            ops = [e.get("lhs"), e.get("rhs")] if k == "Bin" else list(e.get("a", []))
            if len(ops) == 2 and all(isinstance(o, dict) for o in ops):
                for x, y in ((ops[0], ops[1]), (ops[1], ops[0])):
                    if self.base_lo.resolve(y).get("k") == "Null":
                        f = field(x)
                        if f:
                            return (f, e["op"] == "!=")
        return None

    def cfg_truth(self, e):
        """truth of a test under the assumption: True / False / None (not a decided configuration test)"""
        return self._cfg_truth(e, 0)

    def _cfg_truth(self, e, depth):
        if depth > 12 or not isinstance(e, dict):
            return None
        e = self.base_lo.resolve(e)
        k = e.get("k")
        if k == "Bool":
            return bool(e["v"])
        if k == "Ref" and e.get("dk") == "param" and e.get("d") in self.ptruth:
            return self.ptruth[e["d"]]
        if k == "Ref" and e.get("dk") == "local" and e.get("d") in self.flags:
            return self.cur_flags.get(e["d"])          # re-assigned bool local: constant propagation along the assumed configuration
        if k == "Un" and e.get("op") == "!":
            t = self._cfg_truth(e["e"], depth + 1)
            return None if t is None else not t
        if k == "Bin" and e.get("op") in ("&&", "||"):
            a, b = self._cfg_truth(e["lhs"], depth + 1), self._cfg_truth(e["rhs"], depth + 1)
            if e["op"] == "&&":
                return False if (a is False or b is False) else (True if (a and b) else None)
            return True if (a or b) else (False if (a is False and b is False) else None)
        if k == "Cond":
            c = self._cfg_truth(e["c"], depth + 1)
            if c is None:
                a, b = self._cfg_truth(e["then"], depth + 1), self._cfg_truth(e["else"], depth + 1)
                return a if a == b else None
            return self._cfg_truth(e["then"] if c else e["else"], depth + 1)
        atom = None
        # presence of an object held by a smart pointer member that the solver never re-seats while iterating (`if(_precond)`,
        # `_precond != nullptr`): a configuration atom set(<field>)
        ptr = self.ptr_presence(e)
        if ptr is not None:
            name, pos = ptr
            a = "set(%s)" % name
            if a in self.assume:
                return self.assume[a] == pos
            self.free_atoms.add(a)
            return None
        if k == "Bin" and e.get("op") in ("==", "!=", "<", "<=", ">", ">=") and self.is_cfg_term(e["lhs"]) and self.is_cfg_term(e["rhs"]):
            atom = self.h["formula"](self.base_lo, e)
            l, r = self.base_lo.resolve(e["lhs"]), self.base_lo.resolve(e["rhs"])
            for x, y in ((l, r), (r, l)):
                if x.get("k") == "Member" and y.get("k") == "Ref" and y.get("dk") == "enum":
                    self.enum_fields[x["n"]] = (self.fn.ntype(x) or "").replace("const ", "").strip()
        elif k == "Member" and self.is_cfg_term(e) and (self.fn.ntype(e) or "").replace("const ", "").strip() == "bool":
            atom = self.h["formula"](self.base_lo, e)
        elif k == "MCall" and (e.get("obj") is None or e["obj"].get("k") == "This") and not e.get("a") and e.get("cconst"):
            # a parameterless const predicate of the own class: `bool _left() const { return <configuration test>; }`
            callee = (self.h.get("methods") or {}).get(self.h["cname"](e))
            if callee is not None and callee is not self.fn and self.h.get("Paths") is not None and callee.cfg is not None:
                ps = self.h["Paths"](callee, bool_result=True)
                if ps.problems or not ps.paths:
                    return None
                vals = set()
                for pth in ps.paths:
                    feas = True
                    for f, pol in pth["cons"]:
                        t = self.f_truth(f)
                        if t is None:
                            return None
                        if t != pol:
                            feas = False
                            break
                    if feas:
                        vals.add(self.f_truth(pth["out"]) if pth["out"] is not None else None)
                return vals.pop() if len(vals) == 1 else None
            return None
        if atom is None:
            return None
        neg = False
        while atom[0] == "not":
            atom, neg = atom[1], not neg
        if atom[0] == "const":
            return atom[1] != neg
        if atom[0] != "atom":
            return None
        if atom[1] in self.assume:
            return self.assume[atom[1]] != neg
        self.free_atoms.add(atom[1])
        return None

    def f_truth(self, f):
        """three-valued truth of a formula tree of checks/c07.py under the assumption; atoms are classified by their text"""
        if f[0] == "const":
            return f[1]
        if f[0] == "not":
            t = self.f_truth(f[1])
            return None if t is None else not t
        if f[0] in ("and", "or"):
            a, b = self.f_truth(f[1]), self.f_truth(f[2])
            if f[0] == "and":
                return False if (a is False or b is False) else (True if (a and b) else None)
            return True if (a or b) else (False if (a is False and b is False) else None)
        if f[0] != "atom":
            return None
        a = f[1]
        if a in self.assume:
            return self.assume[a]
        m = re.match(r"^(?:(eq|le)\(([\w.]+),([\w.]+)\)|(_\w+))$", a)
        if m:
            toks = [x for x in (m.group(2), m.group(3), m.group(4)) if x]
            fields = [x for x in toks if x.startswith("_")]
            if fields and all(x not in self.written_fields() for x in fields):
                self.free_atoms.add(a)
        return None

    def note_opaque(self, c):
        """record leaves of an undecided test that may depend on the configuration (not a test of computed data)"""
        strip, cname = self.h["strip"], self.h["cname"]
        todo = [c]
        while todo:
            x = self.base_lo.resolve(todo.pop())
            k = x.get("k")
            if k == "Un" and x.get("op") == "!":
                todo.append(x["e"])
            elif k == "Bin" and x.get("op") in ("&&", "||"):
                todo += [x["lhs"], x["rhs"]]
            elif self.cfg_truth(x) is not None:
                continue
            else:
                ty = (self.fn.ntype(x) or "").replace("const ", "").strip()
                what = None
                if k == "Ref" and x.get("dk") in ("local", "param") and ty == "bool":
                    what = "bool %s '%s' (%s)" % (x["dk"], x.get("n"), "re-assigned" if self.base_lo.writes.get(x.get("d"), 0) else "value not known here")
                elif k == "Member" and x.get("field") and ty == "bool" and not self.is_cfg_term(x):
                    what = "bool member %s that this function also writes" % x.get("n")
                elif k == "MCall" and (x.get("obj") is None or x["obj"].get("k") == "This") and ty == "bool" \
                        and cname(x) not in DATA_PREDICATES and not cname(x).startswith("_apply_precond") and not cname(x).startswith("_precond"):
                    what = "own predicate %s()" % cname(x)
                if what and what not in self.opaque:
                    self.opaque.append(what)

    # ---- expression dimensions (scalars and vector reads)
    def key_of(self, e):
        return self.h["objkey"](self.lo, e)

    def poly_literal(self, e):
        """the literal 0 or Math::eps()/huge(), possibly through casts / single-argument constructions"""
        e = self.base_lo.resolve(e)
        if e.get("k") in ("Int", "Float"):
            try:
                return float(e.get("text") or e.get("v")) == 0.0
            except (TypeError, ValueError):
                return False
        if e.get("k") == "Call" and e.get("callee", "").startswith("FEAT::Math::") and self.h["cname"](e) in ("eps", "huge") and not e.get("a"):
            return True
        return False

    def dim(self, e, st):
        h = self.h
        e0 = e
        e = h["strip"](e)
        k = e.get("k")
        if k in ("Int", "Float"):
            try:
                if float(e.get("text") or e.get("v")) == 0.0:
                    return self.sys.fresh(":0")
            except (TypeError, ValueError):
                pass
            return {}
        if k == "Bool":
            return {}
        if k == "Null":
            return self.sys.fresh(":null")
        if k == "Lambda":
            return {}          # a closure object (its calls are judged where they happen)
        if k == "Ref":
            if e.get("dk") == "local":
                v = self.lo.var.get(e.get("d"))
                if v is not None and v.get("ref"):
                    return self.read_obj(self.key_of(e), st)
                if v is not None and v.get("init") is not None and self.lo.writes.get(e["d"], 0) == 0 and self.poly_literal(v["init"]):
                    return self.sys.fresh(":" + e["n"])       # `const DataType zero(0)`: a named 0 / eps / huge is as polymorphic as the literal
                key = "l:%s" % e["d"]
                return self.read_obj(key, st)
            if e.get("dk") == "param":
                return self.read_obj(self.key_of(e), st)
            if e.get("dk") == "enum":
                return {}
            raise Unmodelled("reference %s" % render(e))
        if k == "Member" and e.get("field"):
            return self.read_obj(self.key_of(e), st)
        if k == "Un":
            if e["op"] in ("-", "+"):
                return self.dim(e["e"], st)
            if e["op"] == "!":
                self.dim(e["e"], st)
                return {}
            if e["op"] in ("++", "--"):
                return self.dim(e["e"], st)
            raise Unmodelled("unary %s" % e["op"])
        if k == "Bin":
            op = e["op"]
            a, b = self.dim(e["lhs"], st), self.dim(e["rhs"], st)
            if op == "*":
                return f_add(a, b)
            if op == "/":
                return f_add(a, b, -1)
            if op in ("+", "-"):
                self.unify(a, b, "operands of `%s` in %s" % (op, render(e)[:70]))
                return a
            if op in ("<", "<=", ">", ">=", "==", "!="):
                ta = self.fn.ntype(h["strip"](e["lhs"])) or ""
                if "Status" not in ta and "Variant" not in ta:
                    self.unify(a, b, "operands of comparison %s" % render(e)[:70])
                return {}
            if op in ("&&", "||"):
                return {}
            raise Unmodelled("binary %s" % op)
        if k == "Cond":
            self.dim(e["c"], st)
            t = self.cfg_truth(e["c"])
            if t is not None:
                return self.dim(e["then"] if t else e["else"], st)      # operand selected by the configuration
            self.note_opaque(e["c"])
            a, b = self.dim(e["then"], st), self.dim(e["else"], st)
            self.unify(a, b, "branches of ?: in %s" % render(e)[:60])
            return a
        if k == "Assign":
            return self.assign(e, st)
        if is_call(e):
            return self.call(e, st)
        if k == "This":
            return {}
        raise Unmodelled("expression %s" % render(e0)[:60])

    def key_name(self, key):
        if key.startswith("l:"):
            try:
                return "local '%s'" % self.lo.var[int(key[2:])]["n"]
            except (KeyError, ValueError):
                return key
        return key

    def read_obj(self, key, st):
        return st[self.summary(key)]

    @staticmethod
    def summary(key):
        """elements of a std::vector of vectors are one summary object"""
        i = key.find("[")
        return key[:i] + "[*]" if i >= 0 else key

    def assign(self, n, st):
        h = self.h
        lhs = h["strip"](n["lhs"])
        op = n.get("op")
        r = self.dim(n["rhs"], st)
        if lhs.get("k") == "Ref" and lhs.get("dk") == "local" and not (self.lo.var.get(lhs["d"]) or {}).get("ref"):
            key = "l:%s" % lhs["d"]
        else:
            key = self.key_of(lhs)
        t = self.fn.ntype(lhs) or ""
        if "Status" in t or "bool" == t.strip():
            return {}
        if op == "=":
            if "[" in key:
                self.unify(st[self.summary(key)], r, "assignment to element of %s" % key)
            else:
                st[key] = r
            return r
        key = self.summary(key)
        cur = self.read_obj(key, st)
        if op in ("+=", "-="):
            self.unify(cur, r, "`%s` in %s" % (op, render(n)[:70]))
            return cur
        if op == "*=":
            st[key] = f_add(cur, r)
            return st[key]
        if op == "/=":
            st[key] = f_add(cur, r, -1)
            return st[key]
        raise Unmodelled("assignment operator %s" % op)

    # ---- calls
    def call(self, c, st):
        h = self.h
        nm = h["cname"](c)
        args = c.get("a", [])
        pn = c.get("pn", [])
        obj = c.get("obj")
        role = dict(zip(pn, args))
        callee = c.get("callee", "")
        if c.get("k") == "Call" and (callee.startswith("FEAT::Math::") or callee.startswith("std::")):
            if nm in ("sqrt",):
                return f_scale(self.dim(args[0], st), Fraction(1, 2))
            if nm in ("sqr",):
                return f_scale(self.dim(args[0], st), 2)
            if nm in ("abs", "move", "forward"):
                return self.dim(args[0], st)
            if nm in ("isfinite", "isnan"):
                self.dim(args[0], st)
                return {}
            if nm in ("min", "max"):
                a, b = self.dim(args[0], st), self.dim(args[1], st)
                self.unify(a, b, "arguments of %s" % nm)
                return a
            if nm in ("eps", "huge"):
                return self.sys.fresh(":" + nm)
            if nm in ("make_shared", "shared_ptr"):
                return {}
            if nm == "swap" and len(args) == 2:
                a, b = self.dim(args[0], st), self.dim(args[1], st)
                self.define(args[0], b, st)
                self.define(args[1], a, st)
                return {}
            raise Unmodelled("call %s" % callee)
        if nm == "get" and obj is not None and any(x in (self.fn.ntype(h["strip"](obj)) or "") for x in ("shared_ptr", "unique_ptr")):
            return self.sys.fresh(":ptr")
        if nm == "operator bool" or (c.get("k") == "OpCall" and c.get("op") in ("==", "!=") and any(isinstance(a, dict) and self.base_lo.resolve(a).get("k") == "Null" for a in args)):
            return {}
        if c.get("k") == "Call" and callee in ("FEAT::assertion", "FEAT::abortion"):
            # XASSERT / ASSERT / XABORTM: the asserted expression is a stated belief; its comparisons relate dimensions like any other
            if args:
                self.dim(args[0], st)
            return {}
        if callee.startswith("FEAT::Statistics::") or nm in ("destroy", "name", "get_num_iter", "_plot_iter", "_plot_iter_line", "IterationStats", "stringify", "_print_line",
                                                                "ExpressionStartSolve", "ExpressionEndSolve", "plot_summary", "_progress"):
            return {}
        if c.get("k") in ("Construct", "TempObj"):
            cls = c.get("ccls", "") or callee
            if "IterationStats" in cls or "shared_ptr" in cls or "String" in cls or "Expression" in cls:
                return {}
            if len(args) == 1:
                return self.dim(args[0], st)
            raise Unmodelled("construction %s" % render(c)[:60])
        if c.get("k") == "OpCall" and c.get("op") == "()" and args:
            f0 = self.base_lo.resolve(args[0])
            if f0.get("k") == "Lambda" and isinstance(f0.get("body"), dict):
                vec_ops = ("axpy", "scale", "copy", "format", "apply", "dot", "norm2", "component_product", "filter_def", "filter_cor", "_apply_precond", "push_back")
                if not any(is_call(x) and h["cname"](x) in vec_ops for x in walk(f0["body"])):
                    return {}          # a closure without vector arithmetic (bookkeeping epilogue, ...): no equations
            raise Unmodelled("call of a closure that computes with vectors %s" % render(c)[:50])
        if c.get("k") == "OpCall":
            raise Unmodelled("operator call %s" % render(c)[:60])
        # --- solver protocol
        if nm == "_set_initial_defect" or nm == "_set_new_defect":
            self.unify(self.dim(role["vec_def"], st), {"B": Fraction(1)}, "%s: the defect vector %s lies in the right-hand-side space" % (nm, render(role["vec_def"])))
            self.unify(self.dim(role["vec_sol"], st), {"X": Fraction(1)}, "%s: the iterate %s lies in the solution space" % (nm, render(role["vec_sol"])))
            return {}
        if nm == "_update_defect":
            self.unify(self.dim(args[0], st), {"B": Fraction(1)}, "_update_defect(%s): a defect norm has the dimension of the right-hand side" % render(args[0])[:40])
            return {}
        if nm in ("is_converged", "is_diverged") and len(args) == 0 and (obj is None or obj.get("k") == "This"):
            # the argument-less overloads test the cached _def_cur
            self.unify(self.read_obj("this._def_cur", st), {"B": Fraction(1)}, "%s(): the cached defect norm _def_cur has the dimension of the right-hand side" % nm)
            return {}
        if nm in ("is_converged", "is_diverged") and len(args) == 1:
            self.unify(self.dim(args[0], st), {"B": Fraction(1)}, "%s(%s): a defect norm has the dimension of the right-hand side" % (nm, render(args[0])[:40]))
            return {}
        if nm.startswith("_apply_precond") or nm in ("_precond_l", "_precond_r"):
            # generalised inverse of the system operator (own scaling for the split preconditioners of the normal-equation solvers)
            zc, zd = args[0], args[1]
            if nm == "_apply_precond" and self.assume.get("set(_precond)") is False:
                # the configuration without a preconditioner: _apply_precond copies the defect (iterative.hpp), [z] = [r]
                self.define(zc, self.dim(zd, st), st)
                return {}
            if nm == "_apply_precond":
                m = A_DIM
            else:
                m = self.konst("M" + nm[-2:])
            d = self.dim(zd, st)
            self.define(zc, f_add(d, m, -1), st)
            return {}
        # --- vector methods
        if obj is not None and c.get("k") == "MCall":
            o = h["strip"](obj)
            if nm in ("wait",):
                return self.dim(o, st)
            key = self.key_of(o)
            if nm == "apply" and key in ("this._system_matrix", "this._transp_matrix"):
                if set(pn) == {"r", "x"}:
                    self.define(role["r"], f_add(self.dim(role["x"], st), A_DIM), st)
                    return {}
                if set(pn) == {"r", "x", "y", "alpha"}:
                    y = self.dim(role["y"], st)
                    self.unify(y, f_add(f_add(self.dim(role["x"], st), A_DIM), self.dim(role["alpha"], st)),
                               "%s: r = y + alpha*A*x needs [y] = [alpha][A][x]" % render(c)[:70])
                    self.define(role["r"], y, st)
                    return {}
                raise Unmodelled("matrix apply with parameters %s" % pn)
            if nm in ("filter_def", "filter_cor", "filter_sol", "filter_rhs") and key == "this._system_filter":
                self.dim(args[0], st)
                return {}
            if nm in ("at", "front", "back") and "std::vector" in (self.fn.ntype(o) or ""):
                return self.read_obj(self.key_of(c), st)
            if self.is_vec(o) or nm in ("dot", "norm2", "axpy", "scale", "copy", "format", "dot_async", "norm2_async", "norm2sqr", "clone", "clear"):
                if nm in ("dot", "dot_async", "triple_dot"):
                    d = self.dim(o, st)
                    for a in args:
                        d = f_add(d, self.dim(a, st))
                    return d
                if nm in ("norm2", "norm2_async", "max_abs_element", "min_abs_element"):
                    return self.dim(o, st)
                if nm == "norm2sqr":
                    return f_scale(self.dim(o, st), 2)
                if nm == "copy":
                    self.define(o, self.dim(args[0], st), st)
                    return {}
                if nm == "clone":
                    return self.dim(o, st)
                if nm in ("format", "clear"):
                    self.define(o, self.sys.fresh(":fmt"), st)
                    return {}
                if nm == "scale":
                    self.define(o, f_add(self.dim(role["x"], st), self.dim(role["alpha"], st)), st)
                    return {}
                if nm == "axpy":
                    a = self.dim(role["alpha"], st) if "alpha" in role else {}
                    self.unify(self.dim(o, st), f_add(self.dim(role["x"], st), a),
                               "%s: r += alpha*x needs [r] = [alpha][x]" % render(c)[:70])
                    return {}
                if nm == "component_product":
                    self.define(o, f_add(self.dim(role["x"], st), self.dim(role["y"], st)), st)
                    return {}
                if nm in ("size", "local_size", "used_elements", "empty", "name", "bytes"):
                    return {}
                raise Unmodelled("vector method %s" % nm)
            if nm in ("at", "front", "back"):
                return self.read_obj(self.key_of(c), st)
            if nm in ("size",):
                return {}
            if nm in ("resize", "reserve"):
                return {}
            if nm == "push_back":
                self.unify(st[self.key_of(o) + "[*]"], self.dim(args[0], st), "push_back into %s" % self.key_of(o))
                return {}
        # --- a private helper of the same class: analyse its body with the caller's state bound to its entry
        methods = self.h.get("methods") or {}
        if c.get("k") == "MCall" and (obj is None or obj.get("k") == "This") and nm in methods and self.depth < 2:
            return self.inline(c, methods[nm], st)
        raise Unmodelled("call %s" % render(c)[:70])

    def inline(self, c, callee, st):
        sub = DimFlow(callee, self.h["Locals"](callee), self.h, assume=self.assume, skip=self.skip)
        sub.sys = self.sys
        sub.depth = self.depth + 1
        sub.stmt_conflicts = self.stmt_conflicts
        sub.unmodelled = self.unmodelled
        sub.evaluated = self.evaluated
        sub.evaluated_in = self.evaluated_in
        sub.returns = []
        sub.free_atoms, sub.opaque, sub.enum_fields = self.free_atoms, self.opaque, self.enum_fields
        args = c.get("a", [])
        for i, prm in enumerate(callee.params):
            if i < len(args) and (callee.type(prm["t"]) or "").replace("const ", "").strip() == "bool":
                t = self.cfg_truth(args[i])
                if t is not None:
                    sub.ptruth[prm["d"]] = t       # a configuration test handed down as a flag
                else:
                    self.note_opaque(args[i])
        sub.run()
        cfg = callee.cfg
        trans = {}
        for i, prm in enumerate(callee.params):
            if i >= len(args):
                continue
            ty = callee.type(prm["t"]) or ""
            if "&" in ty and "Vector" in _strip_targs(ty):
                trans["$%d" % i] = ("obj", self.key_of(args[i]))
            else:
                trans["$%d" % i] = ("val", self.dim(args[i], st))
        # entry unknowns of the callee = the caller's current values
        self.cur_stmt = c
        for key, var in list(sub.ins[cfg.entry].entry.items()):
            if key.startswith("l:"):
                continue
            if key in trans:
                kind, v = trans[key]
                self.unify(var, st[self.summary(v)] if kind == "obj" else v, "argument %s of %s" % (key, callee.name))
            elif key.startswith("$"):
                continue
            else:
                self.unify(var, st[key], "value of %s on entry of %s" % (key, callee.name))
        # exit state of the callee flows back
        exits = [b for b in cfg.normal_exit_preds() if b in sub.ins]
        written = {}
        for b in exits:
            for key in dict.keys(sub.ins[b]):
                if key.startswith("l:") or (key in trans and trans[key][0] == "val"):
                    continue
                written.setdefault(key, []).append(sub.ins[b][key])
        for key, vals in written.items():
            tgt = trans[key][1] if key in trans else key
            if key.startswith("$") and key not in trans:
                continue
            v = vals[0]
            for w in vals[1:]:
                self.unify(v, w, "value of %s at the exits of %s" % (key, callee.name))
            if len(vals) < len(exits):
                # not touched on some exit path: there the entry value survives
                self.unify(v, st[self.summary(tgt)], "value of %s around %s" % (key, callee.name))
            if "[" in tgt:
                self.unify(st[self.summary(tgt)], v, "element of container %s" % tgt)
            else:
                st[tgt] = v
        r = None
        for rv in sub.returns:
            if r is None:
                r = rv
            else:
                self.unify(r, rv, "values returned by %s" % callee.name)
        return r if r is not None else {}

    def define(self, target, f, st):
        t = self.h["strip"](target)
        if t.get("k") == "Ref" and t.get("dk") == "local" and not (self.lo.var.get(t["d"]) or {}).get("ref"):
            st["l:%s" % t["d"]] = f
            return
        key = self.key_of(t)
        if "[" in key:
            self.unify(st[self.summary(key)], f, "element of container %s (all elements share one dimension)" % key)
        else:
            st[key] = f

    # ---- driver
    def edge_allowed(self, blk, pos):
        """is the pos-th successor edge of blk taken in the assumed configuration?"""
        succ = blk.get("succ", [])
        if blk.get("cond") is None:
            return True
        b = self._bid.get(id(blk))
        if b in self.flag_out:
            self.cur_flags = self.flag_out[b]
        c = self.fn.by_id(blk["cond"])
        if c is None:
            return True
        if blk.get("term") == "SwitchStmt":
            allowed = self.switch_edges(blk, c)
            return True if allowed is None else (pos in allowed)
        if len(succ) != 2:
            return True
        t = self.cfg_truth(c)
        if t is None:
            return True
        return (pos == 0) == t

    def switch_edges(self, blk, c):
        """switch on a configuration field: positions of the successor edges possible under the assumption (None: not such a switch)"""
        key = ("sw", blk.get("cond"))
        if key in self._truth_cache:
            return self._truth_cache[key]
        res = None
        if self.is_cfg_term(c) and self.base_lo.resolve(c).get("k") == "Member":
            cfg = self.fn.cfg
            tc = self.h["term"](self.base_lo, c)
            cases, default = [], []
            for pos, s in enumerate(blk.get("succ", [])):
                if s is None:
                    continue
                lab = self.fn.by_id(cfg.blocks[s].get("label")) if cfg.blocks[s].get("label") is not None else None
                if lab is not None and lab.get("k") == "Case" and lab.get("v") is not None and self.is_cfg_term(lab["v"]):
                    if self.base_lo.resolve(lab["v"]).get("dk") == "enum":
                        self.enum_fields[self.base_lo.resolve(c)["n"]] = (self.fn.ntype(self.base_lo.resolve(c)) or "").replace("const ", "").strip()
                    x, y = sorted([tc, self.h["term"](self.base_lo, lab["v"])])
                    cases.append((pos, "eq(%s,%s)" % (x, y)))
                elif lab is not None and lab.get("k") == "Case":
                    cases = None
                    break
                else:
                    default.append(pos)
            if cases is not None:
                hit = [pos for pos, a in cases if self.assume.get(a) is True]
                if hit:
                    res = set(hit[:1])
                else:
                    res = set(default)
                    for pos, a in cases:
                        if a not in self.assume:
                            self.free_atoms.add(a)
                            res.add(pos)
        self._truth_cache[key] = res
        return res

    def flag_step(self, n, st):
        """effect of one CFG element on the known values of the re-assigned bool locals"""
        if not self.flags:
            return
        k = n.get("k")
        if k == "Decl":
            for v in n.get("vars", []):
                if v["d"] in self.flags:
                    st[v["d"]] = self.cfg_truth(v["init"]) if v.get("init") is not None else None
        elif k == "Assign":
            l = self.h["strip"](n["lhs"])
            if l.get("k") == "Ref" and l.get("d") in self.flags:
                st[l["d"]] = self.cfg_truth(n["rhs"]) if n.get("op") == "=" else None
        elif is_call(n):
            for i, a in enumerate(n.get("a", [])):
                a = self.h["strip"](a)
                if a.get("k") == "Ref" and a.get("d") in self.flags:
                    pt = self.fn.type(n["pt"][i]) if i < len(n.get("pt", [])) else "&"
                    if "&" in pt and "const" not in pt:
                        st[a["d"]] = None

    def propagate_flags(self):
        """forward constant propagation of the re-assigned bool locals over the CFG pruned by the assumption
        (values: True / False / None = not constant).  Returns the set of reachable blocks."""
        fn, cfg = self.fn, self.fn.cfg
        self.flags = {d for d, v in self.base_lo.var.items() if not v.get("ref") and self.base_lo.writes.get(d, 0) > 0
                      and (fn.type(v.get("t")) or "").replace("const ", "").strip() == "bool"}
        ins = {cfg.entry: {}}
        outs = {}
        work = [cfg.entry]
        n_it = 0
        while work and n_it < 20000:
            n_it += 1
            b = work.pop()
            st = dict(ins[b])
            self.cur_flags = st
            for sid in cfg.blocks[b]["el"]:
                n = fn.by_id(sid)
                if n is not None:
                    self.flag_step(n, st)
            outs[b] = st
            blk = cfg.blocks[b]
            self.flag_out[b] = st
            for pos, s in enumerate(blk.get("succ", [])):
                if s is None or not self.edge_allowed(blk, pos):
                    continue
                old = ins.get(s)
                if old is None:
                    ins[s] = dict(st)
                    work.append(s)
                    continue
                ch = False
                for d, v in st.items():
                    if d not in old:
                        old[d] = v
                        ch = True
                    elif old[d] != v and old[d] is not None:
                        old[d] = None
                        ch = True
                if ch:
                    work.append(s)
        self.flag_in = ins
        self.flag_out = outs
        return set(ins)

    def run(self):
        fn, cfg = self.fn, self.fn.cfg
        ins = {}
        self._bid = {id(blk): b for b, blk in cfg.blocks.items()}
        reach = self.propagate_flags()           # reachable blocks under the assumption
        order = sorted(reach, reverse=True)      # clang numbers blocks in reverse: entry has the highest id
        self.ins = ins
        for b in order:
            blk = cfg.blocks[b]
            st = _Lazy(self, b)
            ins[b] = st
            els = [fn.by_id(sid) for sid in blk["el"]]
            els = [n for n in els if n is not None]
            ids = {n["i"] for n in els}
            nested = set()
            for n in els:
                for x in walk(n):
                    if x is not n and x.get("i") in ids:
                        nested.add(x["i"])
            self.cur_flags = dict(self.flag_in.get(b, {}))
            for n in els:
                if n["i"] in nested or (self.fn.full, n["i"]) in self.skip:
                    self.flag_step(n, self.cur_flags)
                    continue
                self.evaluated.append(n)
                self.evaluated_in.append(self.fn.full)
                self.cur_stmt = n
                try:
                    self.stmt(n, st)
                except Unmodelled as u:
                    self.unmodelled.append("line %s: %s" % (n.get("l"), u))
                except KeyError as u:
                    self.unmodelled.append("line %s: missing role %s in %s" % (n.get("l"), u, render(n)[:50]))
                self.flag_step(n, self.cur_flags)
            if blk.get("cond") is not None and len([x for x in blk.get("succ", []) if x is not None and x in reach]) >= 2:
                c = fn.by_id(blk["cond"])
                if c is not None:
                    if blk.get("term") == "SwitchStmt":
                        if self.switch_edges(blk, c) is None and not any(is_call(x) for x in walk(c)) and "Status" not in (fn.ntype(self.h["strip"](c)) or ""):
                            what = "switch(%s)" % render(c)[:40]
                            if what not in self.opaque:
                                self.opaque.append(what)
                    else:
                        self.note_opaque(c)
            if blk.get("cond") is not None and len(blk.get("succ", [])) == 2:
                c = fn.by_id(blk["cond"])
                if c is not None and not any(x.get("i") in ids for x in walk(c)):
                    self.cur_stmt = c
                    try:
                        self.dim(c, st)
                    except Unmodelled as u:
                        self.unmodelled.append("line %s: condition: %s" % (c.get("l"), u))
        if self.depth > 0:
            # an inlined helper: every object it touches anywhere must be visible at its exits (the caller reads the exit states),
            # also when the exit block itself does not mention it
            allkeys = set()
            for b in order:
                allkeys |= {k for k in dict.keys(ins[b]) if not k.startswith("l:")}
            for b in cfg.normal_exit_preds():
                if b in ins:
                    for key in sorted(allkeys):
                        ins[b][key]
        # edge equations; pass-through keys materialise entry unknowns in the source block, so iterate
        done = set()
        changed = True
        while changed:
            changed = False
            for b in order:
                blk = cfg.blocks[b]
                for pos, s in enumerate(blk.get("succ", [])):
                    if s is None or s not in reach or not self.edge_allowed(blk, pos):
                        continue
                    tgt = ins[s]
                    for key, f in list(tgt.entry.items()):
                        if (b, s, key) in done:
                            continue
                        done.add((b, s, key))
                        changed = True
                        src = ins[b][key]
                        els = cfg.blocks[s]["el"]
                        self.cur_stmt = fn.by_id(els[0]) if els else None
                        self.unify(src, f, "value of %s flowing from block %d into block %d" % (self.key_name(key), b, s))
        return self

    def stmt(self, n, st):
        k = n.get("k")
        if k == "Decl":
            for v in n.get("vars", []):
                if v.get("ref"):
                    continue
                t = self.fn.type(v.get("t")) or ""
                if "Status" in t or "IterationStats" in t or "String" in t:
                    continue
                if v.get("init") is not None:
                    st["l:%s" % v["d"]] = self.dim(v["init"], st)
                else:
                    st["l:%s" % v["d"]] = self.sys.fresh(":" + v["n"])
        elif k in ("Assign", "MCall", "Call", "Construct", "TempObj", "OpCall", "Un"):
            self.dim(n, st)
        elif k == "Return" and self.returns is not None and n.get("e") is not None:
            t = self.fn.ntype(self.h["strip"](n["e"])) or ""
            if "Status" not in t and "bool" not in t:
                self.returns.append(self.dim(n["e"], st))
            else:
                self.dim(n["e"], st)


class _Lazy(dict):
    """block state: keys are materialised on first read as block-entry unknowns (phi variables)"""

    def __init__(self, df, b):
        super().__init__()
        self.df = df
        self.b = b
        self.entry = {}

    def __contains__(self, key):
        return True

    def __getitem__(self, key):
        if not dict.__contains__(self, key):
            v = self.df.sys.fresh(":b%d" % self.b)
            self.entry[key] = v
            dict.__setitem__(self, key, v)
        return dict.__getitem__(self, key)

    def get_or_entry(self, key):
        return self[key]


class CfgPruner(DimFlow):
    """only the configuration machinery of DimFlow: which CFG edges exist under an assumption {atom: truth}
    (used by other path analyses of checks/c07.py that must not merge two configurations)"""

    def prepare(self):
        cfg = self.fn.cfg
        self._bid = {id(blk): b for b, blk in cfg.blocks.items()}
        self.reach = self.propagate_flags()
        for b in self.reach:
            blk = cfg.blocks[b]
            for pos in range(len(blk.get("succ", []))):
                self.edge_allowed(blk, pos)           # (also collects the free atoms of every reachable test)
        return self
