"""norm_c08: refactoring-stable normal forms shared by the solver checks C08 / C09.

(1) Inliner — fact-level inlining of helper functions defined in the analysed tree.  A rule that reasons about
    the statements of an anchored function (tree walks + CFG reachability) must see the same program whether a block
    of that function lives in the function itself or in a private helper called from it ("extract helper" /
    "inline helper" refactorings).  `Inliner(facts).inline(fn, want)` returns a Function whose body *and* CFG have
    the bodies of the selected callees spliced in at their call sites:

      * statement-level calls  `helper(a, b);`                       -> { bindings; body }
      * value uses in simple statement positions, for callees whose only `return` is the last statement:
            `return helper(a);`  `x = helper(a);`  `T x = helper(a);` -> { bindings; body' }  stmt[<returned expression>]
      * pure expression helpers (body == `return <expr>;`, arguments without side effects) anywhere in an
        expression: the call node is replaced by the returned expression with the arguments substituted.

    Parameters bound to *simple* arguments (a variable, a literal, a member of *this, possibly under integer casts)
    are substituted directly, so that rules that compare declaration ids keep working unchanged; other arguments are
    bound by a synthetic declaration `const T& p = <arg>` that FnView.value()/alias resolution see like a hand-written
    named temporary.  Node ids, local declaration ids and CFG block ids of every inlined copy are renumbered, so one
    helper may be inlined at several sites.  Not inlined (the call stays, rules answer "not modelled" as before):
    virtual functions, recursion, callees with a `return` that is not the last statement, calls on another object
    than *this, callees without a body in the facts.

(2) Conditions — decision contexts: the list of (atom, truth) under which a node executes, with `switch` cases,
    `if`/`else if` chains, ternaries, negations and `&&` nesting reduced to the same form; `enum_cases` evaluates a
    context over the enumerators of one enum-typed selector.

(3) Affine index forms over never-written locals: `affine(view, n)` -> (decl id | None, offset).
"""
import copy
import itertools

import featlib
from featlib import Function, render
from mgfacts import strip, walk, kids

_fresh_decl = itertools.count(10 ** 8)

SIMPLE_LIT = ("Int", "Bool", "Float", "Null", "Char")


def _is_this_member(n):
    n = strip(n)
    return n.get("k") == "Member" and strip(n.get("b") or {"k": "This"}).get("k") == "This"


def _simple_arg(a):
    """a variable, literal or member of *this (under casts): may be substituted for the parameter directly"""
    s = strip(a)
    k = s.get("k")
    if k == "Ref" and s.get("dk") in ("local", "param", "global", "enum", "smember"):
        return True
    if k in SIMPLE_LIT:
        return True
    if _is_this_member(s):
        return True
    return False


def _has_effects(n):
    for x in walk(n):
        if x.get("k") in ("Assign", "Call", "MCall", "OpCall", "Construct", "TempObj", "New", "Delete", "Throw", "Lambda"):
            return True
        if x.get("k") == "Un" and x.get("op") in ("++", "--"):
            return True
    return False


def _max_id(node):
    m = -1
    for x in walk(node):
        if isinstance(x.get("i"), int) and x["i"] > m:
            m = x["i"]
    return m


def _returns(body):
    return [x for x in walk(body) if x.get("k") == "Return"]


def _lambda_free_returns(body):
    """Return statements of the function itself (not those of lambdas defined inside)"""
    out = []

    def rec(n):
        for c in kids(n):
            if c.get("k") == "Lambda":
                continue
            if c.get("k") == "Return":
                out.append(c)
            rec(c)
    rec(body)
    return out


class Inliner:
    def __init__(self, facts):
        self.facts = facts
        self.bydecl = {}
        for f in facts.functions:
            if f.tk != "pattern" and f.body is not None and f.d.get("decl") is not None:
                self.bydecl.setdefault(f.d["decl"], f)
        self.memo = {}
        self.log = []          # (caller qn, callee name, line, mode)

    # ---- eligibility --------------------------------------------------------------------------------
    def callee(self, call):
        if call.get("k") not in ("MCall", "Call"):
            return None
        if call.get("k") == "MCall":
            o = call.get("obj")
            if o is not None and strip(o).get("k") != "This":
                return None
        f = self.bydecl.get(call.get("cdecl"))
        if f is None or f.d.get("virtual") or f.cfg is None or f.body is None or f.body.get("k") != "Block":
            return None
        if f.d.get("ctor") or f.d.get("dtor"):
            return None
        if len(call.get("a", [])) != len(f.params):
            return None
        return f

    @staticmethod
    def tail_return_only(f):
        """(ok, return node or None): the only return statement of f, if any, is the last top-level statement"""
        rs = _lambda_free_returns(f.body)
        if not rs:
            return True, None
        st = f.body.get("s", [])
        if len(rs) == 1 and st and st[-1] is rs[0]:
            return True, rs[0]
        return False, None

    @staticmethod
    def pure_expr(f):
        """the returned expression if the body of f is `return <expr>;` only"""
        st = f.body.get("s", [])
        if len(st) == 1 and st[0].get("k") == "Return" and st[0].get("e") is not None:
            return st[0]["e"]
        return None

    # ---- cloning ------------------------------------------------------------------------------------
    def _clone(self, node, off, dmap, subst, alloc):
        """deep copy with node ids shifted by off, local decl ids renamed through dmap, parameter references
        replaced: subst[d] = ('node', arg) -> the argument node itself (shared), ('local', new d, name)"""
        if isinstance(node, list):
            return [self._clone(x, off, dmap, subst, alloc) for x in node]
        if not isinstance(node, dict):
            return node
        k = node.get("k")
        if k == "Ref" and node.get("d") in subst:
            s = subst[node["d"]]
            if s[0] == "node":
                return self._fresh_copy(s[1], alloc)
            out = dict(node)
            out["dk"] = "local"
            out["d"] = s[1]
            if isinstance(out.get("i"), int):
                out["i"] += off
            return out
        out = {}
        for key, v in node.items():
            if key == "i" and isinstance(v, int):
                out[key] = v + off
            elif key == "d" and k in ("Ref", "Var") and v in dmap:
                out[key] = dmap[v]
            elif isinstance(v, (dict, list)):
                out[key] = self._clone(v, off, dmap, subst, alloc)
            else:
                out[key] = v
        return out

    def _fresh_copy(self, node, alloc):
        """deep copy of an argument expression with new node ids (one copy per use: parent links stay unique)"""
        if isinstance(node, list):
            return [self._fresh_copy(x, alloc) for x in node]
        if not isinstance(node, dict):
            return node
        out = {}
        for key, v in node.items():
            if key == "i" and isinstance(v, int):
                out[key] = alloc()
            elif isinstance(v, (dict, list)):
                out[key] = self._fresh_copy(v, alloc)
            else:
                out[key] = v
        return out

    # ---- main ---------------------------------------------------------------------------------------
    def inline(self, fn, want=None, depth=3, _stack=()):
        """-> Function with the selected helper calls inlined (fn itself if there is nothing to inline).
        want(call node, callee Function) -> bool selects the calls (default: all eligible ones)."""
        key = (id(fn), id(want), depth)
        if key in self.memo:
            return self.memo[key]
        res = self._inline(fn, want, depth, _stack)
        self.memo[key] = res
        return res

    def _inline(self, fn, want, depth, stack):
        if depth <= 0 or fn.body is None or fn.cfg is None:
            return fn
        me = fn.d.get("decl")
        # is there anything to do?  (cheap pre-scan on the original tree)
        cands = []
        for n in walk(fn.body):
            if n.get("k") in ("MCall", "Call"):
                c = self.callee(n)
                if c is not None and c.d.get("decl") != me and c.d.get("decl") not in stack and c.facts is fn.facts and (want is None or want(n, c)):
                    cands.append(n.get("i"))
        if not cands:
            return fn
        cands = set(cands)
        body = copy.deepcopy(fn.body)
        cfg = copy.deepcopy(fn.d["cfg"])
        st = {"next_id": max(_max_id(body), max([e for b in cfg["blocks"] for e in b["el"]] + [0])) + 1,
              "next_blk": max(b["id"] for b in cfg["blocks"]) + 1, "done": 0}
        blocks = {b["id"]: b for b in cfg["blocks"]}
        inits = fn.d.get("inits")

        def new_id():
            st["next_id"] += 1
            return st["next_id"] - 1

        def bind(call, cal):
            """-> (binding Decl nodes, subst map for the clone)"""
            decls, subst = [], {}
            written = set()
            for x in walk(cal.body):
                if x.get("k") == "Assign" and strip(x["lhs"]).get("k") == "Ref":
                    written.add(strip(x["lhs"])["d"])
                elif x.get("k") == "Un" and x.get("op") in ("++", "--") and strip(x["e"]).get("k") == "Ref":
                    written.add(strip(x["e"])["d"])
            for p, a in zip(cal.params, call.get("a", [])):
                if not p.get("n"):
                    continue
                ty = cal.type(p["t"])
                if _simple_arg(a) and p["d"] not in written:
                    subst[p["d"]] = ("node", strip(a) if strip(a).get("k") in ("Ref", "Member") else a)
                    continue
                nd = next(_fresh_decl)
                subst[p["d"]] = ("local", nd, p["n"])
                var = {"k": "Var", "n": p["n"], "d": nd, "t": p["t"], "l": call.get("l"), "init": a, "inl_param": True}
                if "&" in ty:
                    var["ref"] = True
                if ty.strip().startswith("const ") or p["d"] not in written:
                    var["const"] = True
                decls.append({"k": "Decl", "i": new_id(), "l": call.get("l"), "vars": [var]})
            return decls, subst

        def splice_cfg(call_id, decl_ids, cal, off, drop_ids, extra_after=()):
            """replace element call_id by: decl_ids, the callee's CFG, extra_after"""
            where = None
            for b in blocks.values():
                if call_id in b["el"]:
                    where = (b, b["el"].index(call_id))
                    break
            if where is None:
                return False
            B, p = where
            ccfg = cal.d["cfg"]
            base = st["next_blk"]
            st["next_blk"] += max(x["id"] for x in ccfg["blocks"]) + 2
            nb2 = st["next_blk"] - 1
            B2 = {"id": nb2, "el": list(extra_after) + B["el"][p + 1:], "succ": B.get("succ", [])}
            for key in ("term", "term_id", "cond", "noreturn"):
                if key in B:
                    B2[key] = B.pop(key)
            B["el"] = B["el"][:p] + list(decl_ids)
            B["succ"] = [base + ccfg["entry"]]
            blocks[nb2] = B2
            cbyid = {}
            for x in walk(cal.body):
                if "i" in x:
                    cbyid[x["i"]] = x
            for cb in ccfg["blocks"]:
                if cb["id"] == ccfg["exit"]:
                    continue
                leaves = bool(cb.get("noreturn")) or any((cbyid.get(e) or {}).get("k") == "Throw" for e in cb["el"])
                nbk = {"id": base + cb["id"], "el": [e + off for e in cb["el"] if e not in drop_ids],
                       "succ": [None if s is None else ((cfg["exit"] if leaves else nb2) if s == ccfg["exit"] else base + s) for s in cb.get("succ", [])]}
                for key in ("term", "noreturn"):
                    if key in cb:
                        nbk[key] = cb[key]
                for key in ("term_id", "cond", "label"):
                    if isinstance(cb.get(key), int):
                        nbk[key] = cb[key] + off
                blocks[nbk["id"]] = nbk
            return True

        def expand(call, cal, mode):
            """-> (block node with bindings + body, cloned returned expression or None)"""
            cal = self.inline(cal, want, depth - 1, stack + (me,))
            ok, ret = self.tail_return_only(cal)
            dmap = {}
            for x in walk(cal.body):
                if x.get("k") == "Var" and "d" in x:
                    dmap[x["d"]] = next(_fresh_decl)
            decls, subst = bind(call, cal)
            off = st["next_id"]
            st["next_id"] += _max_id(cal.body) + 2
            stmts = cal.body.get("s", [])
            drop = set()
            rexpr = None
            if ret is not None:
                stmts = stmts[:-1]
                drop.add(ret["i"])
                if ret.get("e") is not None:
                    rexpr = self._clone(ret["e"], off, dmap, subst, new_id)
            cloned = [self._clone(s, off, dmap, subst, new_id) for s in stmts]
            extra = []
            if rexpr is not None and mode == "stmt" and _has_effects(rexpr):
                cloned.append(rexpr)            # `return g(x);` of a helper whose value the caller ignores
            blk = {"k": "Block", "i": new_id(), "l": call.get("l"), "s": decls + cloned, "inl": cal.qn, "inl_name": cal.name}
            splice_cfg(call["i"], [d["i"] for d in decls], cal, off, drop)
            self.log.append((fn.qn, cal.name, call.get("l"), mode))
            st["done"] += 1
            return blk, rexpr

        def try_stmt(s):
            """-> replacement statement list, or None"""
            if not isinstance(s, dict):
                return None
            k = s.get("k")
            c = strip(s) if k in ("MCall", "Call", "Cast") else None
            if c is not None and c.get("k") in ("MCall", "Call") and c.get("i") in cands:
                cal = self.callee(c)
                if cal is not None and self.tail_return_only(self.inline(cal, want, depth - 1, stack + (me,)))[0]:
                    blk, _ = expand(c, cal, "stmt")
                    return [blk]
                return None
            slot = None
            if k == "Return" and s.get("e") is not None:
                slot = (s, "e")
            elif k == "Assign" and s.get("op") == "=" and not _has_effects(s["lhs"]):
                slot = (s, "rhs")
            elif k == "Decl" and len(s.get("vars", [])) == 1 and s["vars"][0].get("init") is not None:
                slot = (s["vars"][0], "init")
            if slot is not None:
                c = strip(slot[0][slot[1]])
                if c.get("k") in ("MCall", "Call") and c.get("i") in cands:
                    cal = self.callee(c)
                    if cal is None:
                        return None
                    cal2 = self.inline(cal, want, depth - 1, stack + (me,))
                    ok, ret = self.tail_return_only(cal2)
                    if not ok or ret is None or ret.get("e") is None or self.pure_expr(cal2) is not None:
                        return None
                    blk, rexpr = expand(c, cal, "value")
                    slot[0][slot[1]] = rexpr
                    return [blk, s]
            return None

        def rewrite(n):
            """in-place rewrite of the statement positions below n"""
            if not isinstance(n, dict):
                return
            k = n.get("k")
            if k == "Lambda":
                return
            if k == "Block":
                out = []
                for s in n.get("s", []):
                    r = try_stmt(s)
                    if r is None:
                        rewrite(s)
                        out.append(s)
                    else:
                        out.extend(r)
                n["s"] = out
                return
            for key in ("then", "else", "body"):
                s = n.get(key)
                if isinstance(s, dict) and s.get("k") != "Block":
                    r = try_stmt(s)
                    if r is not None:
                        n[key] = r[0] if len(r) == 1 else {"k": "Block", "i": new_id(), "l": s.get("l"), "s": r}
                        continue
                if isinstance(s, dict):
                    rewrite(s)
            if k in ("Case", "Default") and isinstance(n.get("s"), dict):
                s = n["s"]
                r = try_stmt(s)
                if r is not None:
                    n["s"] = r[0] if len(r) == 1 else {"k": "Block", "i": new_id(), "l": s.get("l"), "s": r}
                else:
                    rewrite(s)
            elif k in ("Switch", "Try", "OMP"):
                for c in kids(n):
                    rewrite(c)

        rewrite(body)

        # pure expression helpers anywhere else
        def subst_exprs(n):
            if not isinstance(n, dict):
                return
            for key, v in list(n.items()):
                if key in ("inl", "inl_name"):
                    continue
                if isinstance(v, dict):
                    r = expr_repl(v)
                    if r is not None:
                        n[key] = r
                        subst_exprs(r)
                    else:
                        subst_exprs(v)
                elif isinstance(v, list):
                    for idx, x in enumerate(v):
                        if isinstance(x, dict):
                            r = expr_repl(x)
                            if r is not None:
                                v[idx] = r
                                subst_exprs(r)
                            else:
                                subst_exprs(x)

        def expr_repl(c):
            if c.get("k") not in ("MCall", "Call") or c.get("i") not in cands:
                return None
            cal = self.callee(c)
            if cal is None:
                return None
            e = self.pure_expr(cal)
            if e is None or any(_has_effects(a) for a in c.get("a", [])):
                return None
            if any(x.get("k") in ("Assign", "Lambda", "New", "Delete", "Throw") or (x.get("k") == "Un" and x.get("op") in ("++", "--")) for x in walk(e)):
                return None
            subst = {}
            for p, a in zip(cal.params, c.get("a", [])):
                subst[p["d"]] = ("node", a)
            off = st["next_id"]
            st["next_id"] += _max_id(cal.body) + 2
            r = self._clone(e, off, {}, subst, new_id)
            # CFG: the call element is replaced by the interesting elements of the returned expression
            celems = [x for b in cal.d["cfg"]["blocks"] for x in b["el"]]
            ret_id = cal.body["s"][0]["i"]
            rep = [x + off for x in celems if x != ret_id]
            for b in blocks.values():
                if c["i"] in b["el"]:
                    p = b["el"].index(c["i"])
                    b["el"] = b["el"][:p] + rep + b["el"][p + 1:]
                    break
            self.log.append((fn.qn, cal.name, c.get("l"), "expr"))
            st["done"] += 1
            return r
        subst_exprs(body)
        if not st["done"]:
            return fn
        d2 = dict(fn.d)
        d2["body"] = body
        cfg["blocks"] = [blocks[b] for b in sorted(blocks)]
        d2["cfg"] = cfg
        d2["inlined"] = sorted({x[1] for x in self.log if x[0] == fn.qn})
        out = Function(fn.facts, d2)
        return out


# -------------------------------------------------------------------------------------------------
# decision contexts
# -------------------------------------------------------------------------------------------------

NEG = {"<": ">=", ">": "<=", "<=": ">", ">=": "<", "==": "!=", "!=": "=="}


def split_cond(c, truth=True):
    """condition node -> list of alternatives, each a list of (atom, truth): DNF over && / || / !"""
    c = strip(c)
    k = c.get("k")
    if k == "Un" and c.get("op") == "!":
        return split_cond(c["e"], not truth)
    if k == "Bin" and c.get("op") in ("&&", "||"):
        conj = (c["op"] == "&&") == truth
        L, R = split_cond(c["lhs"], truth), split_cond(c["rhs"], truth)
        if conj:
            return [a + b for a in L for b in R]
        return L + R
    return [[(c, truth)]]


def contexts(view, node):
    """decision contexts of a node: list of alternatives, each a list of (atom, truth); a `case X:` of
    `switch(sel)` contributes the atom ('case', sel node, [value nodes]) with truth True, `default:` the same with
    the values of all sibling cases and truth False.  Ternary operators on the way up are included."""
    alts = [[]]
    child = node
    p = view.parent.get(node.get("i"))
    while p is not None:
        k = p.get("k")
        if k in ("If", "Cond"):
            inthen = p.get("then") is not None and (p["then"] is child or child.get("i") == p["then"].get("i"))
            inelse = p.get("else") is not None and (p["else"] is child or child.get("i") == p["else"].get("i"))
            if inthen or inelse:
                new = split_cond(p.get("c") or {}, inthen)
                alts = [a + b for a in alts for b in new]
        elif k in ("Case", "Default"):
            sw = view.parent.get(p.get("i"))
            while sw is not None and sw.get("k") != "Switch":
                sw = view.parent.get(sw.get("i"))
            if sw is not None:
                sel = sw.get("c")
                if k == "Case":
                    alts = [a + [(("case", sel, [p.get("v")]), True)] for a in alts]
                else:
                    vals = [x.get("v") for x in walk(sw.get("body")) if x.get("k") == "Case"]
                    alts = [a + [(("case", sel, vals), False)] for a in alts]
        child, p = p, view.parent.get(p.get("i"))
    return alts


def enum_values(view, is_selector, alt, universe):
    """subset of `universe` (enumerator short names) that the selector can have under the context alternative alt;
    atoms that do not mention the selector are ignored.  Returns None if an atom on the selector is not understood."""
    poss = set(universe)

    def ename(n):
        n = view.value(n)
        if n.get("k") == "Ref" and n.get("dk") == "enum":
            return (n.get("qn") or n.get("n") or "").rsplit("::", 1)[-1]
        return None
    for atom, truth in alt:
        if isinstance(atom, tuple) and atom[0] == "case":
            if not is_selector(view.value(atom[1])):
                continue
            names = [ename(v) for v in atom[2]]
            if any(x is None for x in names):
                return None
            poss &= set(names) if truth else (set(universe) - set(names))
            continue
        a = strip(atom)
        if a.get("k") == "Bin" and a.get("op") in ("==", "!="):
            for x, y in ((a["lhs"], a["rhs"]), (a["rhs"], a["lhs"])):
                if is_selector(view.value(x)):
                    nm = ename(y)
                    if nm is None:
                        return None
                    eq = (a["op"] == "==") == truth
                    poss &= {nm} if eq else (set(universe) - {nm})
                    break
            continue
        if any(is_selector(x) for x in walk(a) if x.get("k") == "Member"):
            return None
    return poss


# -------------------------------------------------------------------------------------------------
# affine index forms
# -------------------------------------------------------------------------------------------------

def affine(view, n, depth=0):
    """(decl id or None, integer offset) if n == var + offset / constant, resolving never-written locals;
    None otherwise.  Casts are ignored (index arithmetic of the kernels is free of wrap-around by their own
    XASSERTs)."""
    n = strip(n)
    if depth > 12:
        return None
    k = n.get("k")
    if k == "Int":
        return (None, int(n["v"]))
    if k == "Ref":
        if n.get("dk") == "local" and view.is_const_local(n["d"]):
            r = affine(view, view.locals[n["d"]]["init"], depth + 1)
            if r is not None:
                return r
        if n.get("dk") in ("local", "param"):
            return (n["d"], 0)
        return None
    if k == "Bin" and n.get("op") in ("+", "-"):
        a, b = affine(view, n["lhs"], depth + 1), affine(view, n["rhs"], depth + 1)
        if a is None or b is None:
            return None
        if n["op"] == "+":
            if a[0] is None:
                return (b[0], a[1] + b[1])
            if b[0] is None:
                return (a[0], a[1] + b[1])
            return None
        if b[0] is None:
            return (a[0], a[1] - b[1])
        return None
    if k in ("Construct", "TempObj") and len(n.get("a", [])) == 1:
        return affine(view, n["a"][0], depth + 1)
    return None
